"""C06 bounded stand-ins [B]: noisy simulation is physical, backend-independent and switchable.

Contracts (from the property statement) on the REAL code
    graphiq.noise.noise_models: DepolarizingNoise.apply, PauliError.apply, PhotonLoss.apply, NoNoise
    graphiq.backends.compiler_base.CompilerBase.compile  (through DensityMatrixCompiler and StabilizerCompiler)
    graphiq.circuit.circuit_dag.CircuitDAG.assign_noise / _noisy_gates / _find_wrapped_noise
    graphiq.solvers.solver_base.SolverBase._identify_noise / _wrap_noise
    graphiq.metrics.Infidelity.evaluate on the compiled states of both backends
Oracles: refsem.noise (Kraus / mixture form of each channel on density matrices, noisy unitary circuits with the noise
placed before or after each gate), refsem.core (gates, stabilizer projectors with signs), refsem.f_stab (all stabilizer
states as targets).  Nothing in refsem imports graphiq.

Clauses -> items
  "the density-matrix result is PSD with trace = product of the photon survival probabilities"   compile.dm.physical.*
  "the mixed-stabilizer result has the same total weight and the same fidelity with any pure
   stabilizer target"                                                                            compile.backend_agreement.*
  "depolarizing / Pauli error / photon loss"  (what each supported model does)                  <Model>.apply.{dm,stabilizer_mixture}
  "placed before or after a gate"                                                               compile.dm.placement_oracle.*
  "every assignment ... / maps from (register type, gate type) to a noise model"                assign_noise.*, solver_base.*
  "zero strength / empty noise map / switched off reproduce the noiseless state exactly"        compile.zero_strength, compile.empty_noise_map,
                                                                                                compile.switched_off
  circuits that also measure (forced outcomes, measurement_determinism=1)                       compile.measured.*

A mixed-stabilizer state sum_i p_i |t_i><t_i| has the same weight and the same fidelity with *every* pure stabilizer state as
the density matrix rho iff the two matrices are equal (stabilizer projectors span the Hermitian matrices); the agreement
items compare the matrices and, in addition, the fidelities with an explicit list of stabilizer targets.

Where the unchanged tree fails a clause for a whole describable class of inputs, that class has its own item, so the
remaining domain stays a must-pass item (see C06.findings.md).  Not driven: noise attached to measuring / classically
controlled operations (DensityMatrixCompiler raises "Noise model not implemented for operation type", an explicit
limitation), replacement noise models, Monte-Carlo noise, the graph backend.
"""
from __future__ import annotations

import itertools

import numpy as np

from refsem import core, dmref, f_stab
from refsem import noise as rn
from vf.bounded import Suite

S = Suite("C06")
TOL = 1e-9

_INV_CLASS1 = {v: k for k, v in core.CLASS1.items()}
_FULL = {}


def _full(n):
    """all n-qubit stabilizer states with a complete Clifford tableau each (cached; filled in the parent before forking)"""
    if n not in _FULL:
        _FULL[n] = f_stab.all_stabilizer_states(n, full=True)
    return _FULL[n]


# ------------------------------------------------------------------ building real objects from JSON
def _mk_noise(spec):
    import graphiq.noise.noise_models as nm

    k = spec[0]
    if k == "none":
        return nm.NoNoise()
    if k == "dep":
        nz = nm.DepolarizingNoise(spec[1])
    elif k == "pauli":
        nz = nm.PauliError(spec[1])
    elif k == "loss":
        nz = nm.PhotonLoss(spec[1])
    else:
        raise ValueError(spec)
    nz.noise_parameters["After gate"] = bool(spec[2])
    return nz


def _gate_class(name):
    import graphiq.circuit.ops as ops

    return getattr(ops, _INV_CLASS1[name])


def _mk_circuit(cj, with_noise=True, handles=None):
    """real CircuitDAG from the JSON description; with_noise=False builds the same gates with default (no) noise;
    handles: a list that receives (noise spec, noise model object) for every noise object created"""
    import graphiq.circuit.ops as ops
    from graphiq.circuit.circuit_dag import CircuitDAG

    def mkn(spec):
        obj = _mk_noise(spec)
        if handles is not None:
            handles.append((spec, obj))
        return obj

    c = CircuitDAG(n_emitter=cj["ne"], n_photon=cj["np"], n_classical=cj.get("nc", 0))
    for op in cj["ops"]:
        k = op[0]
        if k == "g":
            _, name, rt, r, ns = op
            kw = {"noise": mkn(ns)} if with_noise else {}
            c.add(_gate_class(name)(register=r, reg_type=rt, **kw))
        elif k == "w":
            _, names, rt, r, nss = op
            kw = {"noise": [mkn(s) for s in nss]} if with_noise else {}
            c.add(ops.OneQubitGateWrapper([_gate_class(g) for g in names], register=r, reg_type=rt, **kw))
        elif k in ("cx", "cz"):
            _, ct, cq, tt, tq, nss = op
            kw = {"noise": [mkn(nss[0]), mkn(nss[1])]} if with_noise else {}
            cls = ops.CNOT if k == "cx" else ops.CZ
            c.add(cls(control=cq, control_type=ct, target=tq, target_type=tt, **kw))
        elif k == "w1":  # wrapper built with ONE noise object (not a list): the noise sits before / after the whole body
            _, names, rt, r, ns = op
            kw = {"noise": mkn(ns)} if with_noise else {}
            c.add(ops.OneQubitGateWrapper([_gate_class(g) for g in names], register=r, reg_type=rt, **kw))
        elif k in ("cx1", "cz1"):  # controlled gate built with ONE noise object: it acts on control and on target
            _, ct, cq, tt, tq, ns = op
            kw = {"noise": mkn(ns)} if with_noise else {}
            cls = ops.CNOT if k == "cx1" else ops.CZ
            c.add(cls(control=cq, control_type=ct, target=tq, target_type=tt, **kw))
        elif k in ("mcr", "ccx", "ccz"):
            _, ct, cq, tt, tq, creg = op
            cls = {"mcr": ops.MeasurementCNOTandReset, "ccx": ops.ClassicalCNOT, "ccz": ops.ClassicalCZ}[k]
            c.add(cls(control=cq, control_type=ct, target=tq, target_type=tt, c_register=creg))
        elif k == "mz":
            _, rt, r, creg = op
            c.add(ops.MeasurementZ(register=r, reg_type=rt, c_register=creg))
        else:
            raise ValueError(op)
    return c


def _compile(circuit, backend, noise_on):
    from graphiq.backends.density_matrix.compiler import DensityMatrixCompiler
    from graphiq.backends.stabilizer.compiler import StabilizerCompiler

    comp = DensityMatrixCompiler() if backend == "dm" else StabilizerCompiler()
    comp.noise_simulation = noise_on
    comp.measurement_determinism = 1
    import contextlib
    import io

    with contextlib.redirect_stdout(io.StringIO()):  # StabilizerCompiler prints measurement outcomes
        return comp.compile(circuit)


def _dm_of(state):
    from graphiq.backends.density_matrix.state import DensityMatrix

    r = state.rep_data
    if not isinstance(r, DensityMatrix):
        return f"dm backend returned {type(r).__name__}"
    return np.asarray(r.data)


def _mixture_of(state, n):
    """[(p_i, (x, z, r))] of the stabilizer-backend result (pure Stabilizer = one branch of weight 1)"""
    from graphiq.backends.stabilizer.state import MixedStabilizer, Stabilizer

    r = state.rep_data
    if isinstance(r, MixedStabilizer):
        tabs = list(r.mixture)
    elif isinstance(r, Stabilizer):
        tabs = [(1.0, r.data)]
    else:
        return f"stabilizer backend returned {type(r).__name__}"
    out = []
    for p, t in tabs:
        if not core.clifford_valid(np.array(t.table), n):
            return "a branch tableau is not a valid Clifford tableau"
        out.append((float(p), (np.array(t.stabilizer_x), np.array(t.stabilizer_z), np.array(t.phase)[n:])))
    return out


def _n(cj):
    return cj["np"] + cj["ne"]


def _canon(cj):
    """the same noisy circuit with the single-noise-object construction variants written in the list form the oracle reads:
    wrapper [g1..gk] with one noise object N  =  N after the whole body (listed [I, g1..gk], noise on I) or before it
    (listed [g1..gk, I]);  controlled gate with one noise object N  =  [N, N]"""
    out = []
    for op in cj["ops"]:
        if op[0] == "w1":
            _, names, rt, r, ns = op
            k = len(names)
            if ns[0] == "none":
                out.append(["w", list(names), rt, r, [["none"]] * k])
            elif rn.is_after(ns):
                out.append(["w", ["I"] + list(names), rt, r, [ns] + [["none"]] * k])
            else:
                out.append(["w", list(names) + ["I"], rt, r, [["none"]] * k + [ns]])
        elif op[0] in ("cx1", "cz1"):
            out.append([op[0][:2]] + list(op[1:5]) + [[op[5], op[5]]])
        else:
            out.append(op)
    return dict(cj, ops=out)


def _noise_slots(cj):
    for op in _canon(cj)["ops"]:
        if op[0] == "g":
            yield op[4]
        elif op[0] == "w":
            yield from op[4]
        elif op[0] in ("cx", "cz"):
            yield from op[5]


def _expected_trace(cj):
    s = 1.0
    for ns in _noise_slots(cj):
        s *= rn.survival(ns)
    return s


def _targets(n):
    """explicit pure stabilizer targets: all for n<=2, every 27th of the 1080 for n=3, tensor products of 3- and 1-qubit /
    2- and 2-qubit stabilizer states for n=4 (the full matrices are compared as well, which covers every target)"""
    if n <= 2:
        return [v for v, _ in dmref.stab_states(n)]
    if n == 3:
        st = dmref.stab_states(3)
        return [st[k][0] for k in range(0, len(st), 27)]
    s1, s2, s3 = dmref.stab_states(1), dmref.stab_states(2), dmref.stab_states(3)
    out = [np.kron(s3[k][0], s1[k % 6][0]) for k in range(0, 1080, 54)]
    out += [np.kron(s2[i][0], s2[(7 * i + 3) % 60][0]) for i in range(0, 60, 3)]
    return out


# ------------------------------------------------------------------ channel level: <Model>.apply
def _state_for_apply(backend, sspec):
    from graphiq.backends.stabilizer.clifford_tableau import CliffordTableau
    from graphiq.state import QuantumState

    if backend == "dm":
        rho, A, n = dmref.build(sspec)
        return QuantumState(rho.copy(), rep_type="dm", mixed=True), rho, n
    n, branches = sspec
    full = _full(n)
    mix, rho = [], 0
    for w, k in branches:
        t, p = f_stab.full_rows_to_table(full[k][2])
        mix.append((float(w), CliffordTableau(t, p)))
        rho = rho + w * core.dm(full[k][0])
    return QuantumState(mix, rep_type="s", mixed=True), rho, n


def _apply_case(inp):
    nspec, backend, sspec, regs = inp
    state, rho, n = _state_for_apply(backend, sspec)
    model = _mk_noise(nspec)
    model.apply(state, n, list(regs))
    if nspec[0] == "dep":
        want = rn.depolarize(rho, n, list(regs), nspec[1])
    elif nspec[0] == "pauli":
        want = rn.pauli_error(rho, n, regs[0], nspec[1])
    else:
        want = rn.photon_loss(rho, nspec[1])
    if backend == "dm":
        got = _dm_of(state)
    else:
        mix = _mixture_of(state, n)
        if isinstance(mix, str):
            return mix
        if any(p < -1e-15 for p, _ in mix):
            return "negative branch weight"
        w = sum(p for p, _ in mix)
        if abs(w - float(np.real(np.trace(want)))) > TOL:
            return f"total weight {w!r}, expected {float(np.real(np.trace(want)))!r}"
        got = f_stab.mixture_dm(mix) if mix else np.zeros_like(want)
    if isinstance(got, str):
        return got
    if not np.allclose(got, want, atol=TOL, rtol=0):
        return (f"{nspec} on qubits {regs}: result differs from the channel (max dev {np.max(np.abs(got - want)):.3e}, "
                f"trace {np.real(np.trace(got)):.6f} vs {np.real(np.trace(want)):.6f})")
    if rn.min_eig(got) < -TOL:
        return f"result not positive semidefinite (min eigenvalue {rn.min_eig(got):.3e})"
    return None


for _m, _cls in (("dep", "DepolarizingNoise"), ("pauli", "PauliError"), ("loss", "PhotonLoss")):
    for _b in ("dm", "stabilizer_mixture"):
        S.item(f"{_cls}.apply.{_b}", site=f"graphiq.noise.noise_models:{_cls}.apply",
               bound="fixed list, seed-independent (touches known finding C06-F1): X|Y|Z on four explicit stabilizer mixtures n<=2"
               if (_m, _b) == ("pauli", "stabilizer_mixture") else
               ("random mixed/pure complex density matrices n<=3" if _b == "dm" else
                "mixtures of 1-3 stabilizer states n<=3 (complete Clifford tableaux, signs included)")
               + "; every register (and every ordered register pair for depolarizing); strengths {0, 1/4, 1/2, 3/4, 1} + random",
               clause=f"supported noise model {_cls}: acts as its channel, keeps the result PSD, scales the trace by the survival probability")(_apply_case)


# ------------------------------------------------------------------ compile level
def _compile_dm_checked(cj, noise_on=True):
    c = _mk_circuit(cj)
    st = _compile(c, "dm", noise_on)
    return _dm_of(st), c, st


def _physical(inp):
    cj = inp
    n = _n(cj)
    rho, c, st = _compile_dm_checked(cj)
    if isinstance(rho, str):
        return rho
    if rho.shape != (2**n, 2**n):
        return f"shape {rho.shape}"
    if not np.allclose(rho, rho.conj().T, atol=1e-12, rtol=0):
        return "density-matrix result is not Hermitian"
    me = rn.min_eig(rho)
    if me < -TOL:
        return f"density-matrix result not PSD: min eigenvalue {me:.3e}"
    tr = float(np.real(np.trace(rho)))
    want = _expected_trace(cj)
    if abs(tr - want) > TOL:
        return f"trace {tr!r}, product of survival probabilities {want!r}"
    return None


def _agreement(inp):
    cj = inp
    n = _n(cj)
    rho, c, st = _compile_dm_checked(cj)
    if isinstance(rho, str):
        return rho
    ss = _compile(_mk_circuit(cj), "stabilizer", True)
    mix = _mixture_of(ss, n)
    if isinstance(mix, str):
        return mix
    if any(p < -1e-15 for p, _ in mix):
        return "negative branch weight in the stabilizer mixture"
    w = sum(p for p, _ in mix)
    tr = float(np.real(np.trace(rho)))
    if abs(w - tr) > TOL:
        return f"stabilizer mixture weight {w!r} != density-matrix trace {tr!r}"
    vecs = [(p, core.stabilizer_state(x, z, r)) for p, (x, z, r) in mix]
    for tau in _targets(n):
        fs = sum(p * abs(np.vdot(tau, v)) ** 2 for p, v in vecs)
        fd = float(np.real(np.vdot(tau, rho @ tau)))
        if abs(fs - fd) > TOL:
            return f"fidelity with stabilizer target {np.round(tau, 3).tolist()}: mixture {fs!r}, density matrix {fd!r}"
    rs = f_stab.mixture_dm(mix) if mix else np.zeros_like(rho)
    if not np.allclose(rs, rho, atol=TOL, rtol=0):
        return f"mixture and density matrix differ (max dev {np.max(np.abs(rs - rho)):.3e})"
    return None


def _oracle(inp):
    cj = inp
    c = _mk_circuit(cj)
    before = [(op, op.noise, list(op.noise) if isinstance(op.noise, list) else None) for op in c.sequence()]
    st = _compile(c, "dm", True)
    rho = _dm_of(st)
    if isinstance(rho, str):
        return rho
    want, surv = rn.run_noisy(cj["np"], cj["ne"], _canon(cj)["ops"])
    if not np.allclose(rho, want, atol=TOL, rtol=0):
        return (f"result differs from gate/noise sequence with each noise placed as its 'After gate' flag says "
                f"(max dev {np.max(np.abs(rho - want)):.3e}, trace {np.real(np.trace(rho)):.6f} vs {surv:.6f})")
    for op, nz, lst in before:
        if op.noise is not nz:
            return f"{type(op).__name__}.noise is a different object after compile"
        if lst is not None and (len(op.noise) != len(lst) or any(a is not b for a, b in zip(op.noise, lst))):
            return f"{type(op).__name__}.noise list contents changed during compile"
    # compiling the same circuit object again gives the same state
    rho2 = _dm_of(_compile(c, "dm", True))
    if not np.array_equal(rho, rho2):
        return "compiling the same noisy circuit a second time gives a different state"
    return None


_AVOID = " [seeded inputs are restricted by construction to classes that cannot touch a known finding: no Pauli error on the " \
         "stabilizer backend (F1), uniform placement on controlled gates (F2), no loss of rate exactly 1 (F3), no ClassicalCNOT/CZ with " \
         "noise simulation on the stabilizer backend (F4), Pauli errors never on mixed-type wrappers via assign_noise (F5), no loss / " \
         "depolarizing executed before a measuring operation (F6, F7)]"
_UNI = "unitary circuits (H,P,P^dag,X,Y,Z,I, wrappers, CNOT, CZ between any registers), n<=3 (thorough n<=4): all one-op and " \
       "structured two-op circuits on 1 emitter + 1 photon x noise in {Dep(0,1/4,1), Loss(0,1/2,1)} x {before, after}, plus " \
       "seeded random circuits of 3-8 ops with random strengths in [0,1]"
S.item("compile.dm.physical.uniform_placement", site="graphiq.backends.compiler_base:CompilerBase.compile",
       bound=_UNI + " and Pauli errors; controlled gates carry the same placement on control and target" + _AVOID,
       clause="the density-matrix result is PSD with trace = product of the photon survival probabilities")(_physical)
S.item("compile.dm.physical.split_placement", site="graphiq.backends.compiler_base:CompilerBase.compile",
       bound="fixed sample, seed-independent (touches known finding C06-F2): 18 evenly spaced of the structured 1 emitter + 1 photon "
             "circuits with a controlled gate whose control and target noise have different placements and a photon loss in the 'after' slot",
       clause="the density-matrix result is PSD with trace = product of the photon survival probabilities")(_physical)
S.item("compile.backend_agreement.dep_loss", site="graphiq.backends.compiler_base:CompilerBase.compile",
       bound=_UNI + " (no Pauli errors); targets: all stabilizer states n<=2, every 27th of the 1080 for n=3, and the full matrices" + _AVOID,
       clause="the mixed-stabilizer result has the same total weight and the same fidelity with any pure stabilizer target")(_agreement)
S.item("compile.backend_agreement.total_loss", site="graphiq.noise.noise_models:DepolarizingNoise.apply",
       bound="fixed sample, seed-independent (touches known finding C06-F3): 18 evenly spaced structured circuits whose last "
             "controlled gate carries two noises one of which is a photon loss of rate exactly 1",
       clause="the mixed-stabilizer result has the same total weight and the same fidelity with any pure stabilizer target "
              "(any strength in [0,1])")(_agreement)
S.item("compile.backend_agreement.pauli_error", site="graphiq.noise.noise_models:PauliError.apply",
       bound="fixed sample, seed-independent (touches known finding C06-F1): 15 evenly spaced structured circuits on 1 emitter + "
             "1 photon with a Pauli error X|Y|Z on one gate, before or after",
       clause="the mixed-stabilizer result has the same total weight and the same fidelity with any pure stabilizer target")(_agreement)
S.item("compile.dm.placement_oracle.uniform_placement", site="graphiq.backends.compiler_base:CompilerBase.compile",
       bound=_UNI + " and Pauli errors; same placement on control and target of a controlled gate" + _AVOID,
       clause="noise models placed before or after a gate: the result is the gate sequence with each channel at its place; "
              "op.noise is restored; recompiling reproduces the state")(_oracle)
S.item("compile.dm.placement_oracle.split_placement", site="graphiq.backends.compiler_base:CompilerBase.compile",
       bound="fixed sample, seed-independent (touches known finding C06-F2): 18 evenly spaced structured circuits with a controlled "
             "gate whose control noise and target noise have different placements, both non-trivial",
       clause="noise models placed before or after a gate (control before / target after and vice versa)")(_oracle)


# ------------------------------------------------------------------ repeated use (one circuit object / one compiler instance) and argument frames
def _noise_objects(c):
    """[(op, noise object or list, [(noise model, repr of its parameters)])] of the real circuit's operations"""
    out = []
    for op in c.sequence():
        lst = list(op.noise) if isinstance(op.noise, list) else [op.noise]
        out.append((op, op.noise, [(x, repr(sorted(getattr(x, "noise_parameters", {}).items(), key=str))) for x in lst]))
    return out


def _noise_frame(before, where):
    for op, nz, lst in before:
        if op.noise is not nz:
            return f"{where}: {type(op).__name__}.noise is a different object"
        now = list(op.noise) if isinstance(op.noise, list) else [op.noise]
        if len(now) != len(lst) or any(a is not b for a, (b, _) in zip(now, lst)):
            return f"{where}: {type(op).__name__}.noise list contents changed"
        for x, rep in lst:
            if repr(sorted(getattr(x, "noise_parameters", {}).items(), key=str)) != rep:
                return f"{where}: parameters of a {type(x).__name__} changed: {rep} -> {sorted(x.noise_parameters.items(), key=str)}"
    return None


def _against_oracle(state, backend, n, want, where, exact_pure=False):
    """the compiled state of either backend equals the oracle matrix `want` (weight = trace included)"""
    if backend == "dm":
        rho = _dm_of(state)
        if isinstance(rho, str):
            return f"{where}: {rho}"
        if rho.shape != want.shape or not np.allclose(rho, want, atol=1e-12 if exact_pure else TOL, rtol=0):
            return (f"{where}: density matrix differs from the gate/noise sequence (max dev {np.max(np.abs(rho - want)):.3e}, "
                    f"trace {np.real(np.trace(rho)):.6f} vs {np.real(np.trace(want)):.6f})")
        if rn.min_eig(rho) < -TOL:
            return f"{where}: density matrix not PSD (min eigenvalue {rn.min_eig(rho):.3e})"
        return None
    mix = _mixture_of(state, n)
    if isinstance(mix, str):
        return f"{where}: {mix}"
    if any(p < -1e-15 for p, _ in mix):
        return f"{where}: negative branch weight"
    w = sum(p for p, _ in mix)
    if abs(w - float(np.real(np.trace(want)))) > TOL:
        return f"{where}: stabilizer mixture weight {w!r} != product of survival probabilities {float(np.real(np.trace(want)))!r}"
    rs = f_stab.mixture_dm(mix) if mix else np.zeros_like(want)
    if not np.allclose(rs, want, atol=TOL, rtol=0):
        return f"{where}: stabilizer mixture differs from the gate/noise sequence (max dev {np.max(np.abs(rs - want)):.3e})"
    return None


def _new_compilers():
    from graphiq.backends.density_matrix.compiler import DensityMatrixCompiler
    from graphiq.backends.stabilizer.compiler import StabilizerCompiler

    out = {"dm": DensityMatrixCompiler(), "s": StabilizerCompiler()}
    for c in out.values():
        c.measurement_determinism = 1
    return out


def _compile_with(comp, circuit, noise_on):
    import contextlib
    import io

    comp.noise_simulation = noise_on
    with contextlib.redirect_stdout(io.StringIO()):
        return comp.compile(circuit)


_PLANS = [["dm", "s", "dm"], ["s", "dm", "s"], ["dm", "dm_off", "dm", "s_off", "s"], ["s", "s", "dm_off", "dm", "dm"], ["dm_off", "s_off", "dm", "s", "dm_off"]]


def _same_circuit_case(inp):
    """inp = [circuit JSON, plan index]: ONE noisy circuit object is compiled several times, alternating the backends and
    switching noise simulation off and on, by ONE compiler instance per backend; every result equals the oracle (noise on: the
    gate/noise sequence; noise off: the noiseless state), and the circuit's noise objects are the same objects with the same
    parameters after every compilation; finally the strengths are changed on the noise objects and both backends are asked again"""
    cj, pk = inp
    n = _n(cj)
    handles = []
    c = _mk_circuit(cj, handles=handles)
    ops_c = _canon(cj)["ops"]
    want_on, _ = rn.run_noisy(cj["np"], cj["ne"], ops_c)
    want_off, _ = rn.run_noisy(cj["np"], cj["ne"], ops_c, noise_on=False)
    before = _noise_objects(c)
    comps = _new_compilers()
    for k, step in enumerate(_PLANS[pk]):
        backend, on = step.split("_")[0], not step.endswith("_off")
        where = f"compilation #{k} ({step}) of the same circuit object in plan {_PLANS[pk]}"
        st = _compile_with(comps[backend], c, on)
        m = _against_oracle(st, backend, n, want_on if on else want_off, where, exact_pure=not on)
        if m:
            return m
        m = _noise_frame(before, "after " + where)
        if m:
            return m
    # query - edit - query: the strengths of the attached noise models are changed on the objects themselves (a strength sweep);
    # the next compilation of the same circuit object is the noisy state for the strengths the models hold NOW
    for spec, obj in handles:
        new = _restrength_spec(spec)
        if spec[0] == "dep":
            obj.noise_parameters["Depolarizing probability"] = new[1]
        elif spec[0] == "loss":
            obj.noise_parameters["loss rate"] = new[1]
    cj2 = _restrength(cj)
    want2, _ = rn.run_noisy(cj["np"], cj["ne"], _canon(cj2)["ops"])
    for backend in ("dm", "s"):
        m = _against_oracle(_compile_with(comps[backend], c, True), backend, n, want2,
                            f"after changing the strengths of the attached noise models ({backend}, instance used before)")
        if m:
            return m
    return None


def _restrength_spec(ns):
    return [ns[0], round(0.5 * ns[1] + (0.2 if ns[0] == "dep" else 0.1), 6), ns[2]] if ns[0] in ("dep", "loss") else ns


def _restrength(cj):
    out = []
    for op in cj["ops"]:
        k = op[0]
        if k in ("g", "w1", "cx1", "cz1"):
            out.append(op[:-1] + [_restrength_spec(op[-1])])
        elif k in ("w", "cx", "cz"):
            out.append(op[:-1] + [[_restrength_spec(x) for x in op[-1]]])
        else:
            out.append(op)
    return dict(cj, ops=out)


def _same_compiler_case(inp):
    """inp = [circuit JSON, ...]: ONE compiler instance per backend compiles the noisy circuits one after the other (different
    register splits with equal totals, different sizes); each result equals the oracle of the circuit compiled"""
    comps = _new_compilers()
    for k, cj in enumerate(inp):
        n = _n(cj)
        want, _ = rn.run_noisy(cj["np"], cj["ne"], _canon(cj)["ops"])
        for backend in ("dm", "s"):
            where = f"circuit #{k} ({cj['ne']}e,{cj['np']}p) of the sequence, {backend} instance used for all of them"
            m = _against_oracle(_compile_with(comps[backend], _mk_circuit(cj), True), backend, n, want, where)
            if m:
                return m
    return None


def _assign_twice_case(inp):
    """inp = [noise-free circuit JSON, map 1, map 2]: assign_noise(map 1) twice with the same map object, then assign_noise(map 2)
    on the same original; every derived circuit realises its map (oracle), also when compiled again after the later
    derivations; the original still compiles (noise simulation on) to the noiseless state; the noise models of map 1 are
    unchanged"""
    cj, mj1, mj2 = inp
    n = _n(cj)
    base = _mk_circuit(cj, with_noise=False)
    m1, m2 = _mk_map(mj1), _mk_map(mj2)

    def params(m):
        return [[key, name, [(id(x), repr(sorted(x.noise_parameters.items(), key=str))) for x in (v if isinstance(v, list) else [v])]]
                for key, d in sorted(m.items()) for name, v in sorted(d.items())]

    p1 = params(m1)
    want1, _ = rn.run_noisy(cj["np"], cj["ne"], _apply_map(cj, mj1)["ops"])
    want2, _ = rn.run_noisy(cj["np"], cj["ne"], _apply_map(cj, mj2)["ops"])
    want0, _ = rn.run_noisy(cj["np"], cj["ne"], _apply_map(cj, {})["ops"], noise_on=False)
    a = base.assign_noise(m1)
    b = base.assign_noise(m1)
    comps = _new_compilers()
    for label, circ, want in (("first assign_noise(map 1)", a, want1), ("second assign_noise(map 1)", b, want1)):
        for backend in ("dm", "s"):
            m = _against_oracle(_compile_with(comps[backend], circ, True), backend, n, want, f"{label}, {backend}")
            if m:
                return m
    c2 = base.assign_noise(m2)
    for label, circ, want in (("assign_noise(map 2) after two assignments of map 1", c2, want2), ("first noisy copy, compiled again after the later assignments", a, want1)):
        for backend in ("dm", "s"):
            m = _against_oracle(_compile_with(comps[backend], circ, True), backend, n, want, f"{label}, {backend}")
            if m:
                return m
    for backend in ("dm", "s"):
        m = _against_oracle(_compile_with(comps[backend], base, True), backend, n, want0, f"the noise-free original after three assign_noise calls, {backend}, noise simulation on", exact_pure=True)
        if m:
            return m
    if params(m1) != p1:
        return f"assign_noise / compile changed the caller's noise map: {p1} -> {params(m1)}"
    return None


def _one_map_case(inp):
    """inp = [[noise-free circuit JSON, ...], map]: ONE noise map object (the same noise model objects) is assigned to several
    circuits of different sizes / register splits, as a solver does with its noise model mapping; every noisy circuit realises
    the map on both backends, compiled in the order of derivation and once more in reverse order"""
    cjs, mj = inp
    m = _mk_map(mj)
    comps = _new_compilers()
    noisy = [(cj, _mk_circuit(cj, with_noise=False).assign_noise(m)) for cj in cjs]
    for rnd, lst in (("first round", noisy), ("second round, reverse order", noisy[::-1])):
        for cj, circ in lst:
            want, _ = rn.run_noisy(cj["np"], cj["ne"], _apply_map(cj, mj)["ops"])
            for backend in ("dm", "s"):
                r = _against_oracle(_compile_with(comps[backend], circ, True), backend, _n(cj), want,
                                    f"{rnd}, circuit ({cj['ne']}e,{cj['np']}p) of {[(c['ne'], c['np']) for c in cjs]} sharing one noise map, {backend}")
                if r:
                    return r
    return None


_REUSE_DOM = ("unitary circuits n<=4 with Depolarizing / PhotonLoss / PauliError noise of any placement (split placement on controlled gates "
              "included), wrappers built with a noise LIST or with ONE noise object, controlled gates built with a [control, target] "
              "list or with ONE noise object: structured circuits on 1 emitter + 1 photon and seeded random circuits of 3-8 ops")
S.item("compile.same_circuit_object.alternating_backends", site="graphiq.backends.compiler_base:CompilerBase.compile",
       bound=_REUSE_DOM + "; 5 plans of 3-5 compilations of the same object (dm / stabilizer mixture, noise simulation on / off), one compiler instance per backend; "
             "then every Dep / Loss strength p is changed to p/2 + 0.2 / p/2 + 0.1 on the attached objects and both backends compile again",
       clause="for every circuit and noise assignment both results are the noisy state (same weight, same matrix); switched off reproduces the "
              "noiseless state exactly - also for a circuit object that was compiled before; the attached noise models are not changed")(_same_circuit_case)
S.item("compile.same_compiler_instance.sequence", site="graphiq.backends.compiler_base:CompilerBase.compile",
       bound=_REUSE_DOM + "; sequences of 3-4 circuits whose consecutive members have equal totals and different emitter/photon splits with "
             "probability 1/2 (+ the chains of all splits of 2, 3 and 4 qubits of a signature circuit), one compiler instance per backend for the whole sequence",
       clause="for every circuit and noise assignment both results are the noisy state - also when the compiler object compiled other circuits before")(_same_compiler_case)
S.item("compile.construction_variants.oracle", site="graphiq.circuit.ops:OneQubitGateWrapper.unwrap ; graphiq.backends.compiler_base:CompilerBase.compile",
       bound=_REUSE_DOM + "; all structured circuits [H e0, CNOT e0->p0, X] with X a one-noise-object wrapper (3 bodies x e/p x 18 noise "
             "specs) or a one-noise-object CNOT/CZ (2 directions x 18 specs); + 12 (thorough 36) random circuits on 5 qubits with >= 3 emitters; dm backend",
       clause="noise models placed before or after a gate: a wrapper / controlled gate given ONE noise object carries it before / after the "
              "whole wrapper / on control and target")(_oracle)
S.item("compile.construction_variants.agreement", site="graphiq.backends.compiler_base:CompilerBase.compile",
       bound="the same circuits as compile.construction_variants.oracle",
       clause="the mixed-stabilizer result has the same total weight and the same fidelity with any pure stabilizer target")(_agreement)
S.item("assign_noise.twice_same_original", site="graphiq.circuit.circuit_dag:CircuitDAG.assign_noise,_noisy_gates",
       bound="seeded random unitary circuits n<=3 x two random maps -> {Dep, Loss, Pauli} (single model or [control, target] pair, uniform "
             "placement per controlled gate); both backends",
       clause="every map from (register type, gate type) to a noise model is realised - on every call; an assignment does not disturb earlier "
              "noisy copies, the original or the map")(_assign_twice_case)
S.item("assign_noise.one_map_many_circuits", site="graphiq.circuit.circuit_dag:CircuitDAG.assign_noise,_noisy_gates ; graphiq.noise.noise_models:*.apply",
       bound="seeded: one random map -> {Dep, Loss, Pauli} assigned to 3 random unitary circuits of 1..4 qubits (consecutive ones: equal totals and "
             "different splits with probability 1/2); all compiled by one compiler instance per backend, twice",
       clause="every map from (register type, gate type) to a noise model is realised - for every circuit the same map (the same noise "
              "model objects) is given to")(_one_map_case)


# ------------------------------------------------------------------ switchability
def _noiseless_pair(cj):
    """(dm matrix, stabilizer tableau) of the same gates without any noise, noise simulation off"""
    c0 = _mk_circuit(cj, with_noise=False)
    d0 = _dm_of(_compile(c0, "dm", False))
    s0 = _compile(_mk_circuit(cj, with_noise=False), "stabilizer", False)
    return d0, s0


def _same_as_noiseless(cj, circuit_factory, noise_on, label):
    from graphiq.backends.stabilizer.state import MixedStabilizer, Stabilizer

    n = _n(cj)
    d0, s0 = _noiseless_pair(cj)
    want, _ = rn.run_noisy(cj["np"], cj["ne"], [op for op in cj["ops"] if op[0] in ("g", "w", "cx", "cz")], noise_on=False) \
        if all(op[0] in ("g", "w", "cx", "cz") for op in cj["ops"]) else (None, None)
    d1 = _dm_of(_compile(circuit_factory(), "dm", noise_on))
    if isinstance(d1, str):
        return d1
    # "exactly" up to floating point: a zero-strength channel still multiplies by 1.0 / adds 0.0 * (...) terms, which can
    # leave denormal-size residues (8.6e-50 observed); the tableau and the branch weight below are compared exactly
    if d1.shape != d0.shape or not np.allclose(d1, d0, atol=1e-12, rtol=0):
        return f"{label}: density matrix differs from the noiseless one (max dev {np.max(np.abs(d1 - d0)):.3e})"
    if want is not None and not np.allclose(d1, want, atol=1e-12, rtol=0):
        return f"{label}: density matrix differs from the textbook noiseless state"
    s1 = _compile(circuit_factory(), "stabilizer", noise_on)
    r1 = s1.rep_data
    if isinstance(r1, MixedStabilizer):
        if len(r1.mixture) != 1:
            return f"{label}: stabilizer mixture has {len(r1.mixture)} branches, expected one"
        p, t = r1.mixture[0]
        if p != 1.0:
            return f"{label}: branch weight {p!r}, expected exactly 1.0"
    elif isinstance(r1, Stabilizer):
        t = r1.data
    else:
        return f"{label}: stabilizer backend returned {type(r1).__name__}"
    t0 = s0.rep_data.data
    if not (np.array_equal(t.table, t0.table) and np.array_equal(t.phase, t0.phase)):
        return f"{label}: stabilizer tableau differs from the noiseless one"
    return None


@S.item("compile.switched_off", site="graphiq.backends.compiler_base:CompilerBase.compile",
        bound="the noisy circuits of the physical/agreement items (incl. Pauli errors, split placement and measured circuits), "
              "noise_simulation=False, both backends",
        clause="noise simulation switched off reproduces the noiseless state exactly")
def switched_off(inp):
    cj = inp
    return _same_as_noiseless(cj, lambda: _mk_circuit(cj), False, "noise_simulation=False")


def zero_strength(inp):
    cj = inp
    return _same_as_noiseless(cj, lambda: _mk_circuit(cj), True, "zero strength")


S.item("compile.zero_strength", site="graphiq.backends.compiler_base:CompilerBase.compile",
       bound="structured and random circuits (also with MeasurementZ / MeasurementCNOTandReset) in which every noise slot is "
             "Depolarizing(0) or PhotonLoss(0), before or after; noise_simulation=True, both backends",
       clause="noise of zero strength reproduces the noiseless state exactly")(zero_strength)
S.item("compile.zero_strength.classical_controlled", site="graphiq.backends.stabilizer.compiler:StabilizerCompiler.compile_one_gate",
       bound="fixed sample, seed-independent (touches known finding C06-F4): 16 structured zero-strength circuits that contain a "
             "ClassicalCNOT or ClassicalCZ",
       clause="noise of zero strength reproduces the noiseless state exactly")(zero_strength)


def _mk_map(mj):
    return {k: {name: ([_mk_noise(s) for s in spec] if isinstance(spec[0], list) else _mk_noise(spec)) for name, spec in v.items()}
            for k, v in mj.items()}


_EMPTY_MAP = {"e": {}, "p": {}, "ee": {}, "ep": {}, "pe": {}, "pp": {}}


def empty_map(inp):
    import graphiq.noise.noise_models as nm

    cj = inp

    def by_assign():
        c = _mk_circuit(cj, with_noise=False).assign_noise(_mk_map(_EMPTY_MAP))
        for op in c.sequence(unwrapped=True):
            ns = op.noise if isinstance(op.noise, list) else [op.noise]
            if not all(isinstance(x, nm.NoNoise) for x in ns):
                raise AssertionError(f"assign_noise with an empty map attached {ns} to {type(op).__name__}")
        return c

    r = _same_as_noiseless(cj, by_assign, True, "assign_noise(empty map)")
    if r:
        return r
    return _same_as_noiseless(cj, lambda: _mk_circuit_via_solver_helpers(cj, {}), True, "_identify_noise/_wrap_noise(empty map)")


S.item("compile.empty_noise_map", site="graphiq.circuit.circuit_dag:CircuitDAG.assign_noise",
       bound="structured and random circuits (also with MeasurementZ / MeasurementCNOTandReset): circuit.assign_noise(map with no "
             "entries), and the same gates built with SolverBase._identify_noise/_wrap_noise(op, {}); noise_simulation=True, both backends",
       clause="an empty noise map reproduces the noiseless state exactly")(empty_map)
S.item("compile.empty_noise_map.classical_controlled", site="graphiq.backends.stabilizer.compiler:StabilizerCompiler.compile_one_gate",
       bound="fixed sample, seed-independent (touches known finding C06-F4): the same 16 structured circuits that contain a "
             "ClassicalCNOT or ClassicalCZ",
       clause="an empty noise map reproduces the noiseless state exactly")(empty_map)


def _mk_circuit_via_solver_helpers(cj, mapping):
    """the circuit with every op's noise obtained from SolverBase._identify_noise / _wrap_noise, as the solvers do"""
    import graphiq.circuit.ops as ops
    from graphiq.circuit.circuit_dag import CircuitDAG
    from graphiq.solvers.solver_base import SolverBase

    stub = object.__new__(type("_SolverStub", (SolverBase,), {"solve": lambda self, *a: None}))  # helpers use no state
    ident = lambda cls, key: stub._identify_noise(cls, mapping.get(key, {}))  # noqa: E731
    wrap = lambda classes, key: stub._wrap_noise(classes, mapping.get(key, {}))  # noqa: E731
    c = CircuitDAG(n_emitter=cj["ne"], n_photon=cj["np"], n_classical=cj.get("nc", 0))
    for op in cj["ops"]:
        k = op[0]
        if k == "g":
            cls = _gate_class(op[1])
            c.add(cls(register=op[3], reg_type=op[2], noise=ident(cls, op[2])))
        elif k == "w":
            classes = [_gate_class(g) for g in op[1]]
            c.add(ops.OneQubitGateWrapper(classes, register=op[3], reg_type=op[2], noise=wrap(classes, op[2])))
        elif k in ("cx", "cz"):
            cls = ops.CNOT if k == "cx" else ops.CZ
            c.add(cls(control=op[2], control_type=op[1], target=op[4], target_type=op[3], noise=ident(cls, op[1] + op[3])))
        elif k in ("mcr", "ccx", "ccz"):
            cls = {"mcr": ops.MeasurementCNOTandReset, "ccx": ops.ClassicalCNOT, "ccz": ops.ClassicalCZ}[k]
            c.add(cls(control=op[2], control_type=op[1], target=op[4], target_type=op[3], c_register=op[5],
                      noise=ident(cls, op[1] + op[3])))
        elif k == "mz":
            c.add(ops.MeasurementZ(register=op[2], reg_type=op[1], c_register=op[3], noise=ident(ops.MeasurementZ, op[1])))
    return c


# ------------------------------------------------------------------ noise maps
def _map_lookup(mj, key, cname):
    return mj.get(key, {}).get(cname, ["none"])


def _apply_map(cj, mj):
    """the circuit JSON with every noise slot filled from the map (register type, gate type) -> noise spec"""
    out = []
    for op in cj["ops"]:
        k = op[0]
        if k == "g":
            out.append(["g", op[1], op[2], op[3], _map_lookup(mj, op[2], _INV_CLASS1[op[1]])])
        elif k == "w":
            out.append(["w", op[1], op[2], op[3], [_map_lookup(mj, op[2], _INV_CLASS1[g]) for g in op[1]]])
        elif k in ("cx", "cz"):
            spec = _map_lookup(mj, op[1] + op[3], "CNOT" if k == "cx" else "CZ")
            pair = spec if isinstance(spec[0], list) else [spec, spec]
            out.append([k, op[1], op[2], op[3], op[4], pair])
        else:
            out.append(op)
    return dict(cj, ops=out)


def _assign_case(inp):
    cj, mj, what = inp
    n = _n(cj)
    want_cj = _apply_map(cj, mj)
    if what.startswith("assign"):
        c = _mk_circuit(cj, with_noise=False).assign_noise(_mk_map(mj))
    else:
        c = _mk_circuit_via_solver_helpers(cj, _mk_map(mj))
    rho = _dm_of(_compile(c, "dm", True))
    if isinstance(rho, str):
        return rho
    me = rn.min_eig(rho)
    if me < -TOL:
        return f"density-matrix result not PSD: min eigenvalue {me:.3e}"
    tr = float(np.real(np.trace(rho)))
    want_tr = _expected_trace(want_cj)
    if abs(tr - want_tr) > TOL:
        return f"trace {tr!r}, product of survival probabilities under the map {want_tr!r}"
    if what.endswith("oracle"):
        want, _ = rn.run_noisy(cj["np"], cj["ne"], want_cj["ops"])
        if not np.allclose(rho, want, atol=TOL, rtol=0):
            return f"state differs from the circuit with each gate carrying the noise the map gives its (register type, gate type) (max dev {np.max(np.abs(rho - want)):.3e})"
        return None
    if what == "assign.physical_agreement":
        c2 = _mk_circuit(cj, with_noise=False).assign_noise(_mk_map(mj))
    else:
        c2 = _mk_circuit_via_solver_helpers(cj, _mk_map(mj))
    mix = _mixture_of(_compile(c2, "stabilizer", True), n)
    if isinstance(mix, str):
        return mix
    w = sum(p for p, _ in mix)
    if abs(w - tr) > TOL:
        return f"stabilizer mixture weight {w!r} != density-matrix trace {tr!r}"
    rs = f_stab.mixture_dm(mix)
    if not np.allclose(rs, rho, atol=TOL, rtol=0):
        return f"mixture and density matrix differ (max dev {np.max(np.abs(rs - rho)):.3e})"
    return None


S.item("assign_noise.physical_agreement", site="graphiq.circuit.circuit_dag:CircuitDAG.assign_noise,_noisy_gates,_find_wrapped_noise",
       bound="seeded random unitary circuits n<=3 x random maps (register type | control+target type, gate class name) -> "
             "{Dep, Loss} (single model or [control, target] pair), before/after (uniform per controlled gate)",
       clause="every map from (register type, gate type) to a noise model: PSD, trace = product of survival probabilities, "
              "same weight / state on the stabilizer mixture")(_assign_case)
S.item("assign_noise.map_oracle", site="graphiq.circuit.circuit_dag:CircuitDAG.assign_noise,_noisy_gates",
       bound="as above, circuits whose wrappers are single-gate or palindromic in gate type; maps also give Pauli errors; dm backend",
       clause="every map from (register type, gate type) to a noise model is realised gate by gate")(_assign_case)
S.item("assign_noise.map_oracle.wrappers", site="graphiq.circuit.circuit_dag:CircuitDAG._noisy_gates,_find_wrapped_noise",
       bound="fixed sample, seed-independent (touches known finding C06-F5): 24 evenly spaced of the 96 circuits with a wrapper of "
             "two different gate types of which the map gives exactly one a Pauli error",
       clause="every map from (register type, gate type) to a noise model is realised gate by gate")(_assign_case)
S.item("solver_base.noise_helpers", site="graphiq.solvers.solver_base:SolverBase._identify_noise,_wrap_noise",
       bound="seeded random unitary circuits n<=3 x random maps gate class name -> {Dep, Loss, Pauli}; circuits built with the "
             "noise the helpers return; dm oracle",
       clause="every map from (register type, gate type) to a noise model (as the solvers apply it)")(_assign_case)


# ------------------------------------------------------------------ Infidelity on both compiled states
@S.item("Infidelity.evaluate.noisy_states", site="graphiq.metrics:Infidelity.evaluate",
        bound="seeded random unitary circuits n<=3 with depolarizing noise only (trace preserving), each against stabilizer targets "
              "(all 6 for n=1, every 6th of 60 for n=2, every 90th of 1080 for n=3) held as stabilizer for the mixture and as density "
              "matrix for the dm state",
        clause="the same fidelity with any pure stabilizer target (as observed through the Infidelity metric)")
def infidelity_noisy(inp):
    from graphiq.backends.stabilizer.clifford_tableau import CliffordTableau
    from graphiq.metrics import Infidelity
    from graphiq.state import QuantumState

    cj, ks = inp
    n = _n(cj)
    want, _ = rn.run_noisy(cj["np"], cj["ne"], cj["ops"])
    ss = _compile(_mk_circuit(cj), "stabilizer", True)
    ds = _compile(_mk_circuit(cj), "dm", True)
    for k in ks:
        v, rows, full = _full(n)[k]
        fid = float(np.real(np.vdot(v, want @ v)))
        t, p = f_stab.full_rows_to_table(full)
        tq_s = QuantumState(CliffordTableau(t, p), rep_type="s")
        tq_d = QuantumState(core.dm(v), rep_type="dm")
        a = float(Infidelity(tq_s).evaluate(ss, None))
        b = float(Infidelity(tq_d).evaluate(ds, None))
        if abs(a - (1 - fid)) > TOL:
            return f"target #{k}: Infidelity(stabilizer target, mixture)={a!r}, expected {1 - fid!r}"
        if abs(b - (1 - fid)) > 1e-7:
            return f"target #{k}: Infidelity(dm target, dm state)={b!r}, expected {1 - fid!r}"
    return None


# ------------------------------------------------------------------ circuits that also measure
S.item("compile.measured.physical.no_loss_before_measurement", site="graphiq.backends.compiler_base:CompilerBase.compile",
       bound="seeded random circuits n<=3 with MeasurementCNOTandReset / ClassicalCNOT / ClassicalCZ / MeasurementZ "
             "(measurement_determinism=1), noise on the unitary gates only; in the order compile() executes the operations no "
             "photon loss of rate > 0 precedes a measuring operation",
       clause="the density-matrix result is PSD with trace = product of the photon survival probabilities")(_physical)
S.item("compile.measured.physical.loss_before_measurement", site="graphiq.backends.density_matrix.state:DensityMatrix.apply_measurement",
       bound="fixed list, seed-independent (touches known finding C06-F6): the structured emission-pattern circuits in which a "
             "photon loss of rate > 0 is executed before the MeasurementCNOTandReset",
       clause="the density-matrix result is PSD with trace = product of the photon survival probabilities")(_physical)
S.item("compile.measured.agreement.noise_after_measurements", site="graphiq.backends.compiler_base:CompilerBase.compile",
       bound="seeded random circuits n<=3 measuring with MeasurementCNOTandReset / MeasurementZ only; every noise of non-zero "
             "strength (Dep, Loss) is executed after the last measuring operation",
       clause="the mixed-stabilizer result has the same total weight and the same fidelity with any pure stabilizer target")(_agreement)
S.item("compile.measured.agreement.depolarizing_before_measurement", site="graphiq.backends.stabilizer.state:MixedStabilizer.apply_measurement",
       bound="fixed sample, seed-independent (touches known finding C06-F7): structured circuits in which a depolarized emitter "
             "(p in {1/4,3/4,1}, before/after X|H|I) is measured by MeasurementCNOTandReset / MeasurementZ",
       clause="the mixed-stabilizer result has the same total weight and the same fidelity with any pure stabilizer target")(_agreement)
S.item("compile.measured.agreement.classical_controlled", site="graphiq.backends.stabilizer.compiler:StabilizerCompiler.compile_one_gate",
       bound="fixed sample, seed-independent (touches known finding C06-F4): 16 structured circuits with a ClassicalCNOT or "
             "ClassicalCZ, noise executed only after it",
       clause="the mixed-stabilizer result has the same total weight and the same fidelity with any pure stabilizer target")(_agreement)


# ------------------------------------------------------------------ domains
_ONE = ["H", "P", "PD", "X", "Y", "Z", "I"]
_DEP = [["dep", p, a] for p in (0.0, 0.25, 1.0) for a in (0, 1)]
_LOSS = [["loss", p, a] for p in (0.0, 0.5, 1.0) for a in (0, 1)]
_PAULI = [["pauli", p, a] for p in ("X", "Y", "Z") for a in (0, 1)]
_NONE = [["none"]]


def _rand_noise(rng, kinds, after=None):
    k = kinds[int(rng.integers(len(kinds)))]
    a = int(rng.integers(2)) if after is None else after
    if k == "none":
        return ["none"]
    if k == "pauli":
        return ["pauli", "XYZ"[int(rng.integers(3))], a]
    special = [0.0, 0.25, 0.5, 0.75, 1.0]
    p = special[int(rng.integers(5))] if rng.random() < 0.3 else float(np.round(rng.random(), 6))
    return [k, p, a]


def _regs(n_p, n_e):
    return [("p", i) for i in range(n_p)] + [("e", i) for i in range(n_e)]


def _rand_circuit(rng, n_p, n_e, n_ops, kinds, split=False, measured=False, zero=False, cc=True):
    regs = _regs(n_p, n_e)
    ops = []
    nc = 0
    for _ in range(n_ops):
        r = rng.random()
        if measured and r < 0.25 and len(regs) >= 2:
            i, j = rng.choice(len(regs), size=2, replace=False)
            (ct, c), (tt, t) = regs[int(i)], regs[int(j)]
            kind = ["mcr", "ccx", "ccz"][int(rng.integers(3))] if cc else "mcr"
            ops.append([kind, ct, c, tt, t, nc])
            nc += 1
        elif measured and r < 0.32:
            rt, q = regs[int(rng.integers(len(regs)))]
            ops.append(["mz", rt, q, nc])
            nc += 1
        elif r < 0.65 and len(regs) >= 2:
            i, j = rng.choice(len(regs), size=2, replace=False)
            (ct, c), (tt, t) = regs[int(i)], regs[int(j)]
            a = int(rng.integers(2))
            n1 = _rand_noise(rng, kinds, a)
            n2 = _rand_noise(rng, kinds, (1 - a) if split else a)
            ops.append([["cx", "cz"][int(rng.integers(2))], ct, c, tt, t, [n1, n2]])
        elif r < 0.8:
            rt, q = regs[int(rng.integers(len(regs)))]
            k = int(rng.integers(1, 4))
            names = [_ONE[int(rng.integers(len(_ONE)))] for _ in range(k)]
            ops.append(["w", names, rt, q, [_rand_noise(rng, kinds) for _ in names]])
        else:
            rt, q = regs[int(rng.integers(len(regs)))]
            ops.append(["g", _ONE[int(rng.integers(len(_ONE)))], rt, q, _rand_noise(rng, kinds)])
    cj = {"np": n_p, "ne": n_e, "nc": max(nc, 1), "ops": ops}
    if zero:
        cj = _zeroed(cj)
    return cj


def _zeroed(cj):
    def z(ns):
        return ns if ns[0] == "none" else [ns[0] if ns[0] != "pauli" else "dep", 0.0, ns[2]]

    out = []
    for op in cj["ops"]:
        if op[0] == "g":
            out.append(op[:4] + [z(op[4])])
        elif op[0] == "w":
            out.append(op[:4] + [[z(s) for s in op[4]]])
        elif op[0] in ("cx", "cz"):
            out.append(op[:5] + [[z(s) for s in op[5]]])
        else:
            out.append(op)
    return dict(cj, ops=out)


def _shapes(rng):
    """sizes (n_p, n_e) with at least one emitter"""
    return [(0, 1), (1, 1), (0, 2), (2, 1), (1, 2)]


def _structured(noises_one, noises_ctrl_pairs):
    """1 emitter + 1 photon: entangling prefix H e0, CNOT e0->p0 (noise free) followed by one noisy op"""
    prefix = [["g", "H", "e", 0, ["none"]], ["cx", "e", 0, "p", 0, [["none"], ["none"]]]]
    out = []
    for g in _ONE:
        for rt in ("e", "p"):
            for ns in noises_one:
                out.append({"np": 1, "ne": 1, "nc": 1, "ops": prefix + [["g", g, rt, 0, ns]]})
    for k in ("cx", "cz"):
        for (ct, tt) in (("e", "p"), ("p", "e")):
            for n1, n2 in noises_ctrl_pairs:
                out.append({"np": 1, "ne": 1, "nc": 1, "ops": prefix + [[k, ct, 0, tt, 0, [n1, n2]]]})
    return out


def _has(cj, kind):
    return any(ns[0] == kind for ns in _noise_slots(cj))


def _split_gates(cj):
    """controlled gates whose two noises are both AdditionNoise with different placement"""
    for op in cj["ops"]:
        if op[0] in ("cx", "cz"):
            n1, n2 = op[5]
            if n1[0] != "none" and n2[0] != "none" and n1[2] != n2[2]:
                yield op


def _is_split(cj):
    return any(True for _ in _split_gates(cj))


def _split_drops_loss(cj):
    """compile() handles the 'after' slot second; a photon loss with rate>0 there is the case the trace clause sees"""
    for op in _split_gates(cj):
        for ns in op[5]:
            if ns[0] == "loss" and ns[2] == 1 and ns[1] > 0:
                return True
    return False


def _split_nontrivial(cj):
    for op in _split_gates(cj):
        for ns in op[5]:
            if ns[2] == 1 and ((ns[0] in ("loss", "dep") and ns[1] > 0) or ns[0] == "pauli"):
                return True
    return False


_MEAS = ("mcr", "ccx", "ccz", "mz")


def _noise_before_measurement(cj):
    """kinds of non-zero-strength noise that compile() executes before the last measuring operation.  Uses the real
    circuit's sequence (operations on disjoint registers may be ordered differently from the JSON list); this only
    classifies inputs into items, it is not an oracle."""
    import graphiq.circuit.ops as ops
    import graphiq.noise.noise_models as nm

    seq = _mk_circuit(cj).sequence(unwrapped=True)
    meas = (ops.MeasurementZ, ops.MeasurementCNOTandReset, ops.ClassicalCNOT, ops.ClassicalCZ)
    last = max((i for i, op in enumerate(seq) if isinstance(op, meas)), default=-1)
    kinds = set()
    for op in seq[:last]:
        for nz in (op.noise if isinstance(op.noise, list) else [op.noise]):
            if isinstance(nz, nm.PhotonLoss) and nz.noise_parameters["loss rate"] > 0:
                kinds.add("loss")
            if isinstance(nz, nm.DepolarizingNoise) and nz.noise_parameters["Depolarizing probability"] > 0:
                kinds.add("dep")
    return kinds


def _has_cc(cj):
    return any(op[0] in ("ccx", "ccz") for op in cj["ops"])


def _total_loss(cj):
    return any(ns[0] == "loss" and ns[1] == 1.0 for ns in _noise_slots(cj))


def _wrapper_kind(cj):
    """'plain' if every wrapper is single-gate or palindromic in gate type, else 'mixed'"""
    for op in cj["ops"]:
        if op[0] == "w" and op[1] != op[1][::-1]:
            return "mixed"
    return "plain"


def _rand_map(rng, kinds, pairs=True):
    m = {}
    classes1 = ["Hadamard", "Phase", "PhaseDagger", "SigmaX", "SigmaY", "SigmaZ", "Identity"]
    for key in ("e", "p"):
        m[key] = {c: _rand_noise(rng, kinds) for c in classes1 if rng.random() < 0.5}
    for key in ("ee", "ep", "pe", "pp"):
        d = {}
        for c in ("CNOT", "CZ"):
            if rng.random() < 0.6:
                a = int(rng.integers(2))
                if pairs and rng.random() < 0.5:
                    d[c] = [_rand_noise(rng, kinds, a), _rand_noise(rng, kinds, a)]
                else:
                    d[c] = _rand_noise(rng, kinds, a)
        m[key] = d
    return m


_FIXED_SEED = 20261002  # a second, VERIF_SEED-independent pool of random circuits for the must-pass items.  The items that touch
#                          known findings take FIXED structured lists only (same for every seed and for both tiers).


def _take(lst, k):
    """at most k evenly spaced elements of a deterministic list (fixed samples for the classes that touch known findings)"""
    if len(lst) <= k:
        return list(lst)
    step = -(-len(lst) // k)
    return lst[::step][:k]


def _unitary_pool(rng, nrand, shapes):
    rand_dl, rand_dlp, rand_split, rand_zero = [], [], [], []
    for i in range(nrand):
        n_p, n_e = shapes[int(rng.integers(len(shapes)))]
        k = int(rng.integers(3, 9))
        rand_dl.append(_rand_circuit(rng, n_p, n_e, k, ["none", "dep", "loss"]))
        rand_dlp.append(_rand_circuit(rng, n_p, n_e, k, ["none", "dep", "loss", "pauli"]))
        if i % 3 == 0:
            rand_split.append(_rand_circuit(rng, n_p, n_e, k, ["dep", "loss", "pauli", "none"], split=True))
        if i % 3 == 1:
            rand_zero.append(_rand_circuit(rng, n_p, n_e, k, ["none", "dep", "loss"], zero=True))
    return rand_dl, rand_dlp, [c for c in rand_split if _is_split(c)], rand_zero


def _measured_pool(rng, count):
    meas = []
    for i in range(count):
        n_p, n_e = [(1, 1), (2, 1), (1, 2)][int(rng.integers(3))]
        if i % 3 == 2:  # depolarizing only, MeasurementCNOTandReset / MeasurementZ only
            meas.append(_rand_circuit(rng, n_p, n_e, int(rng.integers(3, 8)), ["none", "dep"], measured=True, cc=False))
        else:
            meas.append(_rand_circuit(rng, n_p, n_e, int(rng.integers(3, 9)), ["none", "dep", "loss"], measured=True))
    return [c for c in meas if any(op[0] in _MEAS for op in c["ops"])]


def run(tier, seed):
    rng = np.random.default_rng(seed)
    frng_u = np.random.default_rng(_FIXED_SEED + 1)  # unitary circuit pool (thorough pool extends the quick pool)
    frng_m = np.random.default_rng(_FIXED_SEED + 2)  # measured circuit pool
    thorough = tier == "thorough"
    import graphiq.backends.density_matrix.compiler  # noqa: F401  (import once; forked workers inherit)
    import graphiq.backends.stabilizer.compiler  # noqa: F401
    import graphiq.metrics  # noqa: F401
    import graphiq.solvers.solver_base  # noqa: F401

    for n in (1, 2, 3):
        dmref.stab_states(n)
        _full(n)

    # ---------------- channel level
    strengths = [0.0, 0.25, 0.5, 0.75, 1.0]
    for model, cls in (("dep", "DepolarizingNoise"), ("pauli", "PauliError"), ("loss", "PhotonLoss")):
        for backend in ("dm", "stabilizer_mixture"):
            cases = []
            for n in (1, 2, 3):
                nst = len(dmref.stab_states(n))
                reglists = [[q] for q in range(n)]
                if model == "dep":
                    reglists += [[a, b] for a in range(n) for b in range(n) if a != b]
                for regs in reglists:
                    r = rng
                    params = strengths + [float(np.round(r.random(), 6)) for _ in range(2)] if model != "pauli" else ["X", "Y", "Z", "I"]
                    for p in params:
                        for rep in range(3 if thorough else 1):
                            if backend == "dm":
                                sspec = ["rand", n, int(r.integers(1, 2**n + 1)), 1, int(r.integers(1 << 30))]
                            else:
                                nb = int(r.integers(1, 4))
                                ws = r.random(nb) + 0.1
                                ws = ws / ws.sum() if r.random() < 0.5 else ws / ws.sum() * 0.7
                                sspec = [n, [[float(np.round(w, 6)), int(r.integers(nst))] for w in ws]]
                            cases.append([[model, p, 1], "dm" if backend == "dm" else "s", sspec, regs])
            if model == "pauli" and backend != "dm":  # touches known finding C06-F1: explicit fixed list
                cases = [[["pauli", P, 1], "s", sspec, regs] for P in ("X", "Y", "Z")
                         for sspec, regs in (([1, [[1.0, 2]]], [0]), ([1, [[0.25, 0], [0.75, 4]]], [0]),
                                             ([2, [[0.5, 7], [0.5, 33]]], [0]), ([2, [[0.3, 12], [0.2, 41], [0.5, 58]]], [1]))]
            S.map(f"{cls}.apply.{backend}", cases,
                  nontrivial=lambda c: not (c[0][0] != "pauli" and c[0][1] == 0.0) and not (c[0][0] == "pauli" and c[0][1] == "I"))

    # ---------------- compile level: structured + random unitary circuits
    dl_one = _NONE + _DEP + _LOSS
    dl_pairs_uniform = [(a, b) for a in dl_one for b in dl_one if a[0] == "none" or b[0] == "none" or a[2] == b[2]]
    structured_dl = _structured(dl_one, dl_pairs_uniform)
    structured_pauli = _structured(_PAULI, [(a, b) for a in _PAULI for b in _NONE + _PAULI if b[0] == "none" or a[2] == b[2]])
    split_pairs = [(a, b) for a in _DEP + _LOSS + _PAULI for b in _DEP + _LOSS + _PAULI if a[2] != b[2]]
    structured_split = [c for c in _structured([], split_pairs)]

    nrand = 1100 if thorough else 180
    shapes = _shapes(rng) + ([(2, 2), (3, 1)] if thorough else [])
    fa = _unitary_pool(frng_u, 400 if thorough else 130, _shapes(frng_u))
    sa = _unitary_pool(rng, nrand, shapes)
    rand_dl, rand_dlp, rand_split, rand_zero = (fa[i] + sa[i] for i in range(4))

    uniform_all = structured_dl + structured_pauli + rand_dl + [c for c in rand_dlp if not _is_split(c)]
    S.map("compile.dm.physical.uniform_placement", uniform_all, nontrivial=lambda c: any(ns[0] != "none" for ns in _noise_slots(c)))
    split_all = structured_split + rand_split
    S.map("compile.dm.physical.split_placement", _take([c for c in structured_split if _split_drops_loss(c)], 18))
    # split placement where no loss is dropped still has to be physical: goes to the must-pass item
    S.map("compile.dm.physical.uniform_placement", [c for c in split_all if not _split_drops_loss(c)])

    agree = structured_dl + rand_dl + [c for c in split_all if not _has(c, "pauli")]
    S.map("compile.backend_agreement.dep_loss", [c for c in agree if not _total_loss(c)],
          nontrivial=lambda c: _has(c, "dep") or _has(c, "loss"))
    S.map("compile.backend_agreement.total_loss",
          _take([c for c in structured_dl if _total_loss(c) and any(op[0] in ("cx", "cz") and op[5][0][0] != "none" and op[5][1][0] != "none"
                                                                    for op in c["ops"])], 18))
    S.map("compile.backend_agreement.pauli_error", _take(structured_pauli, 15))

    S.map("compile.dm.placement_oracle.uniform_placement", uniform_all, nontrivial=lambda c: any(ns[0] != "none" for ns in _noise_slots(c)))
    S.map("compile.dm.placement_oracle.split_placement", _take([c for c in structured_split if _split_nontrivial(c)], 18))
    S.map("compile.dm.placement_oracle.uniform_placement", [c for c in split_all if not _split_nontrivial(c)])

    # ---------------- measured circuits
    # typical emission pattern first: H e; CNOT e->p (noisy); H e; MeasurementCNOTandReset e->p; H p (noisy)
    meas = []
    for ns in _DEP + _LOSS:
        meas.append({"np": 1, "ne": 1, "nc": 1, "ops": [["g", "H", "e", 0, ["none"]], ["cx", "e", 0, "p", 0, [["none"], ns]],
                                                       ["g", "H", "e", 0, ["none"]], ["mcr", "e", 0, "p", 0, 0], ["g", "H", "p", 0, ns]]})
        meas.append({"np": 1, "ne": 1, "nc": 1, "ops": [["g", "H", "e", 0, ["none"]], ["cx", "e", 0, "p", 0, [["none"], ["none"]]],
                                                       ["g", "H", "e", 0, ["none"]], ["mcr", "e", 0, "p", 0, 0], ["g", "H", "p", 0, ns]]})
        for kind in ("ccx", "ccz"):
            meas.append({"np": 1, "ne": 1, "nc": 1, "ops": [["g", "H", "e", 0, ["none"]], [kind, "e", 0, "p", 0, 0], ["g", "H", "p", 0, ns]]})
            meas.append({"np": 1, "ne": 1, "nc": 1, "ops": [["g", "H", "e", 0, ["none"]], ["cx", "e", 0, "p", 0, [["none"], ["none"]]],
                                                           [kind, "p", 0, "e", 0, 0], ["g", "H", "e", 0, ns]]})
    # smallest case of noise in front of a measurement: a depolarized emitter is measured and reset
    for g in ("X", "H", "I"):
        for pdep in (0.25, 0.75, 1.0):
            for a in (0, 1):
                meas.append({"np": 1, "ne": 1, "nc": 1, "ops": [["g", g, "e", 0, ["dep", pdep, a]], ["mcr", "e", 0, "p", 0, 0]]})
                meas.append({"np": 1, "ne": 1, "nc": 1, "ops": [["g", g, "e", 0, ["dep", pdep, a]], ["cx", "e", 0, "p", 0, [["none"], ["none"]]],
                                                               ["mz", "e", 0, 0]]})
    meas_struct = list(meas)  # the fixed lists for the classes that touch known findings come from here
    meas += _measured_pool(frng_m, 500 if thorough else 250) + _measured_pool(rng, 1000 if thorough else 280)
    before = [(c, _noise_before_measurement(c)) for c in meas]
    S.map("compile.measured.physical.no_loss_before_measurement", [c for c, k in before if "loss" not in k])
    sbefore = [(c, k) for c, k in before[: len(meas_struct)]]
    S.map("compile.measured.physical.loss_before_measurement", _take([c for c, k in sbefore if "loss" in k], 18))
    S.map("compile.measured.agreement.noise_after_measurements", [c for c, k in before if not k and not _has_cc(c) and not _total_loss(c)])
    S.map("compile.measured.agreement.depolarizing_before_measurement",
          _take([c for c, k in sbefore if k == {"dep"} and not _has_cc(c) and not _total_loss(c)], 18))
    S.map("compile.measured.agreement.classical_controlled", _take([c for c, k in sbefore if not k and _has_cc(c)], 16))

    # ---------------- switchability
    off = structured_dl[:: 5] + structured_pauli[:: 5] + structured_split[:: 9] + rand_dlp + rand_split + meas
    S.map("compile.switched_off", off, nontrivial=lambda c: any(ns[0] != "none" for ns in _noise_slots(c)))
    zero_structured = [c for c in structured_dl if all(ns[0] == "none" or ns[1] == 0.0 for ns in _noise_slots(c))]
    zero_meas = [_zeroed(c) for c in meas[:: 3]]
    zero_cc_struct = _take([_zeroed(c) for c in meas_struct if _has_cc(c)], 16)
    zs = zero_structured + rand_zero + zero_meas
    S.map("compile.zero_strength", [c for c in zs if not _has_cc(c)], nontrivial=lambda c: any(ns[0] != "none" for ns in _noise_slots(c)))
    S.map("compile.zero_strength.classical_controlled", zero_cc_struct)
    em = [c for c in rand_zero] + zero_meas[:: 2] + zero_structured[:: 6]
    S.map("compile.empty_noise_map", [c for c in em if not _has_cc(c)])
    S.map("compile.empty_noise_map.classical_controlled", zero_cc_struct)

    # ---------------- noise maps
    nmap = 900 if thorough else 250
    base_shapes = _shapes(rng)
    pa, oracle_plain, oracle_wrap, helper = [], [], [], []
    for i in range(nmap):
        n_p, n_e = base_shapes[int(rng.integers(len(base_shapes)))]
        cj = _rand_circuit(rng, n_p, n_e, int(rng.integers(3, 8)), ["none"])
        pm = _rand_map(rng, ["dep", "loss"])
        while any((sp[0] == "loss" and sp[1] == 1.0) for v in pm.values() for y in v.values() for sp in (y if isinstance(y[0], list) else [y])):
            pm = _rand_map(rng, ["dep", "loss"])  # total loss + depolarizing is driven by compile.backend_agreement.total_loss
        pa.append([cj, pm, "assign.physical_agreement"])
        mp = _rand_map(rng, ["dep", "loss", "pauli"])
        (oracle_plain if _wrapper_kind(cj) == "plain" else oracle_wrap).append([cj, mp, "assign.oracle"])
        hm = _rand_map(rng, ["dep", "loss", "pauli"], pairs=False)
        helper.append([cj, hm, "helpers.oracle"])
    S.map("assign_noise.physical_agreement", pa)
    S.map("assign_noise.map_oracle", oracle_plain)
    # the wrapper class: wrappers of two different gate types, exactly one of which the map gives a Pauli error
    wr = []
    for rt in ("e", "p"):
        for g1, g2 in itertools.permutations(["Hadamard", "Phase", "SigmaX", "SigmaZ"], 2):
            for pl in ("X", "Z"):
                for a in (0, 1):
                    cj = {"np": 1, "ne": 1, "nc": 1, "ops": [["g", "H", "e", 0, ["none"]], ["cx", "e", 0, "p", 0, [["none"], ["none"]]],
                                                            ["w", [core.CLASS1[g1], core.CLASS1[g2]], rt, 0, [["none"], ["none"]]]]}
                    wr.append([cj, dict(_EMPTY_MAP, **{rt: {g1: ["pauli", pl, a]}}), "assign.oracle"])
    S.map("assign_noise.map_oracle.wrappers", _take(wr, 24))
    # wrappers of mixed gate types stay in the must-pass item as long as the map gives no Pauli error to a one-qubit gate
    S.map("assign_noise.map_oracle", [x for x in oracle_wrap if not _map_has_pauli_1q(x[1])])
    S.map("solver_base.noise_helpers", helper)

    # ---------------- Infidelity on compiled states
    inf = []
    for i in range(150 if thorough else 48):
        n_p, n_e = base_shapes[int(rng.integers(len(base_shapes)))]
        cj = _rand_circuit(rng, n_p, n_e, int(rng.integers(3, 7)), ["none", "dep"])
        n = n_p + n_e
        nst = len(dmref.stab_states(n))
        ks = range(nst) if n == 1 else (range(0, nst, 6) if n == 2 else range(0, nst, 90))
        inf.append([cj, [int(k) for k in ks]])
    S.map("Infidelity.evaluate.noisy_states", inf)

    # ---------------- repeated use / construction variants (H1, H2, H5)
    all_specs = _DEP + _LOSS + _PAULI
    prefix = [["g", "H", "e", 0, ["none"]], ["cx", "e", 0, "p", 0, [["none"], ["none"]]]]
    var_struct = []
    for ns in all_specs:
        for rt in ("e", "p"):
            for body in (["H"], ["H", "P"], ["X", "H", "PD"]):
                var_struct.append({"np": 1, "ne": 1, "nc": 1, "ops": prefix + [["w1", body, rt, 0, ns]]})
        for k in ("cx1", "cz1"):
            for (ct, tt) in (("e", "p"), ("p", "e")):
                var_struct.append({"np": 1, "ne": 1, "nc": 1, "ops": prefix + [[k, ct, 0, tt, 0, ns]]})
    kinds4 = ["none", "dep", "loss", "pauli"]
    nvar = 400 if thorough else 90
    var_rand = [_variantize(rng, _rand_circuit(rng, *shapes[int(rng.integers(len(shapes)))], int(rng.integers(3, 9)), kinds4, split=bool(i % 4 == 0)))
                for i in range(nvar)]
    var_uniform = [c for c in var_rand if not _is_split(_canon(c))]
    # a small sample above the n<=4 bound of the other items: 5 qubits, >= 3 emitters (dm oracle only; the mixture would be large)
    var_five = [_variantize(rng, _rand_circuit(rng, 5 - ne5, ne5, int(rng.integers(4, 9)), kinds4, split=bool(i % 3 == 0)))
                for i, ne5 in enumerate([3, 4, 3, 5, 3, 4] * (6 if thorough else 2))]
    S.map("compile.construction_variants.oracle", var_struct + var_rand + var_five)
    S.map("compile.construction_variants.agreement", var_struct + var_uniform[:: 2])
    same = [[c, i % len(_PLANS)] for i, c in enumerate(var_struct[:: 3] + var_rand + _take(structured_split, 30) + _take(structured_pauli, 20) + _take(structured_dl, 30))]
    S.map("compile.same_circuit_object.alternating_backends", same, nontrivial=lambda x: any(ns[0] != "none" for ns in _noise_slots(x[0])))
    seqs = []
    for n in (2, 3, 4):
        chain = [_signature_noisy(ne, n - ne) for ne in range(1, n + 1)] + [_signature_noisy(0, n)]
        seqs += [chain, chain[::-1]]
    for _ in range(200 if thorough else 45):
        n = int(rng.integers(2, 5))
        ne = int(rng.integers(0, n + 1))
        sq = []
        for _j in range(int(rng.integers(3, 5))):
            sq.append(_variantize(rng, _rand_circuit(rng, n - ne, ne, int(rng.integers(3, 8)), kinds4, split=rng.random() < 0.25)))
            if rng.random() < 0.5:
                ne = int((ne + rng.integers(1, n + 1)) % (n + 1))
            else:
                n = int(rng.integers(1, 5))
                ne = int(rng.integers(0, n + 1))
        seqs.append(sq)
    S.map("compile.same_compiler_instance.sequence", seqs,
          nontrivial=lambda sq: any(_n(a) == _n(b) and a["np"] != b["np"] for a, b in zip(sq, sq[1:])))
    tw = []
    for i in range(300 if thorough else 70):
        n_p, n_e = base_shapes[int(rng.integers(len(base_shapes)))]
        cj = _rand_circuit(rng, n_p, n_e, int(rng.integers(3, 8)), ["none"])
        tw.append([cj, _rand_map(rng, ["dep", "loss", "pauli"]), _rand_map(rng, ["dep", "loss", "pauli"])])
    S.map("assign_noise.twice_same_original", tw)
    om = []
    for i in range(250 if thorough else 60):
        n = int(rng.integers(1, 5))
        ne = int(rng.integers(0, n + 1))
        cjs = []
        for _j in range(3):
            cjs.append(_rand_circuit(rng, n - ne, ne, int(rng.integers(3, 8)), ["none"]))
            if rng.random() < 0.5 and n >= 1:
                ne = int((ne + rng.integers(1, n + 1)) % (n + 1))
            else:
                n = int(rng.integers(1, 5))
                ne = int(rng.integers(0, n + 1))
        om.append([cjs, _rand_map(rng, ["dep", "loss", "pauli"])])
    S.map("assign_noise.one_map_many_circuits", om)

    S.note("expected trace = product over all noise slots of (1 - loss rate); PSD tolerance -1e-9 (floating point, [N] in DESIGN)")
    S.note("agreement is checked on the full matrices sum_i p_i|t_i><t_i| vs rho and on explicit stabilizer targets")
    return S


def _variantize(rng, cj):
    """rewrite some wrappers / controlled gates of a noisy circuit into their one-noise-object construction"""
    out = []
    for op in cj["ops"]:
        if op[0] == "w" and rng.random() < 0.5:
            out.append(["w1", op[1], op[2], op[3], op[4][int(rng.integers(len(op[4])))]])
        elif op[0] in ("cx", "cz") and rng.random() < 0.35:
            out.append([op[0] + "1"] + list(op[1:5]) + [op[5][int(rng.integers(2))]])
        else:
            out.append(op)
    return dict(cj, ops=out)


def _signature_noisy(ne, np_):
    """a noisy unitary circuit on (ne emitters, np_ photons) that treats every register differently (gate and noise)"""
    ops = []
    words = [["H"], ["X", "H"], ["H", "P"], ["PD", "H"]]
    for i in range(ne):
        ops.append(["w1", words[i % 4], "e", i, ["dep", 0.1 * (i + 1), i % 2]])
    for j in range(np_):
        ops.append(["g", ["H", "Y", "P", "X"][j % 4], "p", j, ["loss", 0.15 * (j + 1), (j + 1) % 2]])
    if ne and np_:
        ops.append(["cx", "e", 0, "p", 0, [["dep", 0.2, 1], ["pauli", "X", 1]]])
        ops.append(["cz1", "e", ne - 1, "p", np_ - 1, ["dep", 0.3, 0]])
    elif ne + np_ >= 2:
        t = "e" if ne else "p"
        ops.append(["cx", t, 0, t, 1, [["dep", 0.2, 1], ["pauli", "Z", 1]]])
    t, last = ("e", ne - 1) if ne else ("p", np_ - 1)
    ops.append(["g", "H", t, last, ["pauli", "Y", 0]])
    return {"np": np_, "ne": ne, "nc": 1, "ops": ops}


def _map_has_pauli_1q(mj):
    return any(spec[0] == "pauli" for key in ("e", "p") for spec in mj.get(key, {}).values())
