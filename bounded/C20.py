"""C20 [B] - the single-qubit Clifford library is complete, closed and consistently ordered.

Contracts on the real graphiq.circuit.ops functions (one_qubit_cliffords, local_clifford_composition,
local_clifford_to_matrix_map, local_cliffords_name_to_matrix_map, find_local_clifford_by_matrix,
simplify_local_clifford, OneQubitGateWrapper.unwrap), on dmf.check_equivalent_unitaries, and on both compilers for
one-wrapper circuits.  Oracle: textbook 2x2 matrices of refsem.core and the 24-element group generated from the textbook
H and P by BFS (refsem.circuits.clifford_group_matrices); a list [g1..gk] denotes the product g1*g2*...*gk.
"""
from __future__ import annotations

import itertools

import numpy as np

from vf.bounded import Suite
from refsem import core as R
from refsem import circuits as RC

from graphiq.circuit import ops as gops
import graphiq.backends.density_matrix.functions as dmf
import graphiq.noise.noise_models as nm
from bounded.C01 import build_circuit, compile_traced, snapshot, mismatch

S = Suite("C20")

NAME = {"Identity": "I", "Hadamard": "H", "Phase": "P", "PhaseDagger": "PD", "SigmaX": "X", "SigmaY": "Y", "SigmaZ": "Z"}
CLS = {"I": gops.Identity, "H": gops.Hadamard, "P": gops.Phase, "PD": gops.PhaseDagger, "X": gops.SigmaX, "Y": gops.SigmaY, "Z": gops.SigmaZ}
GROUP = RC.clifford_group_matrices()  # textbook group, 24 matrices


def names_of(gate_list):
    return [NAME[g.__name__] for g in gate_list]


def group_index(M):
    """index of the textbook group element equal to M up to global phase, or None"""
    hits = [k for k, G in enumerate(GROUP) if RC.is_unitary(M) and RC.equal_up_to_phase(M, G)]
    return hits[0] if len(hits) == 1 else None


def library_lists():
    return [list(l) for l in gops.one_qubit_cliffords()]


# ------------------------------------------------------------------ enumeration: exactly 24, distinct, = the group
@S.item("one_qubit_cliffords.exactly_the_group", site="graphiq.circuit.ops:one_qubit_cliffords, local_clifford_composition",
        bound="the whole enumeration (one evaluation); matrices of the lists computed with textbook gates", exhaustive=True,
        clause="the enumeration consists of exactly 24 unitaries pairwise inequivalent up to global phase (and they are the 24 Clifford gates)")
def enumeration_case(inp):
    L = library_lists()
    if len(L) != 24:
        return f"enumeration has {len(L)} gate lists, not 24"
    a, b = gops.local_clifford_composition()
    if [x + y for x, y in itertools.product(a, b)] != [list(l) for l in gops.one_qubit_cliffords()]:
        return "one_qubit_cliffords() is not the product a x b of local_clifford_composition()"
    idx = []
    for l in L:
        for g in l:
            if g.__name__ not in NAME or not issubclass(g, gops.OneQubitOperationBase):
                return f"list {l} contains a non-elementary entry {g}"
        k = group_index(R.wrapper_matrix(names_of(l)))
        if k is None:
            return f"list {names_of(l)} is not a single-qubit Clifford unitary"
        idx.append(k)
    if len(set(idx)) != 24:
        dup = [names_of(L[i]) for i in range(24) if idx.count(idx[i]) > 1]
        return f"lists equal up to global phase: {dup}"
    return None


@S.item("local_cliffords_name_to_matrix_map.matches_lists", site="graphiq.circuit.ops:local_cliffords_name_to_matrix_map, local_clifford_to_matrix_map",
        bound="all 24 entries, element-wise comparison with the textbook product of the same-index gate list; plus every single gate class", exhaustive=True,
        clause="a gate list denotes the matrix product of the list (library's own matrices)")
def matrix_map_case(inp):
    L = library_lists()
    Ms = list(gops.local_cliffords_name_to_matrix_map())
    if len(Ms) != len(L):
        return f"{len(Ms)} matrices for {len(L)} lists"
    for l, M in zip(L, Ms):
        want = R.wrapper_matrix(names_of(l))
        if not np.allclose(M, want, atol=1e-12):
            return f"matrix #{names_of(l)} = {np.round(M, 3).tolist()} != textbook product {np.round(want, 3).tolist()}"
        if not np.allclose(gops.local_clifford_to_matrix_map(l), want, atol=1e-12):
            return f"local_clifford_to_matrix_map({names_of(l)}) != textbook product"
    for nm in ("I", "H", "P", "X", "Y", "Z"):
        if not np.allclose(gops.local_clifford_to_matrix_map(CLS[nm]), R.GATES1[nm], atol=1e-12):
            return f"local_clifford_to_matrix_map({nm}) != textbook {nm}"
    return None


# ------------------------------------------------------------------ closure: all 24 x 24 products
@S.item("simplify_local_clifford.closure_24x24", site="graphiq.circuit.ops:simplify_local_clifford, find_local_clifford_by_matrix",
        bound="all 24 x 24 concatenations list_i + list_j of the enumeration", exhaustive=True,
        clause="closed under multiplication: the product of two members simplifies to a member equal to the product up to global phase")
def closure_case(inp):
    i, j = inp
    L = library_lists()
    word = L[i] + L[j]
    prod = R.wrapper_matrix(names_of(L[i])) @ R.wrapper_matrix(names_of(L[j]))
    if group_index(prod) is None:
        return f"textbook product of {names_of(L[i])} and {names_of(L[j])} left the group"
    out = gops.simplify_local_clifford(list(word))
    if list(out) not in L:
        return f"simplify({names_of(word)}) = {names_of(out)} is not a member of the enumeration"
    if not RC.equal_up_to_phase(R.wrapper_matrix(names_of(out)), prod):
        return f"simplify({names_of(word)}) = {names_of(out)} is not equal to the product up to global phase"
    return None


# ------------------------------------------------------------------ all words up to a length
@S.item("simplify_local_clifford.words", site="graphiq.circuit.ops:simplify_local_clifford, local_clifford_to_matrix_map, find_local_clifford_by_matrix",
        bound="all words over {I,H,P,X,Y,Z} of length 1..5 (quick, 9330) / 1..7 (thorough, 335922)", exhaustive=True,
        clause="simplifying any product of elementary gates returns a member equal to that product up to global phase")
def word_case(inp):
    L = library_lists()
    for w in inp:  # a batch of words
        cls = [CLS[g] for g in w]
        M = gops.local_clifford_to_matrix_map(cls)
        want = R.wrapper_matrix(w)
        if not np.allclose(M, want, atol=1e-9):
            return f"local_clifford_to_matrix_map({w}) != textbook product"
        out = gops.simplify_local_clifford(cls)
        if list(out) not in L:
            return f"simplify({w}) = {names_of(out)} is not a member of the enumeration"
        if not RC.equal_up_to_phase(R.wrapper_matrix(names_of(out)), want):
            return f"simplify({w}) = {names_of(out)} != product up to global phase"
    return None


# ------------------------------------------------------------------ lookup by matrix: accept phases, reject non-Cliffords
def _test_matrix(spec):
    kind = spec[0]
    if kind == "phase":  # member i times e^{i phi}
        _, i, phi = spec
        return np.exp(1j * phi) * R.wrapper_matrix(RC.WORDS24[i]), True
    if kind == "T":  # member i times T = diag(1, e^{i pi/4}) (not Clifford)
        _, i = spec
        return R.wrapper_matrix(RC.WORDS24[i]) @ np.diag([1, np.exp(1j * np.pi / 4)]), False
    if kind == "rot":  # member i times a rotation exp(-i theta/2 (n.sigma)) by an angle that is not a multiple of pi/2
        _, i, axis, theta = spec
        ax = [R.X, R.Y, R.Z][axis]
        U = np.cos(theta / 2) * R.I2 - 1j * np.sin(theta / 2) * ax
        return R.wrapper_matrix(RC.WORDS24[i]) @ U, False
    if kind == "haar":
        rng = np.random.default_rng(spec[1])
        Z = rng.normal(size=(2, 2)) + 1j * rng.normal(size=(2, 2))
        Q, Rr = np.linalg.qr(Z)
        return Q * (np.diag(Rr) / np.abs(np.diag(Rr))), False
    if kind == "scaled":  # not unitary
        _, i, c = spec
        return c * R.wrapper_matrix(RC.WORDS24[i]), False
    if kind == "singular":
        return np.array([[1, 0], [0, 0]], dtype=complex) if spec[1] == 0 else np.zeros((2, 2), dtype=complex), False
    raise ValueError(spec)


def _dist_to_group(M):
    if not RC.is_unitary(M, 1e-6):
        return 1.0
    return min(1 - abs(np.trace(G.conj().T @ M)) / 2 for G in GROUP)


@S.item("find_local_clifford_by_matrix.accepts_phases_rejects_non_clifford", site="graphiq.circuit.ops:find_local_clifford_by_matrix",
        bound="24 members x 16 global phases (accepted, right member) ; 24 x T, 24 x 3 axes x 6 angles off the pi/2 grid, 200 seeded Haar unitaries (all farther than 1e-4 in operator norm from every phase multiple of a group element), 24 x 3 non-unit scalings, 2 singular matrices (rejected with ValueError)",
        clause="returns a member equal to the matrix up to global phase; a non-Clifford matrix is rejected")
def lookup_case(inp):
    M, clifford = _test_matrix(inp)
    L = library_lists()
    if not clifford and _dist_to_group(M) < 1e-8:
        return None  # too close to the group to demand rejection (the library compares with a tolerance)
    try:
        out = gops.find_local_clifford_by_matrix(M)
    except ValueError:
        return None if not clifford else f"a Clifford matrix times a global phase ({inp}) was rejected"
    if not clifford:
        return f"non-Clifford matrix {inp} accepted as {names_of(out)}"
    if list(out) not in L:
        return f"result {names_of(out)} is not a member of the enumeration"
    if not RC.equal_up_to_phase(R.wrapper_matrix(names_of(out)), M):
        return f"result {names_of(out)} is not equal to the matrix up to global phase"
    return None


@S.item("check_equivalent_unitaries.lookup_usage", site="graphiq.backends.density_matrix.functions:check_equivalent_unitaries",
        bound="second argument: each of the 24 library member matrices exactly as find_local_clifford_by_matrix builds them (matrix(a) @ matrix(b)); first argument: (i) every member times one of 8 phases [24x24], (ii) the library's float product matrix of every concatenation list_i+list_j (entries like 1e-17 in place of 0) [24x24 against the member it must equal and against another member], (iii) 100 seeded Haar unitaries",
        clause="lookup by matrix up to phase: as called by the lookup (second argument a member matrix), the library's equivalence test is equality up to global phase")
def equiv_case(inp):
    a, b = gops.local_clifford_composition()
    members = [gops.local_clifford_to_matrix_map(x) @ gops.local_clifford_to_matrix_map(y) for x in a for y in b]
    kind = inp[0]
    if kind == "pair":
        _, i, j, k = inp
        A = np.exp(1j * np.pi * k / 4 + 0.3j * (k % 2)) * R.wrapper_matrix(RC.WORDS24[i])
        Bs = [members[j]]
    elif kind == "lib":  # the library's own float products
        _, i, j = inp
        L = library_lists()
        A = gops.local_clifford_to_matrix_map(L[i] + L[j])
        k = group_index(R.wrapper_matrix(names_of(L[i] + L[j])))
        same = [m for m in range(24) if group_index(R.wrapper_matrix(names_of(L[m]))) == k]
        Bs = [members[same[0]], members[(same[0] + 1 + i) % 24]]
    else:
        _, seed = inp
        A, _ = _test_matrix(["haar", seed])
        Bs = [members[seed % 24]]
    for B in Bs:
        want = RC.equal_up_to_phase(A, B, 1e-7)
        got = bool(dmf.check_equivalent_unitaries(A, B))
        if got != want:
            return f"check_equivalent_unitaries(A, member) = {got}, textbook equality up to phase = {want} for {inp}; A={np.round(A, 4).tolist()}"
    return None


# ------------------------------------------------------------------ wrapper order: unwrap and both backends
@S.item("OneQubitGateWrapper.unwrap.reversed", site="graphiq.circuit.ops:OneQubitGateWrapper.unwrap",
        bound="all 24 lists + 7 non-canonical words x register type e/p x register 0/1", exhaustive=True,
        clause="a wrapped gate list denotes the matrix product of the list, i.e. the last listed gate acts first (expansion order)")
def unwrap_case(inp):
    w, rt, r = inp
    op = gops.OneQubitGateWrapper([CLS[g] for g in w], register=r, reg_type=rt)
    seq = op.unwrap()
    got = [NAME.get(type(g).__name__) for g in seq]
    if got != list(reversed(w)):
        return f"unwrap of {w} applies {got}, expected {list(reversed(w))} (last listed first)"
    for g in seq:
        if g.register != r or g.reg_type != rt:
            return f"unwrapped gate on ({g.reg_type},{g.register}) instead of ({rt},{r})"
    return None


PREPS = {"0": [], "+": ["H"], "+i": ["H", "P"]}  # program order: H then P gives |+i>


@S.item("wrapper.same_unitary_in_both_backends", site="graphiq.backends.compiler_base:CompilerBase.compile ; graphiq.circuit.ops:OneQubitGateWrapper.unwrap",
        bound="all 24 library lists + 7 non-canonical words (incl. PhaseDagger) x wrapper on e0 or p0 of a (1 emitter, 1 photon) circuit x input |0>,|+>,|+i> or a Bell pair with the other qubit x {stabilizer, dm}",
        exhaustive=True,
        clause="a wrapped gate list denotes the same unitary - the matrix product of the list - in both the density-matrix backend and the stabilizer backend")
def backend_case(inp):
    w, rt, prep = inp
    other = ("p", 0) if rt == "e" else ("e", 0)
    ops = []
    if prep == "bell":
        ops += [["g", "H", rt, 0], ["cx", rt, 0, other[0], other[1]]]
    else:
        ops += [["g", g, rt, 0] for g in PREPS[prep]]
    ops.append(["w", list(w), rt, 0])
    spec = {"ne": 1, "np": 1, "nc": 0, "ops": ops}
    v = R.run_ops(2, RC.abstract_ops(spec))[0]
    for backend in ("stabilizer", "dm"):
        circuit, _ = build_circuit(spec)
        st, _ = compile_traced(circuit, backend, 1)
        m = mismatch(backend, snapshot(st.rep_data), v, 2)
        if m:
            return f"[{backend}] wrapper {w} on {rt}0, input {prep}: " + m
    return None


# ------------------------------------------------------------------ construction variants, repeated use, argument frames
NOISE_KINDS = ("default", "nonoise", "list", "single_after", "single_before", "list_one_real")


def _wrapper(w, rt, r, kind):
    """the same wrapper built in the ways the constructor accepts its noise argument; returns (wrapper, noise objects by listed position or
    None, the single noise object or None).  With noise simulation off (the compilers' default) every variant denotes the plain product."""
    cls = [CLS[g] for g in w]
    if kind == "default":
        return gops.OneQubitGateWrapper(cls, register=r, reg_type=rt), None, None
    if kind == "nonoise":
        return gops.OneQubitGateWrapper(cls, register=r, reg_type=rt, noise=nm.NoNoise()), None, None
    if kind == "list":
        ns = [nm.NoNoise() for _ in w]
        return gops.OneQubitGateWrapper(cls, register=r, reg_type=rt, noise=ns), ns, None
    if kind == "list_one_real":
        ns = [nm.NoNoise() for _ in w]
        ns[len(w) // 2] = nm.PauliError("X")
        return gops.OneQubitGateWrapper(cls, register=r, reg_type=rt, noise=ns), ns, None
    one = nm.PauliError("X" if kind == "single_after" else "Z")
    one.noise_parameters["After gate"] = kind == "single_after"
    return gops.OneQubitGateWrapper(cls, register=r, reg_type=rt, noise=one), None, one


@S.item("OneQubitGateWrapper.unwrap.noise_constructions", site="graphiq.circuit.ops:OneQubitGateWrapper.__init__, unwrap",
        bound="all 24 lists + 7 non-canonical words (none of the multi-gate words is a palindrome) x register type e/p x 6 ways of giving the noise argument "
              "(default, NoNoise(), list of NoNoise, one noise object applied after / before the gate, list with one real noise object); unwrap() called twice",
        exhaustive=True,
        clause="a wrapped gate list denotes the matrix product of the list, i.e. the last listed gate acts first - however the wrapper's noise is given")
def unwrap_noise_case(inp):
    w, rt, kind = inp
    op, ns, one = _wrapper(w, rt, 1, kind)
    want = list(reversed(w))
    for k in (1, 2):
        seq = op.unwrap()
        # a single noise object may be carried by one extra Identity gate (how the noise is placed is C13's business)
        carriers = [g for g in seq if one is not None and g.noise is one and type(g).__name__ == "Identity"]
        gates = [g for g in seq if g is not carriers[0]] if (len(seq) == len(w) + 1 and len(carriers) >= 1) else list(seq)
        got = [NAME.get(type(g).__name__) for g in gates]
        if got != want:
            return f"unwrap #{k} ({kind}) of {w} applies {got}, expected {want} (last listed first)"
        if any(g.register != 1 or g.reg_type != rt for g in seq):
            return f"unwrap #{k} ({kind}): a gate sits on another register"
        if ns is not None:
            for j, g in enumerate(gates):  # gate applied j-th is the one listed at position len-1-j
                nj = ns[len(w) - 1 - j]
                if not (type(g.noise) is type(nj) and g.noise.noise_parameters == nj.noise_parameters):
                    return f"unwrap #{k} ({kind}) of {w}: the gate listed at position {len(w) - 1 - j} does not carry the noise given for that position"
        prod = R.I2
        for g in seq:  # application order: first applied is the right-most factor
            prod = R.GATES1[NAME[type(g).__name__]] @ prod
        if not np.allclose(prod, R.wrapper_matrix(w)):
            return f"unwrap #{k} ({kind}) of {w}: product of the unwrapped gates is not the matrix product of the list"
    if [NAME[g.__name__] for g in op.operations] != list(w):
        return "unwrap changed the wrapper's operation list"
    return None


@S.item("wrapper.same_unitary_noise_constructions", site="graphiq.backends.compiler_base:CompilerBase.compile ; graphiq.circuit.ops:OneQubitGateWrapper.unwrap",
        bound="all 24 library lists + 7 non-canonical words x wrapper on e0 or p0 of a (1 emitter, 1 photon) circuit x input |+i> or a Bell pair x the 5 "
              "non-default ways of giving the noise argument x {stabilizer, dm}, noise simulation off (compilers' default); the SAME circuit object is compiled twice "
              "by the SAME compiler object", exhaustive=True,
        clause="a wrapped gate list denotes the same unitary - the matrix product of the list - in both backends, however the wrapper was built and on repeated compilation")
def backend_noise_case(inp):
    from bounded.C01 import COMPILERS
    from graphiq.circuit.circuit_dag import CircuitDAG

    w, rt, prep, kind = inp
    other = ("p", 0) if rt == "e" else ("e", 0)
    ops = [["g", "H", rt, 0], ["cx", rt, 0, other[0], other[1]]] if prep == "bell" else [["g", g, rt, 0] for g in PREPS[prep]]
    spec = {"ne": 1, "np": 1, "nc": 0, "ops": ops + [["w", list(w), rt, 0]]}
    v = R.run_ops(2, RC.abstract_ops(spec))[0]
    for backend in ("stabilizer", "dm"):
        circuit, _ = build_circuit({"ne": 1, "np": 1, "nc": 0, "ops": ops})
        circuit.add(_wrapper(w, rt, 0, kind)[0])
        comp = COMPILERS[backend]()
        comp.measurement_determinism = 1
        for k in (1, 2):
            st = comp.compile(circuit)
            m = mismatch(backend, snapshot(st.rep_data), v, 2)
            if m:
                return f"[{backend}] compilation #{k}, wrapper {w} on {rt}0 (noise given as {kind}), input {prep}: " + m
    return None


@S.item("simplify_local_clifford.repeat_and_frames", site="graphiq.circuit.ops:simplify_local_clifford, find_local_clifford_by_matrix, one_qubit_cliffords, local_clifford_composition",
        bound="all 1554 words over {I,H,P,X,Y,Z} of length 1..4 (batches of 32): simplify twice on the SAME list object (list unchanged, same answer), simplify the "
              "answer again (a member simplifies to itself), corrupt the returned lists and the lists of one_qubit_cliffords() / local_clifford_composition() in place, "
              "simplify again (same answer; enumeration still the 24 members)", exhaustive=True,
        clause="simplifying any product of elementary gates returns a member equal to that product up to global phase - on every call, without modifying the argument")
def simplify_repeat_case(inp):
    for w in inp:
        cls = [CLS[g] for g in w]
        keep = list(cls)
        want = R.wrapper_matrix(w)
        out1 = gops.simplify_local_clifford(cls)
        if cls != keep:
            return f"simplify({w}) modified its argument list"
        if not RC.equal_up_to_phase(R.wrapper_matrix(names_of(out1)), want):
            return f"simplify({w}) = {names_of(out1)} != product up to global phase"
        first = list(out1)
        out2 = gops.simplify_local_clifford(cls)
        if list(out2) != first:
            return f"simplify({w}) gave {names_of(first)} and then {names_of(out2)} for the same list"
        out3 = gops.simplify_local_clifford(list(first))
        if list(out3) != first:
            return f"the member {names_of(first)} simplifies to {names_of(out3)}, not to itself"
        # a caller may do what it likes with lists it was handed
        for l in (out1, out2, out3):
            if l is not cls:
                l.append(gops.Hadamard)
        for l in gops.one_qubit_cliffords():
            l.append(gops.Phase)
        a, b = gops.local_clifford_composition()
        for l in a + b:
            l.insert(0, gops.SigmaY)
        out4 = gops.simplify_local_clifford(cls)
        if list(out4) != first:
            return f"after the caller changed lists it had been handed, simplify({w}) = {names_of(out4)} instead of {names_of(first)}"
    L = library_lists()
    idx = {group_index(R.wrapper_matrix(names_of(l))) for l in L}
    if len(L) != 24 or len(idx) != 24 or None in idx:
        return "after the caller changed lists it had been handed, one_qubit_cliffords() is no longer the 24 Clifford gates"
    return None


_DTYPES = {"complex": complex, "float": float, "int": int}


@S.item("find_local_clifford_by_matrix.argument_frames", site="graphiq.circuit.ops:find_local_clifford_by_matrix ; graphiq.backends.density_matrix.functions:check_equivalent_unitaries",
        bound="24 members x 4 phases as complex128 arrays in C and Fortran order; the members with real entries also as float64 (x -1) and, when integer, as int64 arrays; "
              "12 non-Clifford matrices: lookup twice with the SAME array object: array bit-for-bit unchanged, same (right) answer / ValueError both times; "
              "check_equivalent_unitaries(A, member) leaves both arguments unchanged", exhaustive=True,
        clause="lookup by matrix: returns a member equal to the matrix up to global phase, a non-Clifford matrix is rejected - without modifying the matrix, on repeated use, for every dtype")
def lookup_frames_case(inp):
    kind, i, k, dt, order = inp
    if kind == "member":
        M = np.exp(1j * np.pi * k / 2) * R.wrapper_matrix(RC.WORDS24[i])
        clifford = True
    else:
        M, clifford = _test_matrix(["rot", i, k % 3, 0.3 + 0.2 * k])
    if dt != "complex":
        if not np.allclose(M.imag, 0) or (dt == "int" and not np.allclose(M.real, np.round(M.real))):
            return None
        M = np.round(M.real) if dt == "int" else M.real
    M = np.array(M, dtype=_DTYPES[dt], order=order)
    f0 = (M.dtype.str, M.shape, M.tobytes(), M.flags["C_CONTIGUOUS"])
    L = library_lists()
    res = []
    for rep in (1, 2):
        try:
            out = gops.find_local_clifford_by_matrix(M)
        except ValueError:
            out = None
        if (M.dtype.str, M.shape, M.tobytes(), M.flags["C_CONTIGUOUS"]) != f0:
            return f"lookup #{rep} modified its matrix argument ({dt}, order {order})"
        if clifford:
            if out is None:
                return f"lookup #{rep}: a Clifford matrix given as {dt} array was rejected"
            if list(out) not in L or not RC.equal_up_to_phase(R.wrapper_matrix(names_of(out)), np.array(M, dtype=complex)):
                return f"lookup #{rep} ({dt}): result {names_of(out)} is not the member equal to the matrix up to global phase"
        elif out is not None:
            return f"lookup #{rep}: non-Clifford matrix accepted as {names_of(out)}"
        res.append(None if out is None else list(out))
    if res[0] != res[1]:
        return "two lookups of the same array gave different answers"
    B = gops.local_clifford_to_matrix_map(L[i])
    fb = B.tobytes()
    got = bool(dmf.check_equivalent_unitaries(M, B))
    if (M.dtype.str, M.shape, M.tobytes(), M.flags["C_CONTIGUOUS"]) != f0 or B.tobytes() != fb:
        return "check_equivalent_unitaries modified an argument"
    if got != RC.equal_up_to_phase(np.array(M, dtype=complex), B, 1e-7):
        return f"check_equivalent_unitaries({dt} matrix, member) = {got}"
    return None


def library_words():
    return [names_of(l) for l in library_lists()]


def run(tier, seed):
    if tier == "replay-none":
        return S
    S.check("one_qubit_cliffords.exactly_the_group", [])
    S.check("local_cliffords_name_to_matrix_map.matches_lists", [])
    S.map("simplify_local_clifford.closure_24x24", [[i, j] for i in range(24) for j in range(24)])

    maxlen = 7 if tier == "thorough" else 5
    words = [list(w) for n in range(1, maxlen + 1) for w in itertools.product(["I", "H", "P", "X", "Y", "Z"], repeat=n)]
    B = 64
    S.items["simplify_local_clifford.words"].bound = f"all {len(words)} words over {{I,H,P,X,Y,Z}} of length 1..{maxlen} (batches of {B} per evaluation)"
    S.map("simplify_local_clifford.words", [words[k:k + B] for k in range(0, len(words), B)])

    rng = np.random.default_rng(seed + 20)
    lookups = [["phase", i, float(2 * np.pi * k / 16 + 0.1 * (k % 3))] for i in range(24) for k in range(16)]
    lookups += [["T", i] for i in range(24)]
    lookups += [["rot", i, ax, th] for i in range(24) for ax in range(3) for th in (0.01, 0.3, 0.7853981633974483, 1.0, 2.0, 3.0)]
    lookups += [["haar", int(s)] for s in rng.integers(1 << 30, size=200)]
    lookups += [["scaled", i, c] for i in range(24) for c in (0.5, 1.01, 2.0)]
    lookups += [["singular", 0], ["singular", 1]]
    S.map("find_local_clifford_by_matrix.accepts_phases_rejects_non_clifford", lookups)

    eq = [["pair", i, j, (i + 3 * j) % 8] for i in range(24) for j in range(24)]
    eq += [["lib", i, j] for i in range(24) for j in range(24)]
    eq += [["haar", int(s)] for s in rng.integers(1 << 20, size=100)]
    S.map("check_equivalent_unitaries.lookup_usage", eq)

    try:
        lw = library_words()
    except Exception:  # noqa: BLE001 - enumeration itself broken: reported by the first item; fall back to textbook words
        lw = RC.WORDS24
    allw = lw + RC.EXTRA_WORDS
    S.map("OneQubitGateWrapper.unwrap.reversed", [[w, rt, r] for w in allw for rt in ("e", "p") for r in (0, 1)])
    S.map("wrapper.same_unitary_in_both_backends", [[w, rt, prep] for w in allw for rt in ("e", "p") for prep in ("0", "+", "+i", "bell")])
    S.map("OneQubitGateWrapper.unwrap.noise_constructions", [[w, rt, kd] for w in allw for rt in ("e", "p") for kd in NOISE_KINDS])
    S.map("wrapper.same_unitary_noise_constructions", [[w, rt, prep, kd] for w in allw for rt in ("e", "p") for prep in ("+i", "bell") for kd in NOISE_KINDS[1:]])
    w4 = [list(w) for n in range(1, 5) for w in itertools.product(["I", "H", "P", "X", "Y", "Z"], repeat=n)]
    S.map("simplify_local_clifford.repeat_and_frames", [w4[k:k + 32] for k in range(0, len(w4), 32)])
    fr = [["member", i, k, dt, od] for i in range(24) for k in range(4) for dt, od in (("complex", "C"), ("complex", "F"), ("float", "C"), ("int", "C"))]
    fr += [["rot", i, k, "complex", "C"] for i in (0, 7, 13, 22) for k in range(3)]
    S.map("find_local_clifford_by_matrix.argument_frames", fr)
    return S
