"""C15 - circuits reported equal are equivalent; de-duplication keeps every distinct one  (bounded stand-in, tag [B]).

The REAL comparison functions of graphiq/utils/circuit_comparison.py are called on pairs / lists of real CircuitDAG objects
built from the input's operation lists; every "equal" verdict is checked against the independent oracle
refsem/c15_equiv.py (state vectors on every measurement-outcome branch; up to a renaming of same-type registers for the
isomorphism method).

input (JSON):  pair  {"ra":[ne,np,nc], "a":[op..], "rb":[ne,np,nc], "b":[op..]}
               list  {"circuits":[[regs, [op..]], ...]}  (+ "mode" for the storage item)
op descriptors: see refsem/dagmodel.py
"""
from __future__ import annotations

import itertools

import numpy as np

from vf.bounded import Suite
from refsem import c15_equiv as eq
from bounded.C12 import mk_op

S = Suite("C15")
CC = "graphiq.utils.circuit_comparison:"
METHODS = ["direct", "GED_full", "GED_approximate", "GED_adaptive", "is_isomorphic"]


def build(regs, ops):
    from graphiq.circuit.circuit_dag import CircuitDAG

    c = CircuitDAG(n_emitter=regs[0], n_photon=regs[1], n_classical=regs[2])
    for d in ops:
        c.add(mk_op(d))
    return c


def regs_after(regs, ops):
    """register counts of the circuit built from (regs, ops): add() creates the next free register when an op names it"""
    n = {"e": regs[0], "p": regs[1], "c": regs[2]}
    from refsem import dagmodel as dm

    for d in ops:
        for t, i in dm.qregs(d):
            n[t] = max(n[t], i + 1)
        for c in dm.cregs(d):
            n["c"] = max(n["c"], c + 1)
    return [n["e"], n["p"], n["c"]]


def equivalent(method, ra, a, rb, b):
    ra, rb = regs_after(ra, a), regs_after(rb, b)
    c1, c2 = (ra[0], ra[1], a), (rb[0], rb[1], b)
    return eq.equivalent_renaming(c1, c2) if method == "is_isomorphic" else eq.equivalent_exact(c1, c2)


def call(method, ra, a, rb, b):
    """the real verdict on freshly built circuits (is_isomorphic annotates the graphs it is given)"""
    import graphiq.utils.circuit_comparison as cc

    ca, cb = build(ra, a), build(rb, b)
    if method == "check_redundant_circuit":
        return bool(cc.check_redundant_circuit(ca, cb)), ca, cb
    return bool(cc.compare_circuits(ca, cb, method=method)), ca, cb


def pair_contract(method, inp, symmetric=True):
    ra, a, rb, b = inp["ra"], inp["a"], inp["rb"], inp["b"]
    r_ab, ca, cb = call(method, ra, a, rb, b)
    if r_ab:
        if ca.register != cb.register:
            return f"{method}: reported equal but registers differ: {ca.register} vs {cb.register}"
        if not equivalent("direct" if method == "check_redundant_circuit" else method, ra, a, rb, b):
            kind = "up to renaming of same-type registers" if method == "is_isomorphic" else "exactly"
            return f"{method}: reported equal but the compiled states differ on some outcome branch ({kind})"
    if symmetric:
        r_ba, _, _ = call(method, rb, b, ra, a)
        if r_ab != r_ba:
            return f"{method}: compare(a,b) = {r_ab} but compare(b,a) = {r_ba}"
    return None


def make_pair_item(method, bound, symmetric=True):
    site = CC + ("check_redundant_circuit" if method == "check_redundant_circuit" else f"compare_circuits(method={method!r})")

    def checker(inp, _m=method, _s=symmetric):
        return pair_contract(_m, inp, symmetric=_s and not inp.get("approx"))

    checker.__name__ = f"pair_{method}"
    checker.__qualname__ = checker.__name__
    globals()[checker.__name__] = checker  # top-level name: the pool pickles checkers by name
    S.item(
        f"{method}.sound_symmetric" if symmetric else f"{method}.sound",
        site=site,
        bound=bound,
        clause="reported equal => same registers and same compiled state on every outcome branch"
        + (" up to renaming of same-type registers" if method == "is_isomorphic" else "")
        + ("; symmetric" if symmetric else ""),
    )(checker)


FAST = (
    "all unordered pairs (both directions evaluated) of the enumerated circuits of <= 2 ops over ALPHA on (2e,2p,1c) "
    "[quick: 13(+1)-op alphabet, 183 (211) circuits; thorough: 22(+1)-op alphabet, 507 (553) circuits] + near-miss pairs (role swap, gate change, wrapper reversal / wrapper gate change, "
    "register move, drop, duplicate, adjacent swap, renaming, wrapping, identity padding, different register counts) of "
    "seeded random circuits of <= 6 ops on <= (3e,2p,2c) [quick 200 bases, thorough 4000]"
)
SLOW = (
    "all unordered pairs of circuits of <= 1 op and a seeded sample of pairs of <= 2 ops over an 8-op alphabet on (1e,1p,1c) "
    "and (2e,1p,0c) [quick 30 pairs, thorough 400], the 166 fixed near-miss pairs ged_targeted() (role swap / class change / "
    "gate change of every 'one-qubit op + two-qubit op' circuit), seeded near-miss pairs of 2-op circuits; the networkx optimisers run with "
    "graphiq's own time-outs"
)
make_pair_item("direct", FAST + "; thorough: also all unordered pairs of the 259 circuits of <= 3 ops over ALPHA3 on (2e,0p,0c)")
make_pair_item("check_redundant_circuit", FAST + " (quick: every sixth enumerated pair)")
make_pair_item(
    "is_isomorphic",
    FAST + "; plus all unordered pairs of those of the 259 circuits of <= 3 ops over ALPHA3 on (2e,0p,0c) that have no parallel "
    "DAG edges.  Restricted by construction so that the known findings C15-iso-classical-roles / C15-iso-parallel-edges "
    "cannot be hit: classically controlled pairs only between registers of different type, and (seeded part, ALPHA3 part) no "
    "circuit in which two operations are adjacent on two wires; those classes are driven by the fixed items "
    "is_isomorphic.classical_control_roles / is_isomorphic.parallel_edges.  Seeded part also restricted against C15-iso-wire-crossing: no pair in which a "
    "CNOT/CZ between same-type registers of one circuit could be matched to one of the other with its outgoing wires exchanged (cross_risk); fixed item "
    "is_isomorphic.wire_crossing",
)
APPROX_NOTE = (
    "the approximate optimiser returns the cost of the first edit path it finds, which depends on the node order: equal circuits "
    "whose nodes were created in a different order can be reported different (a missed equality by design), so only soundness "
    "(and reflexivity on copies) is demanded of it, not symmetry / insensitivity"
)
make_pair_item("GED_approximate", SLOW.replace("quick 30 pairs", "quick 800 pairs") + "; " + APPROX_NOTE, symmetric=False)
make_pair_item("GED_full", SLOW)
make_pair_item(
    "GED_adaptive",
    SLOW + "; plus circuits of >= 30 nodes (approximate branch; soundness only there) against copies and near misses [quick 3, thorough 6]",
)


@S.item(
    "compare.reflexive_on_copies",
    site=CC + "compare_circuits / CircuitDAG.compare",
    bound="every enumerated circuit and every random base circuit of the pair items, all 5 methods (GED methods on the small "
    "registers only) + check_redundant_circuit: compare(c, c.copy()) through CircuitDAG.compare",
    clause="reflexive on copies",
)
def reflexive_case(inp):
    import graphiq.utils.circuit_comparison as cc

    for m in inp["methods"]:
        c = build(inp["ra"], inp["a"])
        if m == "check_redundant_circuit":
            r = cc.check_redundant_circuit(c, c.copy())
        else:
            r = c.compare(c.copy(), method=m)
        if not r:
            return f"{m}: a circuit is reported different from its own copy"
    return None


def wrap_ops(ops):
    """each maximal run of list-adjacent one-qubit gates on the same register becomes one wrapper (latest first)"""
    out = []
    for d in ops:
        if d[0] in ("g", "w"):
            lst = [d[1]] if d[0] == "g" else list(d[1])
            q = d[2]
            if out and out[-1][0] == "w" and out[-1][2] == q and out[-1][-1] == "_run":
                out[-1][1] = lst + out[-1][1]
            else:
                out.append(["w", lst, q, "_run"])
        else:
            out.append(d)
    return [d[:3] if d[-1] == "_run" else d for d in out]


def pad_ops(ops, regs):
    """identity gates (bare and inside wrappers) sprinkled in"""
    Q = [["e", i] for i in range(regs[0])] + [["p", i] for i in range(regs[1])]
    out = []
    for i, d in enumerate(ops):
        if Q:
            out.append(["g", "I", Q[i % len(Q)]])
        if d[0] == "g":
            out.append(["w", ["I", d[1]] if i % 2 else [d[1], "I"], d[2]])
        else:
            out.append(d)
    if Q:
        out.append(["w", ["I", "I"], Q[-1]])
    return out


@S.item(
    "compare.insensitive_to_wrapping_and_identities",
    site=CC + "direct / ged / check_redundant_circuit / remove_redundant_circuits",
    bound="pairs (a,b) of the near-miss domain (every 6th pair in quick, every 3rd in thorough): verdict(a,b) = verdict(wrap(a),b) = verdict(a,pad(b)) and verdict(a,wrap(a)) = "
    "verdict(a,pad(a)) = equal, for direct, check_redundant_circuit (+ GED_full on every 6th (thorough 2nd) pair of ged_targeted() and every 12th (3rd) small-register circuit against itself); "
    "remove_redundant_circuits([a, wrap(a), pad(a)]) keeps one (only for a without parallel DAG edges and without same-type "
    "classically controlled pairs - known findings C15-iso-*).  The bare is_isomorphic method compares wrappers as they stand "
    "(its de-duplication front end unwraps first) and is not asked for insensitivity; nor is GED_approximate (see its bound)",
    clause="insensitive to wrapping of single-qubit gates and to identity gates",
)
def insensitive_case(inp):
    import graphiq.utils.circuit_comparison as cc

    ra, a, rb, b = inp["ra"], inp["a"], inp["rb"], inp["b"]
    wa, pa, pb = wrap_ops(a), pad_ops(a, ra), pad_ops(b, rb)
    for m in inp["methods"]:
        base, _, _ = call(m, ra, a, rb, b)
        for nm, (x, y) in {"wrap(a),b": (wa, b), "a,pad(b)": (a, pb), "pad(a),b": (pa, b)}.items():
            r, _, _ = call(m, ra, x, rb, y)
            if r != base:
                return f"{m}: verdict(a,b) = {base} but verdict({nm}) = {r}"
        for nm, y in {"wrap(a)": wa, "pad(a)": pa}.items():
            r, _, _ = call(m, ra, a, ra, y)
            if not r:
                return f"{m}: a and {nm} are reported different"
    if inp.get("dedup"):
        lst = [build(ra, a), build(ra, wa), build(ra, pa)]
        kept = cc.remove_redundant_circuits(lst)
        if len(kept) != 1:
            return f"remove_redundant_circuits([a, wrap(a), pad(a)]) kept {len(kept)} circuits"
    return None


def list_contract(kept, circuits, descs, relation):
    """kept must be a sub-sequence of circuits (same objects, same order) and every dropped circuit must be equivalent
    (relation) to a kept one"""
    pos = []
    for k in kept:
        idx = [i for i, c in enumerate(circuits) if c is k]
        if len(idx) != 1:
            return "a kept circuit is not one of the given circuit objects"
        pos.append(idx[0])
    if pos != sorted(set(pos)):
        return f"kept circuits are not a sub-sequence of the input: positions {pos}"
    for i, (regs, ops) in enumerate(descs):
        if i in pos:
            continue
        if not any(equivalent(relation, regs, ops, descs[j][0], descs[j][1]) for j in pos):
            return f"circuit #{i} was dropped although it is inequivalent to every kept circuit (kept positions {pos})"
    return None


LISTS = (
    "lists of 2-4 circuits drawn from near-miss families (base, renamed, wrapped, padded, role-swapped, gate-changed, "
    "re-ordered, other register count) of the enumerated 2-op circuits and of seeded random circuits [quick 1500 lists, "
    "thorough 15000] + all ordered pairs and triples of a 12-circuit set"
)


@S.item(
    "remove_redundant_circuits.keeps_every_distinct",
    site=CC + "remove_redundant_circuits",
    bound=LISTS + "; restricted by construction (no classically controlled pair between same-type registers, no circuit with "
    "parallel DAG edges, no two list members that admit a wire crossing - cross_risk) so that the known findings C15-iso-* cannot be hit; those classes: "
    "items *.classical_control_roles, *.parallel_edges, *.wire_crossing",
    clause="removing redundant circuits never discards a circuit inequivalent (up to register renaming) to every circuit kept",
)
def dedup_case(inp):
    import graphiq.utils.circuit_comparison as cc

    descs = inp["circuits"]
    circuits = [build(r, o) for r, o in descs]
    kept = cc.remove_redundant_circuits(circuits)
    return list_contract(kept, circuits, descs, "is_isomorphic")


@S.item(
    "CircuitStorage.keeps_every_distinct",
    site=CC + "CircuitStorage.add_new_circuit / is_redundant / check_redundant_circuit",
    bound=LISTS + "; modes: default check function (exact equivalence demanded), disable_circuit_comparison=True (everything "
    "kept), custom check_function=is_isomorphic comparison (equivalence up to renaming demanded; lists restricted as for "
    "remove_redundant_circuits.keeps_every_distinct)",
    clause="refusing to store a redundant circuit never discards a circuit inequivalent to every circuit kept",
)
def storage_case(inp):
    import graphiq.utils.circuit_comparison as cc

    descs = inp["circuits"]
    mode = inp.get("mode", "default")
    circuits = [build(r, o) for r, o in descs]
    if mode == "default":
        st = cc.CircuitStorage()
    elif mode == "disabled":
        st = cc.CircuitStorage(disable_circuit_comparison=True)
    else:
        st = cc.CircuitStorage(check_function=lambda x, y: cc.compare_circuits(x, y, method="is_isomorphic"))
    for i, c in enumerate(circuits):
        before = list(st.circuit_list)
        red = st.is_redundant(c) if mode != "disabled" else False
        ok = st.add_new_circuit(c)
        after = st.circuit_list
        if ok:
            if len(after) != len(before) + 1 or after[-1] is not c or any(x is not y for x, y in zip(before, after)):
                return f"add_new_circuit(#{i}) returned True but the stored list is not the old list plus the circuit"
        else:
            if len(after) != len(before) or any(x is not y for x, y in zip(before, after)):
                return f"add_new_circuit(#{i}) returned False but the stored list changed"
        if mode == "disabled" and not ok:
            return f"comparison disabled but circuit #{i} was refused"
        if mode != "disabled" and bool(red) == bool(ok):
            return f"is_redundant(#{i}) = {red} but add_new_circuit returned {ok}"
    return list_contract(st.circuit_list, circuits, descs, "direct" if mode == "default" else "is_isomorphic")


ROLE_PAIRS = [
    {"ra": [2, 0, 1], "a": [["g", "H", ["e", 0]], [k, ["e", 0], ["e", 1], 0]], "rb": [2, 0, 1], "b": [["g", "H", ["e", 0]], [k, ["e", 1], ["e", 0], 0]]}
    for k in ("ccx", "ccz", "mcr")
] + [
    {"ra": [0, 2, 1], "a": [["g", "H", ["p", 0]], ["ccx", ["p", 0], ["p", 1], 0]], "rb": [0, 2, 1], "b": [["g", "H", ["p", 0]], ["ccx", ["p", 1], ["p", 0], 0]]},
    # the same with consistent roles (renaming e0<->e1): genuinely equivalent, must pass whatever the verdict
    {"ra": [2, 0, 1], "a": [["g", "H", ["e", 0]], ["ccx", ["e", 0], ["e", 1], 0]], "rb": [2, 0, 1], "b": [["g", "H", ["e", 1]], ["ccx", ["e", 1], ["e", 0], 0]]},
    {"ra": [2, 0, 1], "a": [["g", "X", ["e", 0]], ["mcr", ["e", 0], ["e", 1], 0]], "rb": [2, 0, 1], "b": [["g", "X", ["e", 0]], ["mcr", ["e", 0], ["e", 1], 0]]},
]


@S.item(
    "is_isomorphic.classical_control_roles",
    site=CC + "circuit_is_isomorphic / _create_edge_control_target_attr",
    bound="fixed sample, seed-independent (touches known finding C15-iso-classical-roles): 6 fixed pairs: H on one register followed by a classically controlled pair (ClassicalCNOT, ClassicalCZ, "
    "MeasurementCNOTandReset) between two registers of the same type, control/target exchanged (4) or kept (2)",
    exhaustive=True,
    clause="reported equal => same compiled state up to renaming (control/target roles of classically controlled operations)",
)
def roles_case(inp):
    return pair_contract("is_isomorphic", inp)


@S.item(
    "remove_redundant_circuits.classical_control_roles",
    site=CC + "remove_redundant_circuits",
    bound="fixed sample, seed-independent (touches known finding C15-iso-classical-roles): the 4 role-exchanged pairs of "
    "is_isomorphic.classical_control_roles as two-element lists",
    exhaustive=True,
    clause="never discards a circuit inequivalent to every circuit kept (classically controlled operations)",
)
def roles_dedup_case(inp):
    return dedup_case({"circuits": [[inp["ra"], inp["a"]], [inp["rb"], inp["b"]]]})


# Open finding #2 (C15.findings.md): circuit_is_isomorphic looks at one of several parallel edges only.  While it is open,
# circuits with parallel edges are driven through the dedicated items below and kept out of the large is_isomorphic domains
# (set to False once /repo is repaired to widen the domains again).
EXCLUDE_PARALLEL = True


def has_parallel(ops):
    """two operations adjacent on two (or more) wires of the reduced (unwrapped, identity-free) circuit built with add()"""
    from refsem import dagmodel as dm
    from refsem.metrics import reduce_ops

    red, _ = reduce_ops(ops)
    m = dm.WireModel(4, 4, 4)
    for d in red:
        m.add(d)
    seen = set()
    for w in m.wires.values():
        for a, b in zip(w, w[1:]):
            if (a, b) in seen:
                return True
            seen.add((a, b))
    return False


# Open finding #3 (C15.findings.md): circuit_is_isomorphic tags an edge with the role of its register at the HEAD operation only, so a register can
# change its identity at a two-register gate between same-type registers ("wire crossing").  While it is open the seeded is_isomorphic-type domains
# exclude, by the syntactic criterion below, every pair of circuits in which such a crossing is locally possible; the class is driven by the fixed items
# *.wire_crossing and is_isomorphic.history_edit_compare.
def _out_sigs(ops):
    """for every CNOT/CZ between two registers of the same type: (class, signature of the edge leaving on the control register, ... on the target
    register); signature = (tag the real code puts on that edge, what the head node looks like to node_match)"""
    from refsem import dagmodel as dm

    out = []
    for i, d in enumerate(ops):
        if d[0] not in ("cx", "cz") or d[1][0] != d[2][0]:
            continue
        sig = []
        for role, reg in (("c", tuple(d[1])), ("t", tuple(d[2]))):
            nxt = next((e for e in ops[i + 1:] if reg in dm.qregs(e)), None)
            if nxt is None:
                sig.append((role, ("Output",)))  # the last edge of a wire is tagged with the role in the last operation
                continue
            tag = None
            if nxt[0] in ("cx", "cz"):
                tag = "c" if tuple(nxt[1]) == reg else "t"
            head = (nxt[0], nxt[1] if nxt[0] == "g" else tuple(nxt[1]) if nxt[0] == "w" else None, tuple(t for t, _ in dm.qregs(nxt)))
            sig.append((tag, head))
        out.append((d[0], sig[0], sig[1]))
    return out


def cross_risk(a, b):
    """some same-type CNOT/CZ of a and one of b could be matched with their outgoing wires exchanged (necessary for a wire-crossing isomorphism);
    judged on the circuits as given and on their unwrapped, identity-free forms (the de-duplication front ends unwrap first)"""
    from refsem.metrics import reduce_ops

    for x, y in ((a, b), (reduce_ops(a)[0], reduce_ops(b)[0])):
        sb = _out_sigs(y)
        for ga, c1, t1 in _out_sigs(x):
            if any(ga == gb and c1 == t2 and t1 == c2 for gb, c2, t2 in sb):
                return True
    return False


def any_cross_risk(circs):
    return any(cross_risk(x[1], y[1]) for i, x in enumerate(circs) for y in circs[i + 1:])


def _e(i):
    return ["e", i]


PARALLEL_PAIRS = [
    # role-exchanged second gate of two consecutive two-qubit gates on the same register pair: inequivalent
    {"ra": [2, 0, 0], "a": [["g", "H", _e(1)], ["cx", _e(0), _e(1)], ["cx", _e(0), _e(1)]], "rb": [2, 0, 0], "b": [["g", "H", _e(1)], ["cx", _e(0), _e(1)], ["cx", _e(1), _e(0)]]},
    {"ra": [2, 0, 0], "a": [["g", "H", _e(0)], ["cx", _e(1), _e(0)], ["cx", _e(1), _e(0)], ["g", "P", _e(0)]], "rb": [2, 0, 0], "b": [["g", "H", _e(0)], ["cx", _e(1), _e(0)], ["cx", _e(0), _e(1)], ["g", "P", _e(0)]]},
    {"ra": [0, 2, 0], "a": [["g", "H", ["p", 1]], ["cx", ["p", 0], ["p", 1]], ["cx", ["p", 0], ["p", 1]]], "rb": [0, 2, 0], "b": [["g", "H", ["p", 1]], ["cx", ["p", 0], ["p", 1]], ["cx", ["p", 1], ["p", 0]]]},
    # the same circuits against themselves / a renamed copy: equivalent, must pass whatever the verdict
    {"ra": [2, 0, 0], "a": [["g", "H", _e(1)], ["cx", _e(0), _e(1)], ["cx", _e(1), _e(0)]], "rb": [2, 0, 0], "b": [["g", "H", _e(0)], ["cx", _e(1), _e(0)], ["cx", _e(0), _e(1)]]},
]
_CZ2 = [["cz", _e(1), _e(0)], ["cz", _e(1), _e(0)]]
PARALLEL_LISTS = [
    {"circuits": [[[2, 0, 0], PARALLEL_PAIRS[0]["a"]], [[2, 0, 0], PARALLEL_PAIRS[0]["b"]]], "expect_kept": 2},
    {"circuits": [[[0, 2, 0], PARALLEL_PAIRS[2]["a"]], [[0, 2, 0], PARALLEL_PAIRS[2]["b"]]], "expect_kept": 2},
    # a circuit and the same circuit with an identity between the two gates: one must go
    {"circuits": [[[2, 0, 0], _CZ2], [[2, 0, 0], [_CZ2[0], ["g", "I", _e(1)], _CZ2[1]]]], "expect_kept": 1},
    {"circuits": [[[2, 0, 0], [["cx", _e(0), _e(1)], ["cx", _e(0), _e(1)]]], [[2, 0, 0], [["cx", _e(0), _e(1)], ["w", ["I"], _e(0)], ["cx", _e(0), _e(1)]]]], "expect_kept": 1},
]


@S.item(
    "is_isomorphic.parallel_edges",
    site=CC + "circuit_is_isomorphic (edge_match)",
    bound="fixed sample, seed-independent (touches known finding C15-iso-parallel-edges): 4 fixed pairs of circuits in which two consecutive two-qubit gates act on the same register pair (parallel DAG "
    "edges); second gate with exchanged roles (3, inequivalent) / consistently renamed (1, equivalent)",
    exhaustive=True,
    clause="reported equal => same compiled state up to renaming (parallel edges)",
)
def parallel_case(inp):
    return pair_contract("is_isomorphic", inp)


@S.item(
    "remove_redundant_circuits.parallel_edges",
    site=CC + "remove_redundant_circuits",
    bound="fixed sample, seed-independent (touches known finding C15-iso-parallel-edges): 4 fixed two-element lists with parallel DAG edges: 2 with inequivalent members (both must stay), 2 whose members differ "
    "by an identity gate only (one must go)",
    exhaustive=True,
    clause="never discards a distinct circuit; insensitive to identity gates (parallel edges)",
)
def parallel_dedup_case(inp):
    import graphiq.utils.circuit_comparison as cc

    s = dedup_case({"circuits": inp["circuits"]})
    if s:
        return s
    kept = cc.remove_redundant_circuits([build(r, o) for r, o in inp["circuits"]])
    if len(kept) != inp["expect_kept"]:
        return f"{len(kept)} circuits kept, {inp['expect_kept']} expected (the members differ by an identity gate only)"
    return None


def wire_cross_pairs():
    """a two-register gate G1 between two registers of the same type, then a one-qubit gate on ONE of its wires, then a second gate G2; in b the tail after
    G1 sits on the other wire (one-qubit gate moved, G2's roles exchanged).  Prefixes make the two registers distinguishable.  (+ 3 genuinely equivalent pairs)"""
    out = []
    x, y = _e(0), _e(1)
    for prefix in ([["g", "H", x]], [["g", "Y", y]], [["g", "H", x], ["g", "P", y]]):
        for g1 in ("cx", "cz"):
            for g2 in ("cx", "cz"):
                a = prefix + [[g1, x, y], ["g", "H", y], [g2, y, x]]
                b = prefix + [[g1, x, y], ["g", "H", x], [g2, x, y]]
                out.append({"ra": [2, 0, 0], "a": a, "rb": [2, 0, 0], "b": b})
    p0, p1 = ["p", 0], ["p", 1]
    out.append({"ra": [0, 2, 0], "a": [["g", "H", p0], ["cx", p0, p1], ["g", "P", p1], ["cx", p1, p0]], "rb": [0, 2, 0], "b": [["g", "H", p0], ["cx", p0, p1], ["g", "P", p0], ["cx", p0, p1]]})
    # consistently renamed / identical: equivalent, must pass whatever the verdict
    a = [["g", "H", x], ["cx", x, y], ["g", "H", y], ["cx", y, x]]
    out.append({"ra": [2, 0, 0], "a": a, "rb": [2, 0, 0], "b": eq.rename(a, {"e": [1, 0], "p": []})})
    out.append({"ra": [2, 0, 0], "a": a, "rb": [2, 0, 0], "b": a})
    a = [["g", "Y", y], ["cz", x, y], ["g", "H", y], ["cx", y, x]]
    out.append({"ra": [2, 0, 0], "a": a, "rb": [2, 0, 0], "b": eq.rename(a, {"e": [1, 0], "p": []})})
    return out


@S.item(
    "is_isomorphic.wire_crossing",
    site=CC + "circuit_is_isomorphic / _create_edge_control_target_attr (edge tag = role of the wire at the HEAD operation only)",
    bound="fixed sample, seed-independent (touches known finding C15-iso-wire-crossing): 16 fixed pairs of 4-5-op circuits on two registers of the same type, without "
    "parallel DAG edges and without classically controlled operations: prefix, gate G1 on both registers, a one-qubit gate on one wire, gate G2; second circuit: "
    "the part after G1 moved to the other wire (13, in general inequivalent) / consistently renamed or identical (3, equivalent)",
    exhaustive=True,
    clause="reported equal => same compiled state up to renaming of same-type registers (a register keeps its identity through a two-register gate)",
)
def wire_cross_case(inp):
    return pair_contract("is_isomorphic", inp)


@S.item(
    "remove_redundant_circuits.wire_crossing",
    site=CC + "remove_redundant_circuits",
    bound="fixed sample, seed-independent (touches known finding C15-iso-wire-crossing): the 16 pairs of is_isomorphic.wire_crossing as two-element lists",
    exhaustive=True,
    clause="never discards a circuit inequivalent to every circuit kept (a register keeps its identity through a two-register gate)",
)
def wire_cross_dedup_case(inp):
    return dedup_case({"circuits": [[inp["ra"], inp["a"]], [inp["rb"], inp["b"]]]})


ALPHA3 = [["g", "H", _e(0)], ["g", "H", _e(1)], ["g", "P", _e(0)], ["cx", _e(0), _e(1)], ["cx", _e(1), _e(0)], ["cz", _e(0), _e(1)]]

def wire_view(regs, ops):
    """per-register sequences of (class, q_registers, q_registers_type, c_registers) of the circuit built with add(),
    from the independent wire model"""
    from refsem import dagmodel as dm

    m = dm.WireModel(*regs)
    for d in ops:
        m.add(d)
    return (dict(m.n), {k: [dm.norm(m.ops[u]) for u in w] for k, w in m.wires.items()})


@S.item(
    "direct.order_on_every_wire",
    site=CC + "direct / CircuitDAG.compare(method='direct') / check_redundant_circuit / CircuitStorage.add_new_circuit",
    bound="fixed, seed-independent exhaustive family: every unordered pair (both directions evaluated) of gate sequences of length "
    "2..3 with the SAME gate multiset, drawn from (A) CNOT on the 6 ordered pairs + CZ on the 3 pairs of 3 emitters, (B) 6 "
    "CNOT/CZ gates + H e1 on (2e,1p), (C) measure-reset e0->p0, e1->p0, ClassicalCNOT e0->e1, e1->e0, CNOT e0->e1, e1->p0, "
    "CZ e0-p0 on (2e,1p,1c); 4.4 k pairs (thorough: + CNOT and CZ on all 6 ordered pairs + H e0 on 3 emitters)",
    exhaustive=True,
    clause="reported equal exactly when, on EVERY register's wire, the sequence of (class, q_registers, q_registers_type, "
    "c_registers) is the same in both circuits (multi-register gates in a different order on a later-walked wire); symmetric; "
    "same verdict through compare(), check_redundant_circuit and CircuitStorage",
)
def order_case(inp):
    import graphiq.utils.circuit_comparison as cc

    regs, a, b = inp["regs"], inp["a"], inp["b"]
    want = wire_view(regs, a) == wire_view(regs, b)
    got = {}
    got["compare(a,b,'direct')"] = bool(build(regs, a).compare(build(regs, b), method="direct"))
    got["compare(b,a,'direct')"] = bool(build(regs, b).compare(build(regs, a), method="direct"))
    got["check_redundant_circuit(a,b)"] = bool(cc.check_redundant_circuit(build(regs, a), build(regs, b)))
    st = cc.CircuitStorage()
    first = st.add_new_circuit(build(regs, a))
    second = st.add_new_circuit(build(regs, b))
    if not first:
        return "CircuitStorage refused the first circuit"
    got["CircuitStorage refuses b after a"] = not second
    bad = {k: v for k, v in got.items() if v != want}
    if bad:
        sem = equivalent("direct", regs, a, regs, b)
        return (
            f"wires {'agree' if want else 'differ on some register'} (compiled states {'equal' if sem else 'differ'}) but "
            + ", ".join(f"{k} = {v}" for k, v in bad.items())
        )
    return None


@S.item(
    "direct.two_digit_registers",
    site=CC + "direct / check_redundant_circuit / CircuitStorage.add_new_circuit ; graphiq.circuit.circuit_dag:CircuitDAG.edge_from_reg",
    bound="fixed, seed-independent family: all unordered pairs (both directions evaluated) of 20 circuits of <= 3 ops on (1 emitter, 12 photons) that touch the photons "
    "1, 2, 10, 11 (register names 'p1' / 'p10' / 'p11': one name is a prefix of the other), and the same family with the roles of emitters and photons exchanged "
    "(12 emitters, 1 photon); 420 pairs; exact oracle on 13 qubits",
    exhaustive=True,
    clause="reported equal => same registers and same compiled state (exactly); reported equal exactly when every register's wire carries the same operations; "
    "same verdict through compare(), check_redundant_circuit and CircuitStorage - with register indices >= 10",
)
def two_digit_case(inp):
    import graphiq.utils.circuit_comparison as cc

    regs, a, b = inp["regs"], inp["a"], inp["b"]
    wires = wire_view(regs, a) == wire_view(regs, b)
    got = {}
    got["compare(a,b,'direct')"] = bool(build(regs, a).compare(build(regs, b), method="direct"))
    got["compare(b,a,'direct')"] = bool(build(regs, b).compare(build(regs, a), method="direct"))
    got["check_redundant_circuit(a,b)"] = bool(cc.check_redundant_circuit(build(regs, a), build(regs, b)))
    st = cc.CircuitStorage()
    st.add_new_circuit(build(regs, a))
    got["CircuitStorage refuses b after a"] = not st.add_new_circuit(build(regs, b))
    if any(got.values()) and not equivalent("direct", regs, a, regs, b):
        return "reported equal (" + ", ".join(k for k, v in got.items() if v) + ") but the compiled states differ"
    bad = {k: v for k, v in got.items() if v != wires}
    if bad:
        return f"wires {'agree' if wires else 'differ on some register'} but " + ", ".join(f"{k} = {v}" for k, v in bad.items())
    return None


def two_digit_domain():
    out = []
    for big in ("p", "e"):
        small = "e" if big == "p" else "p"
        regs = [1, 12, 0] if big == "p" else [12, 1, 0]
        s0 = [small, 0]
        B = lambda i: [big, i]  # noqa: E731
        circs = []
        for i in (1, 10, 11, 2):
            circs += [[["g", "H", B(i)]], [["cx", s0, B(i)]], [["g", "H", s0], ["cx", s0, B(i)], ["g", "H", B(i)]]]
        circs += [[["cx", s0, B(1)], ["cx", s0, B(10)]], [["cx", s0, B(10)], ["cx", s0, B(1)]], [["cx", s0, B(1)], ["cx", s0, B(11)]], [["cz", B(1), B(10)]],
                  [["cz", B(10), B(1)]], [["cz", B(1), B(11)]], [["cx", B(10), B(1)]], [["cx", B(1), B(10)]]]
        out += [{"regs": regs, "a": a, "b": b} for i, a in enumerate(circs) for b in circs[i:]]
    return out


def order_family(regs, symbols, lengths=(2, 3)):
    """all unordered pairs of sequences over `symbols` with the same multiset"""
    groups = {}
    for L in lengths:
        for t in itertools.product(range(len(symbols)), repeat=L):
            groups.setdefault(tuple(sorted(t)), []).append(t)
    out = []
    for g in groups.values():
        for i, x in enumerate(g):
            for y in g[i:]:
                out.append({"regs": list(regs), "a": [symbols[k] for k in x], "b": [symbols[k] for k in y]})
    return out


def order_domain(thorough):
    e0, e1, e2, p0 = ["e", 0], ["e", 1], ["e", 2], ["p", 0]
    E = [e0, e1, e2]
    A = [["cx", x, y] for x in E for y in E if x != y] + [["cz", E[i], E[j]] for i in range(3) for j in range(i + 1, 3)]
    B = [["cx", e0, e1], ["cx", e1, e0], ["cx", e0, p0], ["cx", e1, p0], ["cz", e0, e1], ["cz", e1, p0], ["g", "H", e1]]
    C = [["mcr", e0, p0, 0], ["mcr", e1, p0, 0], ["ccx", e0, e1, 0], ["ccx", e1, e0, 0], ["cx", e0, e1], ["cx", e1, p0], ["cz", e0, p0]]
    dom = order_family((3, 0, 0), A) + order_family((2, 1, 0), B) + order_family((2, 1, 1), C)
    if thorough:
        A2 = [[k, x, y] for k in ("cx", "cz") for x in E for y in E if x != y] + [["g", "H", e0]]
        seen = {vfkey(d) for d in dom}
        dom += [d for d in order_family((3, 0, 0), A2) if vfkey(d) not in seen]
    return dom


def vfkey(d):
    import json

    return json.dumps(d, sort_keys=True)


# ---------------------------------------------------------------------------------------------- histories: compare - edit - compare
def build_nodes(regs, ops):
    """like build(); also returns the node id of every operation (node ids survive copy())"""
    from graphiq.circuit.circuit_dag import CircuitDAG

    c = CircuitDAG(n_emitter=regs[0], n_photon=regs[1], n_classical=regs[2])
    nodes = []
    for d in ops:
        o = mk_op(d)
        c.add(o)
        nodes.append(node_of(c, o))
    return c, nodes


def node_of(c, obj):
    hit = [nd for nd in c.dag.nodes if c.dag.nodes[nd].get("op") is obj]
    if len(hit) != 1:
        raise AssertionError("harness: operation object not found exactly once in the DAG")
    return hit[0]


def content(c):
    """observable content of a circuit: operation sequence, node ids, edge keys, node / edge dictionaries, registers, compiled state
    (edge DATA is left out: circuit_is_isomorphic annotates the edges of the circuits it is given, by design)"""
    from bounded.C12 import real_desc
    from bounded.C01 import compile_traced, snapshot

    out = {
        "operation sequence": [repr(real_desc(op)) for op in c.sequence()],
        "node set": sorted(repr(n) for n in c.dag.nodes),
        "edge set": sorted(repr((u, v, k)) for u, v, k in c.dag.edges(keys=True)),
        "node_dict": sorted((repr(k), sorted(repr(x) for x in v)) for k, v in c.node_dict.items() if v),
        "edge_dict": sorted((repr(k), sorted(repr(x) for x in v)) for k, v in c.edge_dict.items() if v),
        "registers": repr(c.register),
    }
    st, _ = compile_traced(c, "stabilizer", 1)
    out["compiled state"] = [np.asarray(x).tolist() for x in snapshot(st.rep_data)]
    return out


def content_diff(x, y):
    for k in x:
        if x[k] != y[k]:
            return k
    return None


def apply_steps(c, nodes, desc, steps):
    """edits through the public CircuitDAG methods; returns the descriptor list (program order) of the edited circuit"""
    desc = [d for d in desc]
    nodes = list(nodes)
    for st in steps:
        if st[0] == "add":
            o = mk_op(st[1])
            c.add(o)
            if nodes is not None:
                nodes.append(node_of(c, o))
            desc.append(st[1])
        elif st[0] == "remove":
            i = st[1]
            c.remove_op(nodes[i])
            del nodes[i], desc[i]
        elif st[0] == "replace":
            i = st[1]
            c.replace_op(nodes[i], mk_op(st[2]))
            desc[i] = st[2]
        elif st[0] == "unwrap":  # semantics preserved; node ids change, only additions may follow
            c.unwrap_nodes()
            c.remove_identity()
            nodes = None
        else:
            raise ValueError(st)
    return desc


FRONT = ("dedup", "storage", "storage_iso")
RENAMING = ("is_isomorphic", "dedup", "storage_iso")


def new_storage(kind):
    import graphiq.utils.circuit_comparison as cc

    if kind == "storage":
        return cc.CircuitStorage()
    return cc.CircuitStorage(check_function=lambda u, v: cc.compare_circuits(u, v, method="is_isomorphic"))


def verdict(m, x, y):
    """'reported equal' through a comparison method or a de-duplication front end"""
    import graphiq.utils.circuit_comparison as cc

    if m == "check_redundant_circuit":
        return bool(cc.check_redundant_circuit(x, y))
    if m == "dedup":
        kept = cc.remove_redundant_circuits([x, y])
        if not (1 <= len(kept) <= 2 and kept[0] is x and (len(kept) == 1 or kept[1] is y)):
            raise AssertionError("remove_redundant_circuits([x, y]) did not return [x] or [x, y]")
        return len(kept) == 1
    if m in ("storage", "storage_iso"):
        st = new_storage(m)
        if not st.add_new_circuit(x):
            raise AssertionError("an empty CircuitStorage refused a circuit")
        return not st.add_new_circuit(y)
    return bool(cc.compare_circuits(x, y, method=m))


def sound(m, eqv, ca, cb, ra, a, rb, b, when):
    if not eqv:
        return None
    if m not in FRONT and ca.register != cb.register:
        return f"{when}: {m} reported equal but registers differ: {ca.register} vs {cb.register}"
    if not equivalent("is_isomorphic" if m in RENAMING else "direct", ra, a, rb, b):
        kind = "up to renaming of same-type registers" if m in RENAMING else "exactly"
        return f"{when}: {m} reported equal but the compiled states differ on some outcome branch ({kind})"
    return None


HIST_STEPS = (
    "history: compare(a,b) twice - edit both circuits - compare(a',b') twice - compare(a', copy of a'); edits through the public methods: add(); "
    "copy() then add() on the copies; unwrap_nodes()+remove_identity() then add(); remove_op(); replace_op() (CNOT<->CZ, H<->P); the added / replaced "
    "operations are the same on both sides (renamed with the circuit), or differ in control/target direction, gate class or register.  Base pairs: (c,c), "
    "(c, renamed c), (c, near miss) of random circuits of <= 5 ops on <= (3e,2p,2c).  Oracle: refsem/c15_equiv.py on the FINAL circuits.  "
)
HIST = HIST_STEPS + (
    "Seeded [quick 700 histories, thorough 7500]; method histories m1 -> m2 (exact methods only: cannot meet the C15-iso-* findings): direct -> direct, "
    "check_redundant_circuit -> itself, direct -> check_redundant_circuit, CircuitStorage -> itself, ONE CircuitStorage object that is offered copies of "
    "a, b, then of a', b' (list contract over the four); the three GED methods on (1e,1p,1c)/(2e,1p,0c) circuits of <= 1 op + one added op [quick 36, thorough 300]"
)
HIST_ISO = HIST_STEPS + (
    "fixed sample, seed-independent (touches known finding C15-iso-wire-crossing): the first 800 (quick) / 6000 (thorough) histories of a fixed stream; circuits "
    "restricted as is_isomorphic.sound_symmetric (no classically controlled pair between same-type registers, no parallel DAG edges before or after the edit); "
    "method histories m1 -> m2: is_isomorphic -> is_isomorphic / remove_redundant_circuits / CircuitStorage(is_isomorphic) / direct; direct -> is_isomorphic; "
    "remove_redundant_circuits -> itself; ONE CircuitStorage(is_isomorphic) object offered copies of a, b, then of a', b'"
)


@S.item(
    "compare.history_edit_compare",
    site=CC + "compare_circuits / circuit_is_isomorphic / add_control_target_to_dag / direct / ged / check_redundant_circuit / remove_redundant_circuits / CircuitStorage",
    bound=HIST,
    clause="reported equal => same registers and same compiled state (up to renaming for the isomorphism method) - also for circuits that were compared "
    "before and edited since; reflexive on copies after an edit; never discards a distinct circuit; a comparison leaves the circuits' observable content unchanged",
)
def history_case(inp):
    ra, a, rb, b, m1, m2, on = inp["ra"], inp["a"], inp["rb"], inp["b"], inp["m1"], inp["m2"], inp["on"]
    ca, na = build_nodes(ra, a)
    cb, nb = build_nodes(rb, b)
    persist = inp.get("persist")
    store, offered, descs = (new_storage(persist), [], []) if persist else (None, None, None)
    relation = "direct" if persist == "storage" else "is_isomorphic"

    def offer(pairs, when):
        for c, rg, d in pairs:
            x = c.copy()
            offered.append(x)
            descs.append([rg, d])
            store.add_new_circuit(x)
        r = list_contract(store.circuit_list, offered, descs, relation)
        return f"{when}: {r}" if r else None

    k0 = (content(ca), content(cb))
    if persist:
        r = offer(((ca, ra, a), (cb, rb, b)), "one CircuitStorage, first round")
        if r:
            return r
    else:
        for rep in (1, 2):
            r = sound(m1, verdict(m1, ca, cb), ca, cb, ra, a, rb, b, f"first comparison (#{rep})")
            if r:
                return r
    d = content_diff(k0[0], content(ca)) or content_diff(k0[1], content(cb))
    if d:
        return f"the first comparison ({persist or m1}) changed the {d} of a circuit it was given"
    # ---- edit (the registers the circuits had before the edit stay)
    if on == "copy":
        ca, cb = ca.copy(), cb.copy()
    ra2, rb2 = regs_after(ra, a), regs_after(rb, b)
    a2 = apply_steps(ca, na, a, inp["sa"])
    b2 = apply_steps(cb, nb, b, inp["sb"])
    how = f"edit on {'copies' if on == 'copy' else 'the compared circuits'}: {inp['sa']} / {inp['sb']}"
    k1 = (content(ca), content(cb))
    # ---- compare again
    if persist:
        r = offer(((ca, ra2, a2), (cb, rb2, b2)), f"one CircuitStorage, round after the {how}")
        if r:
            return r
    else:
        for rep in (1, 2):
            r = sound(m2, verdict(m2, ca, cb), ca, cb, ra2, a2, rb2, b2, f"comparison #{rep} after the {how}")
            if r:
                return r
        if m2 not in FRONT and not verdict(m2, ca, ca.copy()):
            return f"after the {how}: a circuit is reported different from its own copy by {m2}"
    d = content_diff(k1[0], content(ca)) or content_diff(k1[1], content(cb))
    if d:
        return f"the comparison after the edit ({persist or m2}) changed the {d} of a circuit it was given"
    return None


@S.item(
    "is_isomorphic.history_edit_compare",
    site=CC + "circuit_is_isomorphic / add_control_target_to_dag / remove_redundant_circuits / CircuitStorage(check_function=is_isomorphic)",
    bound=HIST_ISO,
    clause="reported equal => same registers and same compiled state up to renaming of same-type registers - also for circuits that were compared before and "
    "edited since; reflexive on copies after an edit; never discards a distinct circuit; a comparison leaves the circuits' observable content unchanged",
    exhaustive=True,
)
def history_case_iso(inp):
    return history_case(inp)


EXACT_HIST = [("direct", "direct"), ("check_redundant_circuit", "check_redundant_circuit"), ("storage", "storage"), ("direct", "check_redundant_circuit")]
ISO_HIST = [("is_isomorphic", "is_isomorphic"), ("is_isomorphic", "dedup"), ("dedup", "dedup"), ("is_isomorphic", "storage_iso"), ("direct", "is_isomorphic"),
            ("is_isomorphic", "direct"), ("storage_iso", "storage_iso")]


def history_steps(r, regs, ops, b, perm):
    """(steps for a, steps for b): scripted edits; perm renames the b side (identity unless b is a renamed copy)"""
    Q = [["e", i] for i in range(regs[0])] + [["p", i] for i in range(regs[1])]
    ren = lambda d: eq.rename([d], perm)[0]  # noqa: E731
    q = Q[int(r.integers(len(Q)))]
    others = [x for x in Q if x != q]
    t = others[int(r.integers(len(others)))] if others else None
    two = [i for i, d in enumerate(ops) if d[0] in ("cx", "cz")]
    one = [i for i, d in enumerate(ops) if d[0] == "g" and d[1] in ("H", "P")]
    kind = int(r.integers(9))
    pre = [["unwrap"]] if r.random() < 0.2 else []
    if kind in (0, 1) and t is not None:  # control/target direction of the added gate
        g = ["cx", "cz"][kind]
        same = r.random() < 0.35
        return pre + [["add", [g, q, t]]], pre + [["add", ren([g, q, t] if same else [g, t, q])]]
    if kind == 2 and t is not None:  # gate class of the added gate
        same = r.random() < 0.35
        return pre + [["add", ["cx", q, t]]], pre + [["add", ren(["cx" if same else "cz", q, t])]]
    if kind == 3:  # added one-qubit gate: same / other gate / other register
        x = r.random()
        other = ["g", "H", q] if x < 0.35 else (["g", "P", q] if x < 0.7 or t is None else ["g", "H", t])
        return pre + [["add", ["g", "H", q]]], pre + [["add", ren(other)]]
    if kind == 4 and t is not None:  # two additions: one-qubit gate then pair
        return pre + [["add", ["g", "H", q]], ["add", ["cx", q, t]]], pre + [["add", ren(["g", "H", q])], ["add", ren(["cx", t, q] if r.random() < 0.6 else ["cx", q, t])]]
    if kind == 5 and ops:  # removal without insertion, both sides / one side
        i = int(r.integers(len(ops)))
        return [["remove", i]], ([["remove", i]] if r.random() < 0.6 else [])
    if kind == 6 and two:  # replace_op CNOT <-> CZ, both sides / one side
        i = two[int(r.integers(len(two)))]
        d = ops[i]
        new = [{"cx": "cz", "cz": "cx"}[d[0]], d[1], d[2]]
        both = r.random() < 0.5 and len(b) == len(ops) and b[i][0] in ("cx", "cz")
        return [["replace", i, new]], ([["replace", i, [{"cx": "cz", "cz": "cx"}[b[i][0]], b[i][1], b[i][2]]]] if both else [])
    if kind == 7 and one:  # replace_op H <-> P
        i = one[int(r.integers(len(one)))]
        d = ops[i]
        new = ["g", {"H": "P", "P": "H"}[d[1]], d[2]]
        both = r.random() < 0.5 and len(b) == len(ops) and b[i][0] == "g" and b[i][1] in ("H", "P")
        return [["replace", i, new]], ([["replace", i, ["g", {"H": "P", "P": "H"}[b[i][1]], b[i][2]]]] if both else [])
    if ops and t is not None:  # removal then addition
        i = int(r.integers(len(ops)))
        return [["remove", i], ["add", ["cx", q, t]]], [["remove", i], ["add", ren(["cx", t, q] if r.random() < 0.5 else ["cx", q, t])]]
    return pre + [["add", ["g", "P", q]]], pre + [["add", ren(["g", "P", q])]]


def desc_after(desc, steps):
    desc = list(desc)
    for st in steps:
        if st[0] == "add":
            desc.append(st[1])
        elif st[0] == "remove":
            del desc[st[1]]
        elif st[0] == "replace":
            desc[st[1]] = st[2]
    return desc


def history_domain(key, n, combos, iso):
    """the first n histories of the stream generated from the rng key (a prefix of every longer request: quick is a subset of thorough).
    iso=True: circuits restricted as for is_isomorphic.sound_symmetric (known findings C15-iso-classical-roles / -parallel-edges cannot be hit)"""
    r = np.random.default_rng(key)
    out = []
    k = 0
    while len(out) < n:
        base = random_base(r, iso)
        regs, ops = base
        if len(ops) > 5 or (iso and has_parallel(ops)):
            continue
        ident = {"e": list(range(regs[0])), "p": list(range(regs[1]))}
        perm = {"e": [int(x) for x in r.permutation(regs[0])], "p": [int(x) for x in r.permutation(regs[1])]}
        vs = [v for v in variants(r, base, iso)[:-1] if v[0] == regs and not (iso and has_parallel(v[1]))]
        partners = [(ops, ident), (eq.rename(ops, perm), perm)] + ([(vs[int(r.integers(len(vs)))][1], ident)] if vs else [])
        for b, pm in partners:
            sa, sb = history_steps(r, regs, ops, b, pm)
            if len(b) != len(ops):  # near miss with another length: index-based edits only on the a side
                sb = [st for st in sb if st[0] in ("add", "unwrap")]
            try:
                a2, b2 = desc_after(ops, sa), desc_after(b, sb)
            except IndexError:
                continue
            if iso and (has_parallel(a2) or has_parallel(b2)):
                continue
            m1, m2 = combos[k % len(combos)]
            case = {"ra": list(regs), "a": ops, "rb": list(regs), "b": b, "sa": sa, "sb": sb, "m1": m1, "m2": m2, "on": ("same", "copy")[(k // len(combos)) % 2]}
            if m1 == m2 and m1 in ("storage", "storage_iso") and (k // 7) % 2:
                case["persist"] = m1
            out.append(case)
            k += 1
    return out[:n]


def history_ged(key, n_ged):
    r = np.random.default_rng(key)
    ged_cases = []
    for j in range(n_ged):
        rg = list(SMALL_ALPHA)[j % 2]
        A = SMALL_ALPHA[rg]
        base = [A[int(r.integers(len(A)))]] if r.random() < 0.8 else []
        x = A[int(r.integers(len(A)))]
        y = x if r.random() < 0.4 else A[int(r.integers(len(A)))]
        if x[0] in ("cx", "cz") and r.random() < 0.5:
            y = [x[0], x[2], x[1]]
        m = ("GED_full", "GED_adaptive", "GED_approximate")[j % 3]
        ged_cases.append({"ra": list(rg), "a": base, "rb": list(rg), "b": base, "sa": [["add", x]], "sb": [["add", y]], "m1": m, "m2": m, "on": ("same", "copy")[(j // 3) % 2]})
    return ged_cases

# ---------------------------------------------------------------------------------------------- domains
def alpha_fast(thorough, iso):
    """ALPHA: operation alphabet of the enumerated circuits on (2e,2p,1c).  Classically controlled pairs between two registers
    of the same type are offered to the exact methods only (iso=False)"""
    e0, e1, p0, p1 = ["e", 0], ["e", 1], ["p", 0], ["p", 1]
    A = [
        ["g", "H", e0], ["g", "H", e1], ["g", "P", e0], ["g", "I", e1], ["w", ["H", "P"], e1], ["w", ["P", "H"], e1],
        ["mz", e0, 0], ["cx", e0, e1], ["cx", e1, e0], ["cx", e0, p0], ["cx", e1, p1], ["cz", e0, e1], ["mcr", e0, p0, 0],
    ]
    if thorough:
        A += [["g", "H", p0], ["g", "X", p1], ["g", "P", p0], ["w", ["P", "H"], e0], ["mz", p0, 0], ["cx", p0, p1], ["cz", e1, p0],
              ["mcr", e1, p0, 0], ["ccx", e0, p1, 0]]
    if not iso:
        A += [["ccx", e0, e1, 0]]
    return A


def enumerated(A, regs, upto=2):
    return [[list(regs), list(t)] for k in range(upto + 1) for t in itertools.product(A, repeat=k)]


def all_pairs(circs):
    return [{"ra": a[0], "a": a[1], "rb": b[0], "b": b[1]} for i, a in enumerate(circs) for b in circs[i:]]


def random_base(rng, iso):
    regs = [(2, 2, 1), (2, 1, 1), (3, 2, 2), (1, 2, 1), (2, 0, 1)][rng.integers(5)]
    Q = [["e", i] for i in range(regs[0])] + [["p", i] for i in range(regs[1])]
    ops = []
    n_meas = 0
    for _ in range(int(rng.integers(1, 7))):
        x = rng.random()
        q = Q[rng.integers(len(Q))]
        if x < 0.4 or len(Q) < 2:
            ops.append(["g", ["H", "P", "PD", "X", "Y", "Z", "I"][rng.integers(7)], q])
        elif x < 0.55:
            ops.append(["w", [["H", "P"], ["P", "H"], ["X", "H", "I"], ["I"], ["H", "P", "X"]][rng.integers(5)], q])
        elif x < 0.62 and n_meas < 3:
            ops.append(["mz", q, int(rng.integers(regs[2]))])
            n_meas += 1
        else:
            r = Q[rng.integers(len(Q))]
            if r == q:
                continue
            k = ["cx", "cx", "cz", "ccx", "ccz", "mcr"][rng.integers(6)]
            if k in ("ccx", "ccz", "mcr"):
                if n_meas >= 3 or (iso and q[0] == r[0]):
                    k = "cx"
                else:
                    n_meas += 1
            ops.append([k, q, r] + ([int(rng.integers(regs[2]))] if k in ("ccx", "ccz", "mcr") else []))
    return [list(regs), ops]


def variants(rng, base, iso):
    """near misses of a circuit: [regs, ops] list (some equivalent to the base, most not)"""
    regs, ops = base
    out = []
    n = len(ops)
    two = [i for i, d in enumerate(ops) if d[0] in ("cx", "cz", "ccx", "ccz", "mcr")]
    one = [i for i, d in enumerate(ops) if d[0] == "g"]
    if two:
        i = two[rng.integers(len(two))]
        d = ops[i]
        if not (iso and d[0] in ("ccx", "ccz", "mcr")):
            out.append([regs, ops[:i] + [[d[0], d[2], d[1]] + d[3:]] + ops[i + 1 :]])
        alt = {"cx": "cz", "cz": "cx", "ccx": "ccz", "ccz": "mcr", "mcr": "ccx"}[d[0]]
        out.append([regs, ops[:i] + [[alt] + d[1:]] + ops[i + 1 :]])
    if one:
        i = one[rng.integers(len(one))]
        d = ops[i]
        alt = {"H": "P", "P": "PD", "PD": "P", "X": "Y", "Y": "Z", "Z": "I", "I": "H"}[d[1]]
        out.append([regs, ops[:i] + [["g", alt, d[2]]] + ops[i + 1 :]])
        t = d[2][0]
        m = regs[0] if t == "e" else regs[1]
        if m > 1:
            out.append([regs, ops[:i] + [["g", d[1], [t, (d[2][1] + 1) % m]]] + ops[i + 1 :]])
    wr = [i for i, d in enumerate(ops) if d[0] == "w" and len(d[1]) > 1]
    if wr:
        i = wr[rng.integers(len(wr))]
        d = ops[i]
        out.append([regs, ops[:i] + [["w", d[1][::-1], d[2]]] + ops[i + 1 :]])
        out.append([regs, ops[:i] + [["w", d[1][:-1] + [{"H": "P", "P": "X", "X": "H", "I": "Z"}.get(d[1][-1], "H")], d[2]]] + ops[i + 1 :]])
    if n:
        i = int(rng.integers(n))
        out.append([regs, ops[:i] + ops[i + 1 :]])
        if ops[i][0] not in ("ccx", "ccz", "mcr", "mz"):
            out.append([regs, ops[: i + 1] + ops[i:]])
    if n > 1:
        i = int(rng.integers(n - 1))
        out.append([regs, ops[:i] + [ops[i + 1], ops[i]] + ops[i + 2 :]])
    pe = list(rng.permutation(regs[0]))
    pp = list(rng.permutation(regs[1]))
    out.append([regs, eq.rename(ops, {"e": [int(x) for x in pe], "p": [int(x) for x in pp]})])
    out.append([regs, wrap_ops(ops)])
    out.append([regs, pad_ops(ops, regs)])
    out.append([[regs[0] + 1, regs[1], regs[2]], ops])
    out.append([[regs[0], regs[1], regs[2] + 1], ops])
    out.append([regs, ops])
    return out


SMALL_ALPHA = {
    (1, 1, 1): [["g", "H", ["e", 0]], ["g", "P", ["p", 0]], ["g", "I", ["e", 0]], ["w", ["H", "P"], ["e", 0]], ["cx", ["e", 0], ["p", 0]],
                ["cz", ["p", 0], ["e", 0]], ["mz", ["e", 0], 0], ["mcr", ["e", 0], ["p", 0], 0]],
    (2, 1, 0): [["g", "H", ["e", 0]], ["g", "H", ["e", 1]], ["g", "X", ["p", 0]], ["w", ["P", "H"], ["e", 1]], ["cx", ["e", 0], ["e", 1]],
                ["cx", ["e", 1], ["e", 0]], ["cx", ["e", 0], ["p", 0]], ["cz", ["e", 0], ["e", 1]]],
}


def ged_targeted():
    """every 2-op circuit 'one one-qubit op + one two-qubit op' (both orders) over SMALL_ALPHA against its role-swapped,
    class-changed and gate-changed variant (fixed list)"""
    out = []
    for rg, A in SMALL_ALPHA.items():
        one = [d for d in A if d[0] in ("g", "w", "mz")]
        two = [d for d in A if d[0] not in ("g", "w", "mz")]
        for a in one:
            for b in two:
                for ops in ([a, b], [b, a]):
                    i, j = ops.index(b), ops.index(a)
                    sw = [b[0], b[2], b[1]] + b[3:]
                    alt = {"cx": "cz", "cz": "cx", "mcr": "ccx"}[b[0]]
                    vs = [ops[:i] + [sw] + ops[i + 1 :], ops[:i] + [[alt] + b[1:]] + ops[i + 1 :]]
                    if a[0] == "g":
                        vs.append(ops[:j] + [["g", {"H": "P", "P": "H", "X": "Z", "I": "H"}[a[1]], a[2]]] + ops[j + 1 :])
                    out += [{"ra": list(rg), "a": ops, "rb": list(rg), "b": v} for v in vs]
    return out


def big_circuit(rng, n_ops):
    regs = [2, 2, 1]
    Q = [["e", 0], ["e", 1], ["p", 0], ["p", 1]]
    ops = []
    for _ in range(n_ops):
        if rng.random() < 0.6:
            ops.append(["g", ["H", "P", "X", "Z"][rng.integers(4)], Q[rng.integers(4)]])
        else:
            a, b = rng.choice(4, size=2, replace=False)
            ops.append([["cx", "cz"][rng.integers(2)], Q[a], Q[b]])
    return [regs, ops]


def nontrivial_pair(inp):
    return len(inp["a"]) + len(inp["b"]) >= 2


def run(tier, seed):
    import graphiq.utils.circuit_comparison  # noqa: F401  (imported before the pool forks)

    thorough = tier == "thorough"
    rng = np.random.default_rng([seed, 1515])
    regs = (2, 2, 1)

    def near(iso, n_base):
        r = np.random.default_rng([seed, 15, int(iso)])
        pairs, bases, fams = [], [], []
        while len(bases) < n_base:
            b = random_base(r, iso)
            vs = variants(r, b, iso)
            if iso and EXCLUDE_PARALLEL:
                if has_parallel(b[1]):
                    continue
                vs = [v for v in vs if not has_parallel(v[1])]
            if iso:
                vs = [v for v in vs if not cross_risk(b[1], v[1])]
            bases.append(b)
            fams.append([b] + vs)
            pairs += [{"ra": b[0], "a": b[1], "rb": v[0], "b": v[1]} for v in vs]
        return pairs, bases, fams

    n_base = 4000 if thorough else 200
    near_x, bases_x, fams_x = near(False, n_base)
    near_i, bases_i, fams_i = near(True, n_base)
    E_x = enumerated(alpha_fast(thorough, False), regs)
    E_i = enumerated(alpha_fast(thorough, True), regs)
    E3 = enumerated(ALPHA3, (2, 0, 0), 3)
    E3_i = [c for c in E3 if not (EXCLUDE_PARALLEL and has_parallel(c[1]))]
    px = all_pairs(E_x)
    S.map("direct.sound_symmetric", px + near_x + (all_pairs(E3) if thorough else []), nontrivial=nontrivial_pair)
    S.map("check_redundant_circuit.sound_symmetric", (px if thorough else px[::6]) + near_x, nontrivial=nontrivial_pair)
    S.map("is_isomorphic.sound_symmetric", all_pairs(E_i) + near_i + all_pairs(E3_i), nontrivial=nontrivial_pair)

    # GED methods: small registers
    small_pairs_1, small_pairs_2, small_circs = [], [], []
    for rg, A in SMALL_ALPHA.items():
        c1 = enumerated(A, rg, 1)
        c2 = enumerated(A, rg, 2)
        small_circs += c2
        small_pairs_1 += all_pairs(c1)
        small_pairs_2 += all_pairs(c2)
    idx = rng.permutation(len(small_pairs_2))
    n_slow = 400 if thorough else 30
    n_apx = len(idx) if thorough else 800
    small_near = []
    r2 = np.random.default_rng([seed, 152])
    for c in small_circs:
        if len(c[1]) == 2 and r2.random() < (1.0 if thorough else 0.04):
            small_near += [{"ra": c[0], "a": c[1], "rb": v[0], "b": v[1]} for v in variants(r2, c, False)[:9]]
    slow = small_pairs_1 + ged_targeted() + [small_pairs_2[i] for i in idx[:n_slow]] + small_near
    S.map("GED_approximate.sound", small_pairs_1 + ged_targeted() + [small_pairs_2[i] for i in idx[:n_apx]] + small_near, nontrivial=nontrivial_pair)
    S.map("GED_full.sound_symmetric", slow, nontrivial=nontrivial_pair, chunksize=2)
    big = []
    for j in range(6 if thorough else 3):
        b = big_circuit(rng, 22 + j)
        big.append({"ra": b[0], "a": b[1], "rb": b[0], "b": b[1], "approx": 1})
        v = variants(rng, b, False)
        big += [{"ra": b[0], "a": b[1], "rb": x[0], "b": x[1], "approx": 1} for x in v[:3]]
    S.map("GED_adaptive.sound_symmetric", slow + big, nontrivial=nontrivial_pair, chunksize=2)

    # reflexive
    fastm = ["direct", "is_isomorphic", "check_redundant_circuit"]
    refl = [{"ra": c[0], "a": c[1], "methods": fastm} for c in E_x + bases_x + E3]
    refl += [{"ra": c[0], "a": c[1], "methods": METHODS} for c in small_circs[:: (1 if thorough else 3)]]
    refl += [{"ra": b["ra"], "a": b["a"], "methods": ["GED_adaptive", "GED_approximate"]} for b in big[::4]]
    S.map("compare.reflexive_on_copies", refl, chunksize=4)

    # insensitivity
    def dedup_ok(p):
        return not (EXCLUDE_PARALLEL and (has_parallel(p["a"]) or any(d[0] in ("ccx", "ccz", "mcr") and d[1][0] == d[2][0] for d in p["a"])))

    ins = [dict(p, methods=["direct", "check_redundant_circuit"], dedup=(k % 3 == 0 and dedup_ok(p))) for k, p in enumerate(near_x[:: (3 if thorough else 6)])]
    ins += [dict(p, methods=["GED_full"]) for p in ged_targeted()[:: (2 if thorough else 6)]]
    ins += [{"ra": c[0], "a": c[1], "rb": c[0], "b": c[1], "methods": ["GED_full"]} for c in small_circs[:: (3 if thorough else 12)]]
    ins += [dict(p, methods=["direct"], dedup=dedup_ok(p)) for p in all_pairs(enumerated(alpha_fast(False, True)[5:11], regs))]
    S.map("compare.insensitive_to_wrapping_and_identities", ins, nontrivial=nontrivial_pair, chunksize=4)

    # lists
    def lists_from(fams, r, n, iso=False):
        out = []
        while len(out) < n:
            f = fams[r.integers(len(fams))]
            k = int(r.integers(2, 5))
            pick = [f[0]] + [f[i] for i in r.choice(len(f), size=k - 1, replace=True)]
            order = r.permutation(len(pick))
            if iso and any_cross_risk(pick):
                continue  # open finding #3: no pair of list members may admit a wire crossing
            out.append({"circuits": [pick[i] for i in order]})
        return out

    r3 = np.random.default_rng([seed, 153])
    n_lists = 15000 if thorough else 1500
    e2 = [c for c in E_i if len(c[1]) == 2 and not (EXCLUDE_PARALLEL and has_parallel(c[1]))]
    fam_e = []
    for i in r3.choice(len(e2), size=min(len(e2), n_lists // 10), replace=False):
        vs = [v for v in variants(r3, e2[i], True) if not (EXCLUDE_PARALLEL and has_parallel(v[1])) and not cross_risk(e2[i][1], v[1])]
        fam_e.append([e2[i]] + vs)
    small12 = [[list(regs), o] for o in (
        [], [["g", "H", ["e", 0]]], [["g", "H", ["e", 1]]], [["w", ["H"], ["e", 0]]], [["g", "H", ["e", 0]], ["g", "I", ["p", 0]]],
        [["g", "H", ["e", 0]], ["cx", ["e", 0], ["p", 0]]], [["g", "H", ["e", 1]], ["cx", ["e", 1], ["p", 1]]],
        [["g", "H", ["e", 0]], ["cx", ["p", 0], ["e", 0]]], [["g", "P", ["e", 0]]], [["cx", ["e", 0], ["e", 1]]], [["cx", ["e", 1], ["e", 0]]],
        [["g", "H", ["e", 0]], ["mcr", ["e", 0], ["p", 0], 0]],
    )]
    tuples = [{"circuits": list(t)} for k in (2, 3) for t in itertools.permutations(small12, k)]
    lists_i = lists_from(fams_i + fam_e, r3, n_lists, iso=True) + tuples
    S.map("remove_redundant_circuits.keeps_every_distinct", lists_i, chunksize=8)
    lists_x = lists_from(fams_x, r3, n_lists // 2)
    st = [dict(l, mode="default") for l in lists_x + tuples[:: (1 if thorough else 3)]]
    st += [dict(l, mode="iso") for l in lists_i[: n_lists // 2]]
    st += [dict(l, mode="disabled") for l in lists_x[::10]]
    S.map("CircuitStorage.keeps_every_distinct", st, chunksize=8)

    nt_hist = lambda i: len(i["a"]) + len(i["b"]) >= 2  # noqa: E731
    hist = history_domain([seed, 154], 7500 if thorough else 700, EXACT_HIST, False) + history_ged([seed, 155], 300 if thorough else 36)
    S.map("compare.history_edit_compare", hist, nontrivial=nt_hist, chunksize=4)
    S.map("is_isomorphic.history_edit_compare", history_domain([1515, 156], 6000 if thorough else 800, ISO_HIST, True), nontrivial=nt_hist, chunksize=4)

    S.map("direct.order_on_every_wire", order_domain(thorough), nontrivial=lambda i: i["a"] != i["b"], chunksize=16)
    S.map("direct.two_digit_registers", two_digit_domain(), nontrivial=lambda i: i["a"] != i["b"], chunksize=4)
    S.map("is_isomorphic.classical_control_roles", ROLE_PAIRS)
    S.map("remove_redundant_circuits.classical_control_roles", ROLE_PAIRS[:4])
    S.map("is_isomorphic.wire_crossing", wire_cross_pairs())
    S.map("remove_redundant_circuits.wire_crossing", wire_cross_pairs())
    S.map("is_isomorphic.parallel_edges", PARALLEL_PAIRS)
    S.map("remove_redundant_circuits.parallel_edges", PARALLEL_LISTS)
    S.note(
        "parameterised gates (RX/RY/RZ, ParameterizedOneQubitRotation) are outside the domain: the oracle is Clifford + "
        "measurement; direct()/ged() compare them with isinstance(op1, type(op2)) and never compare params (DESIGN C15 [F] note)"
    )
    S.note("compare_circuits(method='is_isomorphic') does not unwrap: a gate and its one-element wrapper are reported different "
           "(a missed equality, not an unsound one); insensitivity is demanded of the de-duplication front ends, which unwrap first")
    if EXCLUDE_PARALLEL:
        S.note("EXCLUDE_PARALLEL=True: circuits in which two operations are adjacent on two wires (parallel DAG edges) are kept "
               "out of the is_isomorphic / remove_redundant_circuits domains beyond 2 operations; they are driven by the items "
               "*.parallel_edges (open finding C15.findings.md #2)")
    return S
