"""C09 - Local-Clifford equivalence of graph states is decided correctly, constructively.   [B] run-time contract monitors.

Oracle: refsem.core.lc_orbit (BFS over local complementations) decides LC-equivalence of two labelled graphs exactly;
refsem state vectors judge the returned gates (equality of states up to a global phase).

Input encodings (all JSON):
  graph      nested adjacency list [[0,1],[1,0]]            (all n <= 4 items)
             or ["g", n, idx]  = refsem.lc.graph_from_index(n, idx): bit b of idx is the b-th pair of
             itertools.combinations(range(n), 2)            (n >= 5 items, to keep a million inputs small)
  gate list  [[name, qubit], ...] applied in list order
"""
from __future__ import annotations

import itertools
import os
import signal

import networkx as nx
import numpy as np

from refsem import core as R
from refsem import lc as L
from vf.bounded import Suite

import graphiq.backends.lc_equivalence_check as lce
import graphiq.backends.stabilizer.functions.local_cliff_equi_check as slc
from graphiq.backends.graph.state import Graph
from graphiq.backends.stabilizer.clifford_tableau import CliffordTableau
from graphiq.backends.stabilizer.tableau import StabilizerTableau

S = Suite("C09")
S.max_failures_per_item = 5000  # the known false-"no" family is large; keep every failing input visible

_LCE = "graphiq.backends.lc_equivalence_check"
_SLC = "graphiq.backends.stabilizer.functions.local_cliff_equi_check"
_GST = "graphiq.backends.graph.state"

CL_ANSWER = "answers yes exactly when one graph can be reached from the other by local complementations"
CL_GATES = "the single-qubit Clifford gates it returns transform the first graph state exactly into the second"
CL_SEQ = "the local-complementation sequence it returns transforms the first graph into the second"
CL_LC = "local complementation is an involution that toggles precisely the edges among the neighbours of the vertex"


# ------------------------------------------------------------------ helpers
class _Timeout(Exception):
    pass


def _alarm(signum, frame):
    raise _Timeout()


class time_limit:
    """the reduction loops of lc_graph_operations have no variant; a hang must become a reported failure.
    Counts CPU seconds of this process (ITIMER_VIRTUAL), so a loaded machine cannot fake a hang."""

    def __init__(self, seconds):
        self.seconds = seconds

    def __enter__(self):
        self.old = signal.signal(signal.SIGVTALRM, _alarm)
        signal.setitimer(signal.ITIMER_VIRTUAL, self.seconds)

    def __exit__(self, *a):
        signal.setitimer(signal.ITIMER_VIRTUAL, 0)
        signal.signal(signal.SIGVTALRM, self.old)
        return False


def _adj(x):
    if isinstance(x, (list, tuple)) and len(x) == 3 and x[0] == "g":
        return L.graph_from_index(int(x[1]), int(x[2]))
    return np.array(x, dtype=int).reshape(len(x), len(x))


def _nxg(A):
    return nx.from_numpy_array(np.array(A, dtype=int))


def _nx_adj(g, n):
    return nx.to_numpy_array(g, nodelist=list(range(n))).astype(int)


def _check_solution(A, B, sol):
    """sol: n symplectic 2x2 blocks [[a,b],[c,d]] acting on (z,x)^T of each qubit.  Valid iff every block is invertible
    and the image of every generator of |G_A> lies in the stabilizer group of |G_B> (a Pauli (x|z) is, up to sign, in
    the group of |G_B> exactly when z = B x)."""
    n = len(A)
    if not isinstance(sol, np.ndarray) or sol.shape != (n, 2, 2):
        return f"solution is not an array of shape ({n},2,2): {type(sol).__name__} {getattr(sol, 'shape', None)}"
    Q = np.array(sol)
    if not np.all((Q == 0) | (Q == 1)):
        return f"solution is not binary: {Q.tolist()}"
    Q = Q.astype(int)
    for q in range(n):
        if (Q[q, 0, 0] * Q[q, 1, 1] + Q[q, 0, 1] * Q[q, 1, 0]) % 2 != 1:
            return f"block {q} of the solution is not invertible: {Q[q].tolist()}"
    for i in range(n):
        z = A[:, i].astype(int)
        x = np.array([int(j == i) for j in range(n)])
        z2 = (Q[:, 0, 0] * z + Q[:, 0, 1] * x) % 2
        x2 = (Q[:, 1, 0] * z + Q[:, 1, 1] * x) % 2
        if not np.array_equal(z2, (B @ x2) % 2):
            return f"image of generator {i} of graph 1 under the solution is not in the stabilizer group of graph 2; solution={Q.tolist()}"
    return None


def _check_gate_list(gates, n, v1, v2, what):
    if not isinstance(gates, list):
        return f"{what}: gate list is {type(gates).__name__}"
    norm = []
    for g in gates:
        if not (isinstance(g, (tuple, list)) and len(g) == 2 and g[0] in L.STR2GATE):
            return f"{what}: unknown gate entry {g!r}"
        if not (0 <= int(g[1]) < n):
            return f"{what}: gate {g!r} outside 0..{n - 1}"
        norm.append((g[0], int(g[1])))
    w = L.apply_gate_list(v1, n, norm)
    if not R.same_state(w, v2):
        return f"{what}: gates {norm} do not map state 1 onto state 2 (|overlap|={abs(np.vdot(w, v2)):.4f})"
    return None


# ------------------------------------------------------------------ is_lc_equivalent
@S.item("is_lc_equivalent.answer", site=f"{_LCE}:is_lc_equivalent",
        bound="fixed list, seed-independent (touches known finding KF-C09-1): ALL ordered pairs of labelled graphs on n<=4 vertices (4165, "
              "connected or not) x both modes; thorough adds all 728 x 1024 pairs with graph 1 connected on 5 vertices (deterministic) and their "
              "32 920 same-orbit pairs (random)",
        exhaustive=True, clause=CL_ANSWER)
def c_answer(inp):
    mode, a, b = inp
    A, B = _adj(a), _adj(b)
    out = lce.is_lc_equivalent(A.copy(), B.copy(), mode=mode)
    if not (isinstance(out, tuple) and len(out) == 2):
        return f"return value is not a pair: {out!r}"
    ok, sol = out
    truth = L.same_orbit(A, B)
    if bool(ok) != truth:
        return (f"false 'no': graph 2 IS in the LC orbit of graph 1 (orbit size {len(L.orbit_of(A))}) but the answer is {ok!r}"
                if truth else f"false 'yes': graph 2 is NOT in the LC orbit of graph 1 but the answer is {ok!r}")
    if not truth and sol is not None:
        return f"answer False but a solution was returned: {sol!r}"
    return None


@S.item("is_lc_equivalent.answer_disconnected5", site=f"{_LCE}:is_lc_equivalent",
        bound="thorough only; fixed list, seed-independent (touches known finding KF-C09-1): all ordered pairs with graph 1 a DISCONNECTED "
              "graph on 5 vertices (296 x 1024) deterministic + their 2286 same-orbit pairs random", exhaustive=True, clause=CL_ANSWER)
def c_answer_disconnected(inp):
    return c_answer(inp)


@S.item("is_lc_equivalent.answer_sampled", site=f"{_LCE}:is_lc_equivalent",
        bound="seeded; graph 1 CONNECTED (cannot meet KF-C09-1, which needs a disconnected graph): quick 2000 pairs on 5 vertices (400 also random) "
              "+ 400 pairs on 6 and 100 on 7 vertices (both modes); "
              "thorough 15000 cross-orbit pairs on 5 vertices (random) + 60000 pairs on 6 vertices (6000 also random); half of the pairs in one orbit",
        clause=CL_ANSWER)
def c_answer_sampled(inp):
    return c_answer(inp)


@S.item("is_lc_equivalent.solution", site=f"{_LCE}:is_lc_equivalent",
        bound="all same-orbit ordered pairs n<=4 (485) x both modes; thorough: all same-orbit pairs on 5 vertices; + the same-orbit pairs of is_lc_equivalent.answer_sampled",
        exhaustive=True, clause=CL_GATES + " (symplectic level: invertible blocks mapping stabilizer group 1 onto group 2)")
def c_solution(inp):
    mode, a, b = inp
    A, B = _adj(a), _adj(b)
    ok, sol = lce.is_lc_equivalent(A.copy(), B.copy(), mode=mode)
    if not ok:
        return None  # a false "no" is the business of is_lc_equivalent.answer
    return _check_solution(A, B, sol)


@S.item("local_clifford_ops.table", site=f"{_LCE}:local_clifford_ops",
        bound="the 6 invertible binary 2x2 matrices (complete)", exhaustive=True,
        clause=CL_GATES + " (name <-> symplectic matrix table)")
def c_ops_table(inp):
    M = np.array(inp, dtype=int)
    names = lce.local_clifford_ops(np.array([M]))
    if not (isinstance(names, list) and len(names) == 1 and isinstance(names[0], str)):
        return f"expected one name, got {names!r}"
    try:
        U = L.op_string_matrix(names[0])
    except KeyError:
        return f"unknown gate name in {names[0]!r}"
    img = L.pauli_image_1q(U)
    if img is None or not np.array_equal(img, M):
        return f"name {names[0]!r} acts on (z,x) as {None if img is None else img.tolist()}, the matrix is {M.tolist()}"
    return None


@S.item("local_clifford_ops.gates", site=f"{_LCE}:local_clifford_ops",
        bound="all same-orbit ordered pairs n<=4 x both modes (+ n=5 as for is_lc_equivalent.solution)", exhaustive=True,
        clause=CL_GATES + " (named gates of the solution map |G1> onto |G2> up to Pauli signs, which converter_gate_list repairs)")
def c_ops_gates(inp):
    mode, a, b = inp
    A, B = _adj(a), _adj(b)
    n = len(A)
    ok, sol = lce.is_lc_equivalent(A.copy(), B.copy(), mode=mode)
    if not ok:
        return None
    names = lce.local_clifford_ops(sol)
    if not (isinstance(names, list) and len(names) == n):
        return f"expected {n} operator names, got {names!r}"
    v = R.graph_state(A)
    for q, s in enumerate(names):
        try:
            U = L.op_string_matrix(s)
        except KeyError:
            return f"unknown gate name in {s!r}"
        v = R.apply1(v, n, q, U)
    for j in range(n):
        K = R.pauli([int(i == j) for i in range(n)], B[j])
        e = np.vdot(v, K @ v)
        if abs(abs(e) - 1) > 1e-7:
            return f"ops {names}: generator {j} of graph 2 has expectation {e:.3f} on U|G1> (must be +-1)"
    return None


@S.item("lc_graph_operations.sequence", site=f"{_LCE}:lc_graph_operations",
        bound="all same-orbit ordered pairs n<=4 x both modes (+ n=5 as for is_lc_equivalent.solution)", exhaustive=True, clause=CL_SEQ)
def c_sequence(inp):
    mode, a, b = inp
    A, B = _adj(a), _adj(b)
    n = len(A)
    ok, sol = lce.is_lc_equivalent(A.copy(), B.copy(), mode=mode)
    if not ok:
        return None
    try:
        with time_limit(5):
            seq = lce.lc_graph_operations(A.copy(), sol)
    except _Timeout:
        return "lc_graph_operations did not terminate within 5 CPU-seconds"
    if not isinstance(seq, list) or any(not (0 <= int(v) < n) for v in seq):
        return f"sequence is not a list of vertices: {seq!r}"
    C = L.apply_lc_sequence(A, seq)
    if not np.array_equal(C, B):
        return f"sequence {[int(v) for v in seq]} maps graph 1 to {C.tolist()}, not to graph 2"
    return None


@S.item("find_lc_operations.sequence", site=f"{_LCE}:find_lc_operations",
        bound="fixed list, seed-independent (touches known finding KF-C09-1): ALL ordered pairs n<=4 deterministic; random mode: all pairs n<=3 + all same-orbit pairs n=4", exhaustive=True, clause=CL_SEQ + " (one-call form)")
def c_find_ops(inp):
    mode, a, b = inp
    A, B = _adj(a), _adj(b)
    n = len(A)
    truth = L.same_orbit(A, B)
    try:
        with time_limit(5):
            seq = lce.find_lc_operations(A.copy(), B.copy(), mode=mode)
    except _Timeout:
        return "find_lc_operations did not terminate within 5 CPU-seconds"
    except ValueError as e:
        if truth:
            return f"false 'no': raised ValueError({e}) although graph 2 is in the LC orbit of graph 1"
        return None
    if not truth:
        return f"false 'yes': returned {seq!r} although graph 2 is not in the LC orbit of graph 1"
    if not isinstance(seq, list) or any(not (0 <= int(v) < n) for v in seq):
        return f"sequence is not a list of vertices: {seq!r}"
    C = L.apply_lc_sequence(A, seq)
    if not np.array_equal(C, B):
        return f"sequence {[int(v) for v in seq]} maps graph 1 to {C.tolist()}, not to graph 2"
    return None


# ------------------------------------------------------------------ Graph front door
@S.item("Graph.lc_equivalent.answer", site=f"{_GST}:Graph.lc_equivalent",
        bound="fixed list, seed-independent (touches known finding KF-C09-1): ALL ordered pairs n<=4 deterministic; random mode: all pairs n<=3 + all same-orbit pairs n=4; given as Graph objects", exhaustive=True, clause=CL_ANSWER + "; solution valid")
def c_graph_equiv(inp):
    mode, a, b = inp
    A, B = _adj(a), _adj(b)
    ok, sol = Graph(_nxg(A)).lc_equivalent(Graph(_nxg(B)), mode=mode)
    truth = L.same_orbit(A, B)
    if bool(ok) != truth:
        return f"false 'no' (graph 2 is in the orbit of graph 1), answer {ok!r}" if truth else f"false 'yes', answer {ok!r}"
    if truth:
        return _check_solution(A, B, sol)
    return None


@S.item("Graph.lc_equivalent.node_order", site=f"{_GST}:Graph.lc_equivalent",
        bound="fixed list: all 38 connected graphs on 4 vertices x second graph in {same graph, LC at vertex 0} x 3 node insertion orders of the second graph",
        exhaustive=True, clause=CL_ANSWER + " (graphs on the same vertices; a networkx graph does not depend on the order its nodes were added)")
def c_graph_node_order(inp):
    a, b, order = inp
    A, B = _adj(a), _adj(b)
    n = len(A)
    g2 = nx.Graph()
    g2.add_nodes_from(order)
    g2.add_edges_from((i, j) for i in range(n) for j in range(i + 1, n) if B[i, j])
    ok, sol = Graph(_nxg(A)).lc_equivalent(Graph(g2))
    truth = L.same_orbit(A, B)
    if bool(ok) != truth:
        return (f"false 'no': second graph (nodes added in order {order}) is in the LC orbit of the first, answer {ok!r}"
                if truth else f"false 'yes', answer {ok!r}")
    return None


# ------------------------------------------------------------------ lc_check and friends
def _as_form(form, A):
    A = np.array(A, dtype=int)
    n = len(A)
    if form == "graph":
        return _nxg(A)
    if form == "adjacency":
        return A.copy()
    dest, stab = L.graph_rows(A)
    return _tableau(form, dest, stab)


def _tableau(form, dest, stab):
    x = np.array([r[0] for r in stab], dtype=int)
    z = np.array([r[1] for r in stab], dtype=int)
    ph = np.array([r[2] for r in stab], dtype=int)
    if form == "stabilizer":
        return StabilizerTableau([x, z], ph)
    if form == "clifford":
        dx = np.array([r[0] for r in dest], dtype=int)
        dz = np.array([r[1] for r in dest], dtype=int)
        dp = np.array([r[2] for r in dest], dtype=int)
        return CliffordTableau(np.vstack([np.hstack([dx, dz]), np.hstack([x, z])]), np.concatenate([dp, ph]))
    raise ValueError(form)


@S.item("lc_check.pairs", site=f"{_SLC}:lc_check",
        bound="fixed list, seed-independent (touches known finding KF-C09-1): ALL ordered pairs n<=4 given as (networkx graphs, validate "
              "True/False), adjacency matrices, stabilizer tableaux, Clifford tableaux; thorough adds all same-orbit pairs with graph 1 "
              "connected on 5 vertices (all four forms)",
        exhaustive=True, clause=CL_ANSWER + "; " + CL_GATES)
def c_lc_check(inp):
    form, validate, a, b = inp
    A, B = _adj(a), _adj(b)
    n = len(A)
    out = slc.lc_check(_as_form(form, A), _as_form(form, B), validate=bool(validate))
    if not (isinstance(out, tuple) and len(out) == 2):
        return f"return value is not a pair: {out!r}"
    ok, gates = out
    truth = L.same_orbit(A, B)
    if bool(ok) != truth:
        return (f"false 'no': graph 2 is in the LC orbit of graph 1 but lc_check answered {ok!r}" if truth
                else f"false 'yes': graph 2 is not in the LC orbit of graph 1 but lc_check answered {ok!r} with {gates!r}")
    if truth:
        return _check_gate_list(gates, n, R.graph_state(A), R.graph_state(B), "lc_check")
    return None


@S.item("lc_check.pairs_sampled", site=f"{_SLC}:lc_check",
        bound="seeded; graph 1 CONNECTED on 5 (quick: also 6, 7) vertices (cannot meet KF-C09-1), forms graph / adjacency matrix / stabilizer / Clifford tableau: "
              "quick 400 pairs (half same-orbit) + 100 pairs on 6 and 30 on 7 vertices, thorough 12000 arbitrary second graphs", clause=CL_ANSWER + "; " + CL_GATES)
def c_lc_check_sampled(inp):
    return c_lc_check(inp)


@S.item("lc_check.dressed_tableaux", site=f"{_SLC}:lc_check",
        bound="seeded; CONNECTED graphs only (cannot meet KF-C09-1) n<=4 (thorough n<=5): graph 2 from the orbit of graph 1 or another connected graph; both graph states "
              "dressed with seeded random local Clifford gate lists (<=2n gates from I,H,P,P_dag,X,Y,Z), given as signed stabilizer / Clifford tableaux, validate True/False; "
              "quick 1200 cases, thorough 12000", clause=CL_ANSWER + "; " + CL_GATES + " (signs of tableau inputs included)")
def c_lc_check_dressed(inp):
    form, validate, a, ga, b, gb = inp
    A, B = _adj(a), _adj(b)
    n = len(A)
    ga = [(g[0], int(g[1])) for g in ga]
    gb = [(g[0], int(g[1])) for g in gb]
    da, sa = L.dressed_rows(A, ga)
    db, sb = L.dressed_rows(B, gb)
    v1 = L.apply_gate_list(R.graph_state(A), n, ga)
    v2 = L.apply_gate_list(R.graph_state(B), n, gb)
    ok, gates = slc.lc_check(_tableau(form, da, sa), _tableau(form, db, sb), validate=bool(validate))
    truth = L.same_orbit(A, B)
    if bool(ok) != truth:
        return f"false 'no' (underlying graphs are LC equivalent), answer {ok!r}" if truth else f"false 'yes', answer {ok!r}"
    if truth:
        return _check_gate_list(gates, n, v1, v2, "lc_check")
    return None


@S.item("converter_gate_list.gates", site=f"{_SLC}:converter_gate_list",
        bound="fixed list, seed-independent (touches known finding KF-C09-1): ALL ordered pairs n<=4 as networkx graphs", exhaustive=True, clause=CL_GATES + "; refuses (AssertionError) exactly the non-equivalent pairs")
def c_converter(inp):
    a, b = inp
    A, B = _adj(a), _adj(b)
    n = len(A)
    truth = L.same_orbit(A, B)
    try:
        gates = slc.converter_gate_list(_nxg(A), _nxg(B))
    except AssertionError as e:
        if truth:
            return f"false 'no': AssertionError({e}) although graph 2 is in the LC orbit of graph 1"
        return None
    if not truth:
        return f"false 'yes': returned {gates!r} for graphs in different orbits"
    return _check_gate_list(gates, n, R.graph_state(A), R.graph_state(B), "converter_gate_list")


@S.item("state_converter_circuit.circuit", site=f"{_SLC}:state_converter_circuit",
        bound="fixed list, seed-independent (touches known finding KF-C09-1): ALL ordered pairs n<=4 as networkx graphs x validate in {False, True}", exhaustive=True,
        clause=CL_GATES + " (as a circuit on n photons); refuses (AssertionError) exactly the non-equivalent pairs")
def c_converter_circuit(inp):
    validate, a, b = inp
    A, B = _adj(a), _adj(b)
    n = len(A)
    truth = L.same_orbit(A, B)
    try:
        circ = slc.state_converter_circuit(_nxg(A), _nxg(B), validate=bool(validate))
    except AssertionError as e:
        if truth:
            return f"false 'no': AssertionError({e}) although graph 2 is in the LC orbit of graph 1"
        return None
    if not truth:
        return "false 'yes': returned a circuit for graphs in different orbits"
    if circ.n_photons != n or circ.n_emitters != 0:
        return f"circuit has {circ.n_photons} photons / {circ.n_emitters} emitters, expected {n} / 0"
    ops = R.graphiq_ops(circ)
    if any(op[0] not in ("g", "w") for op in ops):
        return f"circuit contains non-local operations: {ops}"
    v, _, _ = R.run_ops(n, ops, v0=R.graph_state(A))
    if not R.same_state(v, R.graph_state(B)):
        return f"circuit {ops} does not map |G1> onto |G2> (|overlap|={abs(np.vdot(v, R.graph_state(B))):.4f})"
    return None


# ------------------------------------------------------------------ argument frames, repeated use, input construction variants
def _fp(x):
    """value of an argument object as far as a caller can observe it (dtype and bytes of arrays; node order, adjacency order and
    attribute dictionaries of networkx graphs; every field of a tableau)"""
    if isinstance(x, np.ndarray):
        return ("ndarray", x.dtype.str, x.shape, x.tobytes())
    if isinstance(x, nx.Graph):
        return ("nx", type(x).__name__, [(repr(u), _fp(d)) for u, d in x.nodes(data=True)],
                [(repr(u), [(repr(v), _fp(d)) for v, d in nb.items()]) for u, nb in x.adj.items()], _fp(dict(x.graph)))
    if isinstance(x, Graph):
        return ("Graph", _fp(x.data), sorted((k, _fp(v)) for k, v in vars(x).items() if k != "_data"))
    if isinstance(x, (StabilizerTableau, CliffordTableau)):
        return (type(x).__name__, sorted((k, _fp(v)) for k, v in vars(x).items()))
    if isinstance(x, dict):
        return ("dict", [(repr(k), _fp(v)) for k, v in x.items()])
    if isinstance(x, (list, tuple)):
        return (type(x).__name__, [_fp(v) for v in x])
    return repr(x)


def _row_product(a, b, n):
    """product of two commuting signed Pauli rows (x, z, r), by matrices"""
    x = tuple((p + q) % 2 for p, q in zip(a[0], b[0]))
    z = tuple((p + q) % 2 for p, q in zip(a[1], b[1]))
    M = R.pauli(a[0], a[1], a[2]) @ R.pauli(b[0], b[1], b[2])
    for r in (0, 1):
        if np.allclose(M, R.pauli(x, z, r)):
            return (x, z, r)
    raise AssertionError("rows do not commute")


def _mixed_rows(A):
    """another generating set of the stabilizer group of |G_A>: K_0 K_1, K_1 K_2, ..., K_{n-2} K_{n-1}, K_{n-1}
    (row i multiplied by row i+1; signs tracked by matrices, Y = iXZ entries appear)"""
    n = len(A)
    _, stab = L.graph_rows(A)
    out = [_row_product(stab[i], stab[i + 1], n) for i in range(n - 1)] + [stab[n - 1]]
    return out


def _mk(form, A):
    """the same graph (state) built in different ways"""
    A = np.array(A, dtype=int)
    n = len(A)
    if form == "int":
        return A.copy()
    if form == "float":
        return A.astype(float)
    if form == "int32":
        return A.astype(np.int32)
    if form == "nx_w":  # weight attributes (nx.from_numpy_array)
        return nx.from_numpy_array(A.copy())
    if form == "nx_plain":  # no edge attributes (nx.Graph + add_edges_from, like nx.path_graph)
        g = nx.Graph()
        g.add_nodes_from(range(n))
        g.add_edges_from((i, j) for i in range(n) for j in range(i + 1, n) if A[i, j])
        return g
    if form in ("Graph_w", "Graph_plain"):
        return Graph(_mk("nx_w" if form == "Graph_w" else "nx_plain", A))
    if form in ("stabilizer", "clifford"):
        dest, stab = L.graph_rows(A)
        return _tableau(form, dest, stab)
    if form == "stabilizer_mixed":
        return _tableau("stabilizer", None, _mixed_rows(A))
    raise ValueError(form)


def _current_adj(x, n):
    """adjacency matrix an argument object denotes NOW (read after the call: a returned sequence must work on the object the caller holds)"""
    if isinstance(x, np.ndarray):
        return np.array(x).astype(int)
    if isinstance(x, Graph):
        x = x.data
    return _nx_adj(x, n)


def _seq_ok(x1, n, B, seq, what):
    if not isinstance(seq, list) or any(not (isinstance(v, (int, np.integer)) and 0 <= int(v) < n) for v in seq):
        return f"{what}: sequence is not a list of vertices: {seq!r}"
    C = L.apply_lc_sequence(_current_adj(x1, n), seq)
    if not np.array_equal(C, B):
        return f"{what}: sequence {[int(v) for v in seq]} replayed on the caller's first graph gives {C.tolist()}, not graph 2"
    return None


def _entry_call(entry, x1, x2, A, B, truth, rseed=0):
    """one call of an LC entry point on the argument OBJECTS x1, x2 (denoting the graphs A, B); the result is judged against the oracle.
    rseed: seed handed to the random mode (graphiq's default is 0)"""
    n = len(A)
    if entry in ("is_lc_equivalent.det", "is_lc_equivalent.rand", "Graph.lc_equivalent", "lc_graph_operations"):
        if entry == "Graph.lc_equivalent":
            out = x1.lc_equivalent(x2)
        elif entry.endswith("rand"):
            out = lce.is_lc_equivalent(x1, x2, mode="random", seed=rseed) if rseed else lce.is_lc_equivalent(x1, x2, mode="random")
        else:
            out = lce.is_lc_equivalent(x1, x2, mode="deterministic")
        if not (isinstance(out, tuple) and len(out) == 2):
            return f"return value is not a pair: {out!r}"
        ok, sol = out
        if bool(ok) != truth:
            return f"false 'no', answer {ok!r}" if truth else f"false 'yes', answer {ok!r}"
        if not truth:
            return None if sol is None else f"answer False but a solution was returned: {sol!r}"
        r = _check_solution(A, B, sol)
        if r or entry != "lc_graph_operations":
            return r
        fs = _fp(sol)
        names = lce.local_clifford_ops(sol)
        if _fp(sol) != fs:
            return "local_clifford_ops modified the solution it was given"
        if not (isinstance(names, list) and len(names) == n):
            return f"local_clifford_ops: expected {n} operator names, got {names!r}"
        try:
            with time_limit(5):
                seq = lce.lc_graph_operations(x1, sol)
        except _Timeout:
            return "lc_graph_operations did not terminate within 5 CPU-seconds"
        if _fp(sol) != fs:
            return "lc_graph_operations modified the solution it was given"
        return _seq_ok(x1, n, B, seq, "lc_graph_operations")
    if entry in ("find_lc_operations.det", "find_lc_operations.rand"):
        try:
            with time_limit(5):
                if entry.endswith("rand"):
                    seq = lce.find_lc_operations(x1, x2, mode="random", seed=rseed) if rseed else lce.find_lc_operations(x1, x2, mode="random")
                else:
                    seq = lce.find_lc_operations(x1, x2, mode="deterministic")
        except _Timeout:
            return "find_lc_operations did not terminate within 5 CPU-seconds"
        except ValueError as e:
            return f"false 'no': ValueError({e})" if truth else None
        if not truth:
            return f"false 'yes': returned {seq!r}"
        return _seq_ok(x1, n, B, seq, "find_lc_operations")
    if entry in ("lc_check", "lc_check.novalidate"):
        out = slc.lc_check(x1, x2, validate=(entry == "lc_check"))
        if not (isinstance(out, tuple) and len(out) == 2):
            return f"return value is not a pair: {out!r}"
        ok, gates = out
        if bool(ok) != truth:
            return f"false 'no', lc_check answered {ok!r}" if truth else f"false 'yes', lc_check answered {ok!r} with {gates!r}"
        return _check_gate_list(gates, n, R.graph_state(A), R.graph_state(B), "lc_check") if truth else None
    if entry == "converter_gate_list":
        try:
            gates = slc.converter_gate_list(x1, x2)
        except AssertionError as e:
            return f"false 'no': AssertionError({e})" if truth else None
        if not truth:
            return f"false 'yes': returned {gates!r}"
        return _check_gate_list(gates, n, R.graph_state(A), R.graph_state(B), "converter_gate_list")
    if entry == "state_converter_circuit":
        try:
            circ = slc.state_converter_circuit(x1, x2, validate=True)
        except AssertionError as e:
            return f"false 'no': AssertionError({e})" if truth else None
        if not truth:
            return "false 'yes': returned a circuit"
        ops = R.graphiq_ops(circ)
        if circ.n_photons != n or circ.n_emitters != 0 or any(op[0] not in ("g", "w") for op in ops):
            return f"circuit on {circ.n_photons} photons / {circ.n_emitters} emitters with operations {ops}"
        v, _, _ = R.run_ops(n, ops, v0=R.graph_state(A))
        if not R.same_state(v, R.graph_state(B)):
            return f"circuit {ops} does not map |G1> onto |G2>"
        return None
    raise ValueError(entry)


ENTRY_FORMS = {
    "is_lc_equivalent.det": ("int", "float", "int32"),
    "is_lc_equivalent.rand": ("int", "float"),
    "lc_graph_operations": ("int", "float", "int32"),
    "find_lc_operations.det": ("int", "float", "int32"),
    "find_lc_operations.rand": ("int", "float"),
    "Graph.lc_equivalent": ("Graph_w", "Graph_plain"),
    "lc_check": ("int", "float", "nx_w", "nx_plain", "stabilizer", "clifford", "stabilizer_mixed"),
    "lc_check.novalidate": ("int", "nx_plain", "stabilizer_mixed"),
    "converter_gate_list": ("nx_w", "nx_plain"),
    "state_converter_circuit": ("int", "nx_plain", "stabilizer"),
}


@S.item("lc_entry_points.frames_and_reuse",
        site=f"{_LCE}:is_lc_equivalent, lc_graph_operations, local_clifford_ops, find_lc_operations ; {_GST}:Graph.lc_equivalent ; "
             f"{_SLC}:lc_check, converter_gate_list, state_converter_circuit",
        bound="graph 1 CONNECTED (cannot meet KF-C09-1). Same-orbit ordered pairs with graph 1 connected on 2..4 vertices (thorough: all; quick: all on <=3 "
              "vertices, every fourth on 4 vertices, offset = run seed) + for every connected graph on 2..4 vertices 2 (quick 1) graphs outside its orbit; "
              "seeded: 16 (thorough 400) pairs on 5 and 8 (200) on 6 vertices. "
              "x every entry point x every construction of the arguments (int64 / float64 / int32 arrays, networkx graphs with weight attributes "
              "(from_numpy_array) / without edge attributes, Graph objects of both, stabilizer / Clifford tableaux, stabilizer tableau in another "
              "generating set). Per case: call(x1,x2) twice with the SAME argument objects, then call(x2,x1) (lc_check / converter_gate_list / state_converter_circuit: twice only); every answer judged by the oracle, returned "
              "sequences replayed on the object the caller still holds; after every call both arguments (and the solution given to "
              "lc_graph_operations / local_clifford_ops) bit-for-bit unchanged; random mode with seeds 0 (default), 3, 1; Graph objects: the second Graph is then "
              "complemented in place and asked again",
        clause=CL_ANSWER + "; " + CL_GATES + "; " + CL_SEQ + " - for every way the graphs are given, on repeated use of the same argument "
               "objects, and without modifying the arguments")
def c_frames(inp):
    entry, form, a, b = inp
    A, B = _adj(a), _adj(b)
    truth = L.same_orbit(A, B)
    x1, x2 = _mk(form, A), _mk(form, B)
    f1, f2 = _fp(x1), _fp(x2)
    calls = [(x1, x2, A, B), (x1, x2, A, B)]
    if entry.split(".")[0] in ("is_lc_equivalent", "lc_graph_operations", "find_lc_operations", "Graph"):
        calls.append((x2, x1, B, A))  # (the three slower front ends are called twice only)
    for k, (p, q, P, Q) in enumerate(calls, 1):
        what = f"call #{k} ({'x1,x2' if k < 3 else 'x2,x1'}; arguments given as {form})"
        r = _entry_call(entry, p, q, P, Q, truth, rseed=(0, 3, 1)[k - 1])
        g1, g2 = _fp(x1), _fp(x2)
        if g1 != f1 or g2 != f2:
            which = "first" if (g1 != f1) == (k < 3) else "second"
            return f"{what}: the {which} argument was modified by the call" + (f" (and: {r})" if r else "")
        if r:
            return f"{what}: {r}"
    if entry == "Graph.lc_equivalent":  # query - edit - query: the second Graph is complemented IN PLACE (stays in its orbit), then asked again
        n = len(A)
        v = max(range(n), key=lambda u: (int(B[u].sum()), -u))
        x2.local_complementation(v, copy=False)
        B2 = R.local_complement(B, v)
        if not np.array_equal(_nx_adj(x2.data, n), B2):
            return None  # (Graph.local_complementation is judged by its own item)
        r = _entry_call(entry, x1, x2, A, B2, truth)
        if r:
            return f"after complementing the second Graph in place at vertex {v}: {r}"
        r = _entry_call(entry, x2, x1, B2, A, truth)
        if r:
            return f"after complementing the second Graph in place at vertex {v} (asked from the edited Graph): {r}"
    return None


# ------------------------------------------------------------------ node insertion order of networkx arguments
def _nx_ordered(A, order):
    """the graph A on the vertices 0..n-1 with its nodes INSERTED in the given order (as nx.Graph(edge list) or relabel_nodes produce)"""
    n = len(A)
    g = nx.Graph()
    g.add_nodes_from(int(x) for x in order)
    g.add_edges_from((i, j) for i in range(n) for j in range(i + 1, n) if A[i, j])
    return g


CL_ORDER = " (a networkx graph on the vertices 0..n-1 does not depend on the order in which its nodes were added; vertices / qubits are named by label)"


@S.item("local_comp_graph.node_order", site=f"{_LCE}:local_comp_graph",
        bound="fixed list, seed-independent (regression inputs of the repaired node-order defect of local_comp_graph): ALL connected graphs on 3 and 4 vertices x every vertex x 2 node insertion orders ([1,0,2],[2,1,0] / [3,2,1,0],[1,2,3,0])",
        exhaustive=True, clause=CL_LC + CL_ORDER)
def c_local_comp_order(inp):
    a, v, order = inp
    A = _adj(a)
    n = len(A)
    g = _nx_ordered(A, order)
    f0 = _fp(g)
    h = lce.local_comp_graph(g, v)
    if _fp(g) != f0:
        return "the input graph was modified"
    if not isinstance(h, nx.Graph) or sorted(h.nodes) != list(range(n)):
        return f"result is not a graph on 0..{n - 1}: {h!r}"
    H = _nx_adj(h, n)
    want = R.local_complement(A, v)
    if not np.array_equal(H, want):
        return f"nodes inserted as {order}: got {H.tolist()}, toggling exactly the pairs of neighbours of vertex {v} gives {want.tolist()}"
    back = _nx_adj(lce.local_comp_graph(h, v), n)
    if not np.array_equal(back, A):
        return f"not an involution: twice at {v} gives {back.tolist()}"
    return None


@S.item("lc_check.node_order", site=f"{_SLC}:lc_check, converter_gate_list, state_converter_circuit",
        bound="fixed list, seed-independent, same in both tiers (touches known finding KF-C09-node-order): graph 1 = every connected graph on 3 vertices and the path, star, cycle, paw, diamond, K4 on 4 vertices; graph 2 in {graph 1, LC_0(graph 1), "
              "LC_1(graph 1), one graph outside the orbit}; both given as networkx graphs x 3 combinations of node insertion orders (sorted/shuffled, shuffled/sorted, "
              "shuffled/other shuffle) x {lc_check, converter_gate_list, state_converter_circuit}", exhaustive=True, clause=CL_ANSWER + "; " + CL_GATES + CL_ORDER)
def c_lc_check_order(inp):
    entry, a, b, o1, o2 = inp
    A, B = _adj(a), _adj(b)
    truth = L.same_orbit(A, B)
    x1, x2 = _nx_ordered(A, o1), _nx_ordered(B, o2)
    f1, f2 = _fp(x1), _fp(x2)
    r = _entry_call(entry, x1, x2, A, B, truth)
    if _fp(x1) != f1 or _fp(x2) != f2:
        return "an argument graph was modified"
    return f"nodes inserted as {o1} / {o2}: {r}" if r else None


# ------------------------------------------------------------------ local complementation
@S.item("local_comp_graph.semantics", site=f"{_LCE}:local_comp_graph",
        bound="ALL labelled graphs n<=5 (1099) x every vertex", exhaustive=True, clause=CL_LC)
def c_local_comp(inp):
    a, v = inp
    A = _adj(a)
    n = len(A)
    g = _nxg(A)
    h = lce.local_comp_graph(g, v)
    if not isinstance(h, nx.Graph) or sorted(h.nodes) != list(range(n)):
        return f"result is not a graph on 0..{n - 1}: {h!r}"
    if not np.array_equal(_nx_adj(g, n), A):
        return "the input graph was modified"
    H = _nx_adj(h, n)
    want = R.local_complement(A, v)
    if not np.array_equal(H, want):
        return f"got {H.tolist()}, toggling exactly the pairs of neighbours of {v} gives {want.tolist()}"
    if any(h.has_edge(i, i) for i in range(n)):
        return "self loop in the result"
    back = _nx_adj(lce.local_comp_graph(h, v), n)
    if not np.array_equal(back, A):
        return f"not an involution: twice at {v} gives {back.tolist()}"
    return None


@S.item("Graph.local_complementation.semantics", site=f"{_GST}:Graph.local_complementation",
        bound="ALL labelled graphs n<=5 x every vertex x copy in {True, False}", exhaustive=True, clause=CL_LC)
def c_graph_local_comp(inp):
    a, v, cp = inp
    A = _adj(a)
    n = len(A)
    G = Graph(_nxg(A))
    out = G.local_complementation(v, copy=bool(cp))
    if not isinstance(out, Graph) or sorted(out.data.nodes) != list(range(n)):
        return f"result is not a Graph on 0..{n - 1}: {out!r}"
    want = R.local_complement(A, v)
    H = _nx_adj(out.data, n)
    if not np.array_equal(H, want):
        return f"got {H.tolist()}, toggling exactly the pairs of neighbours of {v} gives {want.tolist()}"
    if cp:
        if out is G or not np.array_equal(_nx_adj(G.data, n), A):
            return "copy=True but the original Graph was modified / returned"
    back = out.local_complementation(v, copy=bool(cp))
    if not np.array_equal(_nx_adj(back.data, n), A):
        return f"not an involution: twice at {v} gives {_nx_adj(back.data, n).tolist()}"
    return None


# ------------------------------------------------------------------ domains
_NAMES = ["I", "H", "P", "P_dag", "X", "Y", "Z"]
_SIX = [[[1, 0], [0, 1]], [[0, 1], [1, 0]], [[1, 1], [0, 1]], [[1, 1], [1, 0]], [[0, 1], [1, 1]], [[1, 0], [1, 1]]]


def _all_pairs(nmax):
    for n in range(1, nmax + 1):
        gs = [A.tolist() for A in R.all_graphs(n)]
        for a in gs:
            for b in gs:
                yield a, b


def _orbit_pairs(nmax):
    for n in range(1, nmax + 1):
        for A in R.all_graphs(n):
            for k in sorted(L.orbit_of(A)):
                yield A.tolist(), L.unkey(k).tolist()


def _idx(A):
    n = len(A)
    idx = 0
    for b, (i, j) in enumerate(itertools.combinations(range(n), 2)):
        if A[i][j]:
            idx |= 1 << b
    return idx


def _sample_pairs(n, count, rng, frac_orbit=0.5, connected=True):
    """seeded pairs on n vertices; graph 1 connected (or disconnected) as asked; graph 2 from its orbit or arbitrary"""
    N = 2 ** (n * (n - 1) // 2)
    out = []
    while len(out) < count:
        ia = int(rng.integers(N))
        A = L.graph_from_index(n, ia)
        if R.is_connected(A) != connected:
            continue
        if rng.random() < frac_orbit:
            o = sorted(L.orbit_of(A))
            ib = _idx(L.unkey(o[int(rng.integers(len(o)))]))
        else:
            ib = int(rng.integers(N))
        out.append((["g", n, ia], ["g", n, ib]))
    return out


def _same(p):
    return L.same_orbit(_adj(p[-2]), _adj(p[-1]))


def _dressed_cases(nmax, count, rng):
    out = []
    pools = {n: L.connected_graphs(n) for n in range(2, nmax + 1)}
    for _ in range(count):
        n = int(rng.integers(2, nmax + 1))
        gs = pools[n]
        A = gs[int(rng.integers(len(gs)))]
        if rng.random() < 0.7:
            o = sorted(L.orbit_of(A))
            B = L.unkey(o[int(rng.integers(len(o)))])
        else:
            B = gs[int(rng.integers(len(gs)))]
        ga = [[_NAMES[int(rng.integers(7))], int(rng.integers(n))] for _ in range(int(rng.integers(0, 2 * n + 1)))]
        gb = [[_NAMES[int(rng.integers(7))], int(rng.integers(n))] for _ in range(int(rng.integers(0, 2 * n + 1)))]
        out.append([("stabilizer", "clifford")[int(rng.integers(2))], bool(rng.integers(2)), A.tolist(), ga, B.tolist(), gb])
    return out


def run(tier, seed):
    """Items that touch a recorded finding (KF-C09-*, see C09.findings.md) enumerate FIXED lists that do not depend on the
    run seed, quick being a subset of thorough.  Seeded exploration lives in the *_sampled items and in the dressed-tableau
    item, whose domains take graph 1 CONNECTED (the false-"no" family needs a disconnected graph) and never use the
    adjacency-matrix form of lc_check."""
    rng = np.random.default_rng(seed)
    thorough = tier == "thorough"
    modes = ("deterministic", "random")
    L.selftest()
    R.selftest()

    pairs4 = list(_all_pairs(4))
    pairs3 = [p for p in pairs4 if len(p[0]) <= 3]
    orb4 = list(_orbit_pairs(4))
    nt_pair = lambda inp: _same(inp)  # noqa: E731  non-trivial = a pair in the same orbit (a constructive answer is due)
    yes_items = ("is_lc_equivalent.solution", "local_clifford_ops.gates", "lc_graph_operations.sequence")
    # wrappers: every pair in deterministic mode; random mode on all pairs n<=3 and all same-orbit pairs of n=4
    wrap_in = [["deterministic", a, b] for a, b in pairs4] + [["random", a, b] for a, b in pairs3] \
        + [["random", a, b] for a, b in orb4 if len(a) == 4]

    N5 = 1024
    conn5 = [i for i in range(N5) if R.is_connected(L.graph_from_index(5, i))]
    cset = set(conn5)
    disc5 = [i for i in range(N5) if i not in cset]

    # ---- is_lc_equivalent: fixed lists ------------------------------------------------------------
    ans_in = [[m, a, b] for m in modes for a, b in pairs4]
    yes_in = [[m, a, b] for m in modes for a, b in orb4]
    orb5c = []
    if thorough:
        ans_in += [["deterministic", ["g", 5, i], ["g", 5, j]] for i in conn5 for j in range(N5)]
        orb5c = [(["g", 5, i], ["g", 5, _idx(L.unkey(k))]) for i in conn5 for k in sorted(L.orbit_of(L.graph_from_index(5, i)))]
        ans_in += [["random", a, b] for a, b in orb5c]
        yes_in += [[m, a, b] for m in modes for a, b in orb5c]
    S.map("is_lc_equivalent.answer", ans_in, nontrivial=nt_pair, chunksize=4096 if thorough else None)
    for name in yes_items:
        S.map(name, yes_in)
    S.map("local_clifford_ops.table", _SIX)
    S.map("find_lc_operations.sequence", wrap_in, nontrivial=nt_pair)
    if thorough:
        # disconnected graphs on 5 vertices: the stratum of the false-"no" family, kept apart (fixed list)
        orb5d = [(["g", 5, i], ["g", 5, _idx(L.unkey(k))]) for i in disc5 for k in sorted(L.orbit_of(L.graph_from_index(5, i)))]
        S.map("is_lc_equivalent.answer_disconnected5",
              [["deterministic", ["g", 5, i], ["g", 5, j]] for i in disc5 for j in range(N5)] + [["random", a, b] for a, b in orb5d],
              nontrivial=nt_pair, chunksize=4096)
        for name in yes_items:
            S.map(name, [[m, a, b] for m in modes for a, b in orb5d])
    else:
        S.items.pop("is_lc_equivalent.answer_disconnected5", None)  # thorough-only stratum (still registered for --replay)

    # ---- is_lc_equivalent: seeded exploration, graph 1 connected -------------------------------------
    if thorough:
        cross5 = [p for p in _sample_pairs(5, 30000, rng, frac_orbit=0.0) if not _same(p)][:15000]
        p6 = _sample_pairs(6, 60000, rng)
        samp = [["random", a, b] for a, b in cross5] + [["deterministic", a, b] for a, b in p6] + [["random", a, b] for a, b in p6[:6000]]
        ysamp = [["deterministic", a, b] for a, b in p6[:20000] if _same((a, b))]
    else:
        p5 = _sample_pairs(5, 2000, rng)
        p67 = _sample_pairs(6, 400, rng) + _sample_pairs(7, 100, rng)  # >= 6 vertices: real rank and GF(2) rank of 0/1 matrices first differ
        samp = [["deterministic", a, b] for a, b in p5 + p67] + [["random", a, b] for a, b in p5[:400] + p67]
        ysamp = [[m, a, b] for m in modes for a, b in p5 + p67 if _same((a, b))]
    S.map("is_lc_equivalent.answer_sampled", samp, nontrivial=nt_pair)
    for name in yes_items:
        S.map(name, ysamp)

    # ---- Graph front door (fixed lists) ------------------------------------------------------------------
    S.map("Graph.lc_equivalent.answer", wrap_in, nontrivial=nt_pair)
    orders = [[3, 2, 1, 0], [1, 2, 3, 0], [1, 0, 2, 3]]
    no_cases = []
    for A in L.connected_graphs(4):
        for B in (A, R.local_complement(A, 0)):
            for o in orders:
                if [A.tolist(), B.tolist(), o] not in no_cases:
                    no_cases.append([A.tolist(), B.tolist(), o])
    S.map("Graph.lc_equivalent.node_order", no_cases)

    # ---- lc_check / converter_gate_list / state_converter_circuit -----------------------------
    lc_inputs = []
    for form, validate in (("graph", True), ("graph", False), ("adjacency", True), ("stabilizer", True), ("clifford", True)):
        lc_inputs += [[form, validate, a, b] for a, b in pairs4]
    if thorough:
        for form, validate in (("graph", True), ("adjacency", True), ("stabilizer", True), ("clifford", True)):
            lc_inputs += [[form, validate, a, b] for a, b in orb5c]
    S.map("lc_check.pairs", lc_inputs, nontrivial=nt_pair)
    p5s = _sample_pairs(5, 12000 if thorough else 400, rng, frac_orbit=0.0 if thorough else 0.5)
    if not thorough:
        p5s += _sample_pairs(6, 100, rng) + _sample_pairs(7, 30, rng)
    S.map("lc_check.pairs_sampled", [[form, True, a, b] for form in ("graph", "adjacency", "stabilizer", "clifford") for a, b in p5s], nontrivial=nt_pair)
    S.map("lc_check.dressed_tableaux", _dressed_cases(5 if thorough else 4, 12000 if thorough else 1200, rng),
          nontrivial=lambda i: L.same_orbit(_adj(i[2]), _adj(i[4])) and (len(i[3]) + len(i[5]) > 0))
    S.map("converter_gate_list.gates", [[a, b] for a, b in pairs4], nontrivial=nt_pair)
    S.map("state_converter_circuit.circuit", [[v, a, b] for v in (False, True) for a, b in pairs4], nontrivial=nt_pair)

    # ---- argument frames / repeated use / construction variants (graph 1 connected: cannot meet KF-C09-1) -------------
    fr_orbit, fr_cross = [], []
    for n in (2, 3, 4):
        allg = R.all_graphs(n)
        for A in L.connected_graphs(n):
            orb = L.orbit_of(A)
            fr_orbit += [(A.tolist(), L.unkey(k).tolist()) for k in sorted(orb)]
            outs = [G for G in allg if L.key(G) not in orb]
            if outs:
                fr_cross += [(A.tolist(), outs[_idx(A) % len(outs)].tolist()), (A.tolist(), outs[(3 * _idx(A) + 1) % len(outs)].tolist())]
    if not thorough:  # quick: all pairs on <= 3 vertices, every fourth same-orbit pair on 4 vertices (offset by the run seed), one cross pair per graph
        fr_orbit = [p for p in fr_orbit if len(p[0]) <= 3] + [p for p in fr_orbit if len(p[0]) == 4][seed % 4::4]
        fr_cross = fr_cross[seed % 2::2]
    fr_pairs = fr_orbit + fr_cross + _sample_pairs(5, 400 if thorough else 16, rng) + _sample_pairs(6, 200 if thorough else 8, rng)
    S.map("lc_entry_points.frames_and_reuse", [[e, f, a, b] for a, b in fr_pairs for e, fs in ENTRY_FORMS.items() for f in fs], nontrivial=nt_pair)

    # ---- node insertion order of networkx arguments (fixed lists) ---------------------------------------------------
    orders = {3: [[1, 0, 2], [2, 1, 0]], 4: [[3, 2, 1, 0], [1, 2, 3, 0]]}
    S.map("local_comp_graph.node_order", [[A.tolist(), v, o] for n in (3, 4) for A in L.connected_graphs(n) for v in range(n) for o in orders[n]],
          nontrivial=lambda i: int(np.sum(_adj(i[0])[i[1]])) >= 2)
    n4 = [[[0, 1, 0, 0], [1, 0, 1, 0], [0, 1, 0, 1], [0, 0, 1, 0]], [[0, 1, 1, 1], [1, 0, 0, 0], [1, 0, 0, 0], [1, 0, 0, 0]],
          [[0, 1, 0, 1], [1, 0, 1, 0], [0, 1, 0, 1], [1, 0, 1, 0]], [[0, 1, 1, 0], [1, 0, 1, 0], [1, 1, 0, 1], [0, 0, 1, 0]],
          [[0, 1, 1, 1], [1, 0, 1, 0], [1, 1, 0, 1], [1, 0, 1, 0]], [[0, 1, 1, 1], [1, 0, 1, 1], [1, 1, 0, 1], [1, 1, 1, 0]]]
    oc = []
    for A in [G for G in L.connected_graphs(3)] + [np.array(a) for a in n4]:
        n = len(A)
        outs = [G for G in R.all_graphs(n) if not L.same_orbit(A, G)]
        seconds = [A, R.local_complement(A, 0), R.local_complement(A, 1)] + outs[:1]
        srt = list(range(n))
        for B in seconds:
            for o1, o2 in ((srt, orders[n][0]), (orders[n][1], srt), (orders[n][0], orders[n][1])):
                for e in ("lc_check", "converter_gate_list", "state_converter_circuit"):
                    oc.append([e, A.tolist(), np.array(B).tolist(), o1, o2])
    S.map("lc_check.node_order", oc, nontrivial=lambda i: _same((i[1], i[2])))

    # ---- local complementation ------------------------------------------------------------------
    lc_in = [[A.tolist(), v] for n in range(1, 6) for A in R.all_graphs(n) for v in range(n)]
    has_pair = lambda i: int(np.sum(_adj(i[0])[i[1]])) >= 2  # noqa: E731  the vertex has at least two neighbours
    S.map("local_comp_graph.semantics", lc_in, nontrivial=has_pair)
    S.map("Graph.local_complementation.semantics", [[a, v, c] for a, v in lc_in for c in (True, False)], nontrivial=has_pair)

    S.note("oracle: refsem.core.lc_orbit BFS (exact for every n used); gates judged on refsem state vectors up to global phase")
    S.note("random mode is called with graphiq's default seed=0, so it is a deterministic function of the pair")
    S.note("networkx arguments of every seeded domain are built with nx.from_numpy_array or with nodes inserted 0..n-1; other insertion orders only in the fixed "
           "items local_comp_graph.node_order (repaired) and lc_check.node_order (known finding KF-C09-node-order)")
    S.note("fixed (run-seed independent) input lists: every item except is_lc_equivalent.answer_sampled, lc_check.pairs_sampled, "
           "lc_check.dressed_tableaux, lc_entry_points.frames_and_reuse and the n>=5 part of the three 'yes' items; those take graph 1 connected and cannot meet KF-C09-1")
    return S
