"""C04 - generated and mutated circuits respect the photonic emission constraints.

EmitInv(C) (from the property statement; evaluated by an independent wire walker on `circuit.dag`):
  V  C is a valid circuit: the real `validate()` accepts it; the graph is acyclic; every quantum register's wire is a
     path  <t><r>_in -> ... -> <t><r>_out  of edges keyed '<t><r>'; every operation node sits on exactly the wires of
     its own q_registers
  P1 no two-qubit operation acts between two photons
  P2 each photon's first operation is its emission CNOT controlled by an emitter (class CNOT, control_type 'e', target = that photon)
  P3 afterwards the photon is touched only by single-qubit gates or as the TARGET of a measurement-controlled
     correction (ClassicalCNOT / ClassicalCZ / MeasurementCNOTandReset controlled by an emitter)
  F  the emission CNOTs and measure-and-reset operations placed at initialisation are still there (same node, same
     class, same registers)

On circuits with >= 11 photons / emitters (items *two_digit*) the checkers additionally demand that every edge (quantum and
classical) carries the reg / reg_type of the wire its key names and that edge_dict / node_dict agree with the graph
(`_ops_on_their_wires`): the moves build their gates from exactly these attributes.

Moves are the real bound methods of EvolutionarySolver / HybridEvolutionarySolver; an exception escaping a move is a
failure ("every circuit obtained ... by any sequence of moves").
"""
from __future__ import annotations

import itertools

import numpy as np

from vf.bounded import Suite

S = Suite("C04")

MOVES = [
    "add_emitter_one_qubit_op",
    "add_photon_one_qubit_op",
    "replace_photon_one_qubit_op",
    "replace_emitter_one_qubit_op",
    "add_emitter_cnot",
    "remove_op",
    "add_measurement_cnot_and_reset",
]
ES = "graphiq.solvers.evolutionary_solver:EvolutionarySolver."

ONE_QUBIT_GATES = {"OneQubitGateWrapper", "Hadamard", "SigmaX", "SigmaY", "SigmaZ", "Phase", "PhaseDagger", "Identity",
                   "ParameterizedOneQubitRotation", "RX", "RY", "RZ"}
CLASSICAL_CTRL = {"ClassicalCNOT", "ClassicalCZ", "MeasurementCNOTandReset"}


# ------------------------------------------------------------------ the invariant (independent wire walker)
def _acyclic(dag):
    indeg = {v: 0 for v in dag.nodes}
    for u, v, k in dag.edges(keys=True):
        indeg[v] += 1
    todo = [v for v, d in indeg.items() if d == 0]
    seen = 0
    while todo:
        u = todo.pop()
        seen += 1
        for _, v, k in dag.out_edges(u, keys=True):
            indeg[v] -= 1
            if indeg[v] == 0:
                todo.append(v)
    return seen == len(indeg)


def wires(circuit):
    """-> (symptom or None, {(type, reg): [node ids strictly between in and out]})"""
    dag = circuit.dag
    out = {}
    visits = {}
    for t, cnt in (("p", circuit.n_photons), ("e", circuit.n_emitters)):
        for r in range(cnt):
            key = f"{t}{r}"
            node = f"{key}_in"
            if node not in dag.nodes or f"{key}_out" not in dag.nodes:
                return f"register {key} has no input/output node", None
            seq = []
            steps = 0
            while node != f"{key}_out":
                nxt = [(u, v, k) for (u, v, k) in dag.out_edges(node, keys=True) if k == key]
                if len(nxt) != 1:
                    return f"wire {key}: node {node} has {len(nxt)} outgoing '{key}' edges", None
                e = nxt[0]
                d = dag.edges[e]
                if d.get("reg_type") != t or d.get("reg") != r:
                    return f"wire {key}: edge {e} carries reg_type/reg {d.get('reg_type')}/{d.get('reg')}", None
                node = e[1]
                steps += 1
                if steps > 4 * len(dag.nodes) + 4:
                    return f"wire {key} does not reach its output (cycle)", None
                if node != f"{key}_out":
                    if isinstance(node, str):
                        return f"wire {key} runs through the input/output node {node}", None
                    seq.append(node)
                    visits.setdefault(node, []).append((r, t))
            out[(t, r)] = seq
    for node in dag.nodes:
        op = dag.nodes[node]["op"]
        nm = type(op).__name__
        if nm in ("Input", "Output"):
            continue
        regs = sorted(zip(op.q_registers, op.q_registers_type))
        if sorted(visits.get(node, [])) != regs:
            return f"node {node} ({nm} on {regs}) sits on wires {sorted(visits.get(node, []))}", None
        qk = sorted(k for (_, _, k) in dag.in_edges(node, keys=True) if not k.startswith("c"))
        ok = sorted(k for (_, _, k) in dag.out_edges(node, keys=True) if not k.startswith("c"))
        want = sorted(f"{t}{r}" for r, t in regs)
        if qk != want or ok != want:
            return f"node {node} ({nm} on {regs}) has quantum in-edges {qk} / out-edges {ok}", None
    return None, out


def protected_nodes(circuit):
    """the emission CNOTs and measure-and-reset operations present in an INITIAL circuit: {node: signature}"""
    out = {}
    for node in circuit.dag.nodes:
        op = circuit.dag.nodes[node]["op"]
        nm = type(op).__name__
        if (nm == "CNOT" and op.control_type == "e" and op.target_type == "p") or nm == "MeasurementCNOTandReset":
            out[node] = [nm, list(op.q_registers), list(op.q_registers_type)]
    return out


def emit_inv(circuit, protected=None):
    """-> None if EmitInv holds, else a symptom"""
    dag = circuit.dag
    try:
        circuit.validate()
    except BaseException as e:  # noqa: BLE001
        return f"V: validate() raises {type(e).__name__}: {e}"
    if not _acyclic(dag):
        return "V: the graph has a cycle"
    bad, w = wires(circuit)
    if bad:
        return "V: " + bad
    for node in dag.nodes:
        op = dag.nodes[node]["op"]
        if len(op.q_registers) >= 2 and all(t == "p" for t in op.q_registers_type):
            return f"P1: {type(op).__name__} node {node} acts between photons {list(op.q_registers)}"
    for i in range(circuit.n_photons):
        seq = w[("p", i)]
        if not seq:
            return f"P2: photon {i} is never emitted (empty wire)"
        op = dag.nodes[seq[0]]["op"]
        if not (type(op).__name__ == "CNOT" and op.control_type == "e" and op.target_type == "p" and op.target == i):
            return f"P2: first operation on photon {i} is {type(op).__name__}{tuple(zip(op.q_registers, op.q_registers_type))}, not its emission CNOT"
        for node in seq[1:]:
            op = dag.nodes[node]["op"]
            nm = type(op).__name__
            if nm in ONE_QUBIT_GATES and tuple(op.q_registers) == (i,) and tuple(op.q_registers_type) == ("p",):
                continue
            if nm in CLASSICAL_CTRL and op.target_type == "p" and op.target == i and op.control_type == "e":
                continue
            return f"P3: photon {i} is touched after emission by {nm}{tuple(zip(op.q_registers, op.q_registers_type))} (node {node})"
    if protected:
        for node, sig in protected.items():
            key = node
            if key not in dag.nodes:
                return f"F: initial {sig[0]} on {sig[1]} (node {key}) was removed"
            op = dag.nodes[key]["op"]
            if [type(op).__name__, list(op.q_registers), list(op.q_registers_type)] != sig:
                return f"F: initial {sig[0]} on {sig[1]} (node {key}) was replaced by {type(op).__name__} on {list(op.q_registers)}"
    return None


# ------------------------------------------------------------------ real objects
def make_solver(n_e, n_p):
    from graphiq.solvers.evolutionary_solver import EvolutionarySolver
    from graphiq.backends.stabilizer.compiler import StabilizerCompiler
    from graphiq.metrics import Infidelity
    from graphiq.state import QuantumState

    target = QuantumState(n_p, rep_type="s")
    return EvolutionarySolver(target=target, metric=Infidelity(target), compiler=StabilizerCompiler(), n_emitter=n_e, n_photon=n_p)


def initial_circuit(solver, init):
    """init = {"kind": "init", "emit": [...], "meas": [...]}  -> EvolutionarySolver.initialization
              {"kind": "trs", "n": n, "edges": [...]}          -> TimeReversedSolver result for that graph"""
    if init["kind"] == "init":
        return solver.initialization(list(init["emit"]), list(init["meas"]))
    import bounded.C02 as C02

    _, _, circuit, _ = C02.run_solver({"n": init["n"], "edges": init["edges"], "rep": "g", "comp": "stab"})
    return circuit


def _dims(init):
    if init["kind"] == "init":
        return len(init["meas"]), len(init["emit"])
    return None


def _solver_for(init):
    if init["kind"] == "init":
        return make_solver(len(init["meas"]), len(init["emit"])), None
    s0 = make_solver(1, 1)
    circ = initial_circuit(s0, init)
    return make_solver(circ.n_emitters, circ.n_photons), circ


# ------------------------------------------------------------------ contracts
@S.item(
    "initialization.establishes",
    site=ES + "initialization",
    bound="every emission assignment in {0..n_e-1}^n_p x measurement assignment in {0..n_p-1}^n_e for (n_e,n_p) <= (2,3) "
    "and (3,2), plus get_emission_assignment/get_measurement_assignment outputs for (n_e,n_p) <= (4,6) x 20 seeds",
    exhaustive=False,  # exhaustive part + seeded part, see bound
    clause="initial population circuits: emission CNOT first on every photon, measure-and-reset placed",
)
def init_case(inp):
    if "seed" in inp:
        solver = make_solver(inp["ne"], inp["np"])
        np.random.seed(inp["seed"])
        emit = solver.get_emission_assignment(inp["np"], inp["ne"])
        meas = solver.get_measurement_assignment(inp["np"], inp["ne"])
        if len(emit) != inp["np"] or any(not (0 <= int(e) < inp["ne"]) for e in emit):
            return f"get_emission_assignment({inp['np']},{inp['ne']}) = {emit}"
        if len(meas) != inp["ne"] or any(not (0 <= int(m) < inp["np"]) for m in meas):
            return f"get_measurement_assignment({inp['np']},{inp['ne']}) = {meas}"
    else:
        solver = make_solver(len(inp["meas"]), len(inp["emit"]))
        emit, meas = inp["emit"], inp["meas"]
    c = solver.initialization([int(e) for e in emit], [int(m) for m in meas])
    bad = emit_inv(c)
    if bad:
        return f"emit={emit} meas={meas}: {bad}"
    if c.n_photons != len(emit) or c.n_emitters != len(meas):
        return f"registers {c.n_emitters}e/{c.n_photons}p for emit={emit} meas={meas}"
    prot = protected_nodes(c)
    n_cnot = sum(1 for s in prot.values() if s[0] == "CNOT")
    n_mcr = sum(1 for s in prot.values() if s[0] == "MeasurementCNOTandReset")
    if n_cnot != len(emit) or n_mcr != len(meas):
        return f"{n_cnot} emission CNOTs / {n_mcr} measure-and-reset ops placed for emit={emit} meas={meas}"
    for node, sig in prot.items():
        op = c.dag.nodes[node]["op"]
        if sig[0] == "CNOT" and op.control != emit[op.target]:
            return f"photon {op.target} emitted by emitter {op.control}, assignment says {emit[op.target]}"
        if sig[0] != "CNOT" and op.target != meas[op.control]:
            return f"emitter {op.control} measured onto photon {op.target}, assignment says {meas[op.control]}"
    return None


@S.item(
    "moves.random_history",
    site=ES + "{" + ", ".join(MOVES) + "}",
    bound="seeded histories of the 7 real move methods (uniformly drawn) from initial circuits of EvolutionarySolver."
    "initialization with (n_e,n_p) <= (3,5) and from TimeReversedSolver outputs for seeded graphs on 3..5 vertices: "
    "quick 80 histories x 120 moves, thorough 300 x 200; EmitInv checked after EVERY move",
    clause="every circuit obtained by any sequence of mutation moves satisfies the emission constraints; initial "
    "emission CNOTs / measure-and-reset operations are never removed",
)
def history_case(inp):
    solver, circ = _solver_for(inp["init"])
    if circ is None:
        circ = initial_circuit(solver, inp["init"])
    prot = protected_nodes(circ)
    bad = emit_inv(circ, prot)
    if bad:
        return f"initial circuit: {bad}"
    rng = np.random.default_rng(inp["seed"])
    np.random.seed(inp["seed"])
    import warnings

    trail = []
    for step in range(inp["length"]):
        name = MOVES[int(rng.integers(len(MOVES)))]
        trail.append(name)
        with warnings.catch_warnings():
            warnings.simplefilter("ignore")
            getattr(solver, name)(circ)
        bad = emit_inv(circ, prot)
        if bad:
            return f"after move #{step} ({name}; previous: {trail[-6:-1]}): {bad}"
    return None


class _Chooser:
    """systematic enumeration of every np.random.randint outcome (and of the move taken at each step)"""

    def __init__(self, prefix):
        self.prefix = list(prefix)
        self.trace = []

    def pick(self, k):
        if k <= 0:
            raise ValueError(f"randint over an empty range ({k})")
        i = len(self.trace)
        c = self.prefix[i] if i < len(self.prefix) else 0
        self.trace.append((c, k))
        return c


class _ScriptedRandom:
    def __init__(self, chooser, gate_rng):
        self.chooser = chooser
        self.gate_rng = gate_rng

    def randint(self, low, high=None, size=None):
        if size is not None:
            raise NotImplementedError("scripted randint with size")
        if high is None:
            return self.chooser.pick(int(low))
        return int(low) + self.chooser.pick(int(high) - int(low))

    def choice(self, a, p=None, **kw):
        if kw or not isinstance(a, (int, np.integer)):
            raise NotImplementedError("scripted choice over a non-integer population")
        return int(self.gate_rng.choice(int(a), p=p))  # which local Clifford: structurally irrelevant, not branched on


class _NpProxy:
    def __init__(self, real, rnd):
        self._real = real
        self.random = rnd

    def __getattr__(self, k):
        return getattr(self._real, k)


def _next_prefix(trace):
    t = list(trace)
    while t and t[-1][0] + 1 >= t[-1][1]:
        t.pop()
    if not t:
        return None
    return [c for c, _ in t[:-1]] + [t[-1][0] + 1]


@S.item(
    "moves.exhaustive_short",
    site=ES + "{" + ", ".join(MOVES) + "}",
    bound="EVERY sequence of L real moves with EVERY outcome of every np.random.randint position choice inside the moves "
    "(the drawn local Clifford is seeded, not branched on), from every initialization circuit with (n_e,n_p) <= (2,2) "
    "(all 23 emission/measurement assignments): quick L=2 (L=3 for two of the (2,2) circuits), thorough L=3; EmitInv checked after every move",
    exhaustive=True,
    clause="which edge pairs admit a two-qubit insertion / which nodes may be removed, for all short histories",
)
def exhaustive_case(inp):
    import warnings
    import graphiq.solvers.evolutionary_solver as es

    solver = make_solver(len(inp["init"]["meas"]), len(inp["init"]["emit"]))
    L = inp["L"]
    prefix = [inp["first"]] if "path" not in inp else list(inp["path"])
    gate_rng = np.random.default_rng(inp.get("seed", 0))
    real_np = es.np
    leaves = 0
    try:
        while prefix is not None:
            ch = _Chooser(prefix)
            es.np = _NpProxy(real_np, _ScriptedRandom(ch, gate_rng))
            circ = initial_circuit(solver, inp["init"])
            prot = protected_nodes(circ)
            names = []
            for step in range(L):
                m = ch.pick(len(MOVES))
                names.append(MOVES[m])
                with warnings.catch_warnings():
                    warnings.simplefilter("ignore")
                    try:
                        getattr(solver, MOVES[m])(circ)
                    except Exception as e:  # noqa: BLE001
                        return f"moves {names} with choices {[c for c, _ in ch.trace]}: {type(e).__name__}: {e}"
                bad = emit_inv(circ, prot)
                if bad:
                    return f"moves {names} with choices {[c for c, _ in ch.trace]} (replay with \"path\"): {bad}"
            leaves += 1
            if "path" in inp:
                break
            prefix = _next_prefix(ch.trace)
            if prefix is not None and prefix[0] != inp["first"]:
                break
    finally:
        es.np = real_np
    return None


# ------------------------------------------------------------------ (H3/H4) registers with two-digit indices
def _forced_move(solver, name, circ, choices, gate_seed):
    """run the real move with its np.random.randint outcomes forced to `choices` (missing ones: 0); -> [(choice, range)]"""
    import warnings
    import graphiq.solvers.evolutionary_solver as es

    ch = _Chooser(choices)
    real_np = es.np
    es.np = _NpProxy(real_np, _ScriptedRandom(ch, np.random.default_rng(gate_seed)))
    try:
        with warnings.catch_warnings():
            warnings.simplefilter("ignore")
            getattr(solver, name)(circ)
    finally:
        es.np = real_np
    return ch.trace


def _wire_snapshot(circ):
    """(symptom, {(t, r): [(node, class, wrapper gate names)]}) read by the independent wire walker"""
    bad, w = wires(circ)
    if bad:
        return bad, None
    out = {}
    for key, seq in w.items():
        row = []
        for node in seq:
            op = circ.dag.nodes[node]["op"]
            row.append((node, type(op).__name__, tuple(g.__name__ for g in getattr(op, "operations", []) or [])))
        out[key] = row
    return None, out


def _ops_on_their_wires(circ):
    """every op's registers equal the wires it sits on; every edge (quantum AND classical) carries the reg / reg_type of
    the wire its key names; edge_dict / node_dict (the indexes the moves pick from) agree with the graph"""
    dag = circ.dag
    for u, v, k, a in dag.edges(keys=True, data=True):
        if a.get("reg_type") != k[0] or a.get("reg") != int(k[1:]):
            return f"edge {(u, v, k)} carries reg_type/reg {a.get('reg_type')}/{a.get('reg')}"
    have = {t: sorted(map(str, es_)) for t, es_ in circ.edge_dict.items()}
    want = {}
    for u, v, k in dag.edges(keys=True):
        want.setdefault(k[0], []).append(str((u, v, k)))
    for t in set(have) | set(want):
        if sorted(want.get(t, [])) != have.get(t, []):
            return f"edge_dict[{t!r}] disagrees with the graph"
    for node in dag.nodes:
        op = dag.nodes[node]["op"]
        nm = type(op).__name__
        if nm in ("Input", "Output"):
            if f"{op.reg_type}{op.register}_{'in' if nm == 'Input' else 'out'}" != node:
                return f"node {node} carries {nm}({op.reg_type}{op.register})"
            continue
        for lab in set(op.labels) | {nm, op.parse_q_reg_types()}:
            if node not in circ.node_dict.get(lab, []):
                return f"node {node} ({nm}) is missing from node_dict[{lab!r}]"
    for lab, nodes in circ.node_dict.items():
        for node in nodes:
            if node not in dag.nodes:
                return f"node_dict[{lab!r}] lists the removed node {node}"
    return None


def _guided_sample(solver, name, circ, k, hot, rng):
    """which 32 of the k > 48 position choices are tried.  Only a HINT for the sampling (never part of the verdict): the
    two-qubit moves draw an index into the list returned by the solver's own _select_possible_*_position helper, whose
    edge keys tell which wires an index would touch; indices on wires with index >= 10 are preferred."""
    picked = {0, k - 1}
    try:
        helper = {"add_emitter_cnot": "_select_possible_cnot_position",
                  "add_measurement_cnot_and_reset": "_select_possible_measurement_position"}[name]
        pairs = getattr(solver, helper)(circ)
        if len(pairs) != k:
            raise ValueError
        keys = [{(e[2][0], int(e[2][1:])) for e in pair} for pair in pairs]
        hot_idx = [i for i, ks in enumerate(keys) if ks & hot]
        high_idx = [i for i, ks in enumerate(keys) if any(r >= 10 for _, r in ks)]
        for pool, cnt in ((hot_idx, 12), (high_idx, 10)):
            if pool:
                picked |= set(int(x) for x in rng.choice(pool, size=min(cnt, len(pool)), replace=False))
    except Exception:  # noqa: BLE001 - no hint available: plain seeded sample
        pass
    rest = [i for i in range(k) if i not in picked]
    need = max(0, 32 - len(picked))
    if need and rest:
        picked |= set(int(x) for x in rng.choice(rest, size=min(need, len(rest)), replace=False))
    return sorted(picked)


GUIDED_SCRIPT = [
    "add_measurement_cnot_and_reset", "add_emitter_one_qubit_op", "add_emitter_cnot", "remove_op", "add_photon_one_qubit_op",
    "add_measurement_cnot_and_reset", "remove_op", "add_measurement_cnot_and_reset", "replace_photon_one_qubit_op", "remove_op",
    "add_emitter_one_qubit_op", "replace_emitter_one_qubit_op", "add_emitter_cnot", "remove_op", "add_emitter_cnot",
    "add_photon_one_qubit_op", "remove_op", "remove_op", "add_measurement_cnot_and_reset", "add_emitter_one_qubit_op",
]


@S.item(
    "moves.two_digit_registers",
    site=ES + "{" + ", ".join(MOVES) + "} / graphiq.circuit.circuit_dag:CircuitDAG._remove_node, _insert_at",
    bound="initial circuits with >= 11 photons and/or >= 11 emitters: EvolutionarySolver.initialization for (n_e,n_p) in "
    "{(1,13),(2,12),(3,13),(11,12),(12,13)} and TimeReversedSolver outputs for path(12), star(11), cycle(12), ladder(12), "
    "K_{4,7}, grid 3x4 (thorough: and 6 fixed pseudo-random graphs on 11..13 vertices; all TRS inputs are a fixed sample, seed-"
    "independent - the deterministic solver with >= 5 emitters runs through stabilizer.inverse_circuit, known finding C11-F1); three windows (12 moves, thorough 36) of a fixed script of 20 moves in which removals are "
    "followed by additions; at EVERY step every outcome of the move's np.random.randint position choice (all if <= 48, else 32 "
    "seeded ones incl. first and last, preferring wires with index >= 10) is applied to a copy and EmitInv + op/wire/edge-attribute/index agreement checked, then the "
    "outcome that touches the wire touched by the previous move and has index >= 10 (else any wire with index >= 10) is applied to "
    "the circuit itself (same object through the whole history)",
    clause="every circuit obtained by any sequence of mutation moves (registers with index >= 10; remove followed by add on the "
    "same wire)",
)
def guided_case(inp):
    return _guided(inp, {})


def _guided(inp, stats):
    """stats (dev-time only): number of moves that reached a wire with index >= 10 / removals followed by an addition there"""
    solver, circ = _solver_for(inp["init"])
    if circ is None:
        circ = initial_circuit(solver, inp["init"])
    prot = protected_nodes(circ)
    bad = emit_inv(circ, prot) or _ops_on_their_wires(circ)
    if bad:
        return f"initial circuit: {bad}"
    rng = np.random.default_rng([inp["seed"], 404])
    hot = set()
    trail = []
    n_high = 0
    for step in range(inp["length"]):
        name = GUIDED_SCRIPT[(step + inp.get("offset", 0)) % len(GUIDED_SCRIPT)]
        bad, before = _wire_snapshot(circ)
        if bad:
            return f"before move #{step}: {bad}"
        probe = circ.copy()
        trace = _forced_move(solver, name, probe, [], inp["seed"] + step)
        if len(trace) > 1:
            return f"move {name} draws {len(trace)} positions (harness assumes one)"
        k = trace[0][1] if trace else 1
        if k <= 48:
            cands = list(range(k))
        else:
            cands = _guided_sample(solver, name, circ, k, hot, rng)
        scored = []
        for c in cands:
            trial = circ.copy()
            _forced_move(solver, name, trial, [c], inp["seed"] + step)
            bad = emit_inv(trial, prot) or _ops_on_their_wires(trial)
            if bad:
                return f"after move #{step} {name} with position choice {c} of {k} (previous: {trail[-5:]}): {bad}"
            _, after = _wire_snapshot(trial)
            touched = {key for key in before if before[key] != after[key]}
            high = {key for key in touched if key[1] >= 10}
            scored.append((2 if high & hot else 1 if high else 0, c, touched))
        best = max(sc for sc, _, _ in scored)
        pool = [(c, t) for sc, c, t in scored if sc == best]
        c, touched = pool[int(rng.integers(len(pool)))]
        _forced_move(solver, name, circ, [c], inp["seed"] + step)
        trail.append((name, c, sorted(f"{t}{r}" for t, r in touched)))
        bad = emit_inv(circ, prot) or _ops_on_their_wires(circ)
        if bad:
            return f"after move #{step} {name} with position choice {c} of {k} on the circuit itself (previous: {trail[-6:-1]}): {bad}"
        _, now = _wire_snapshot(circ)
        real_touched = {key for key in before if before[key] != now[key]}
        if real_touched != touched:
            return f"move #{step} {name} (choice {c}) touched wires {sorted(real_touched)} on the circuit and {sorted(touched)} on its copy"
        hot = {key for key in touched if key[1] >= 10} or hot
        n_high += bool(best)
    stats["high"] = n_high
    stats["trail"] = trail
    return None


@S.item(
    "moves.random_history_two_digit",
    site=ES + "{" + ", ".join(MOVES) + "}",
    bound="seeded histories of the 7 real move methods (uniformly drawn, real np.random) from initialization circuits with "
    "(n_e,n_p) in {(2,12),(3,13),(11,12),(12,11)}: quick 12 histories x 80 moves, thorough 60 x 150; EmitInv and op/wire/edge-"
    "attribute/index agreement after EVERY move",
    clause="every circuit obtained by any sequence of mutation moves (registers with index >= 10)",
)
def history_hi_case(inp):
    import warnings

    solver, circ = _solver_for(inp["init"])
    if circ is None:
        circ = initial_circuit(solver, inp["init"])
    prot = protected_nodes(circ)
    bad = emit_inv(circ, prot) or _ops_on_their_wires(circ)
    if bad:
        return f"initial circuit: {bad}"
    rng = np.random.default_rng(inp["seed"])
    np.random.seed(inp["seed"])
    trail = []
    for step in range(inp["length"]):
        name = MOVES[int(rng.integers(len(MOVES)))]
        trail.append(name)
        with warnings.catch_warnings():
            warnings.simplefilter("ignore")
            getattr(solver, name)(circ)
        bad = emit_inv(circ, prot) or _ops_on_their_wires(circ)
        if bad:
            return f"after move #{step} ({name}; previous: {trail[-6:-1]}): {bad}"
    return None


def _monitored(solver, log):
    """wrap the solver's move methods so that EmitInv is checked on the mutated circuit after every call.  The set of
    operations placed at initialisation is attached to the circuit object when a move first sees it (before the move);
    deep copies made by the solver (tournament selection, hall of fame) inherit it."""

    def wrap(name, fn):
        def moved(circuit, *a, **k):
            if not hasattr(circuit, "_c04_initial"):
                circuit._c04_initial = protected_nodes(circuit)
                bad0 = emit_inv(circuit, None)
                if bad0 and len(log) < 5:
                    log.append(f"before the first move on a population member: {bad0}")
            fn(circuit, *a, **k)
            bad = emit_inv(circuit, circuit._c04_initial)
            if bad and len(log) < 5:
                log.append(f"after {name}: {bad}")

        moved.__name__ = name
        return moved

    for name in MOVES:
        setattr(solver, name, wrap(name, getattr(solver, name)))
    solver.trans_probs = solver.initialize_transformation_probabilities()
    return solver


@S.item(
    "evolutionary.solve_monitored",
    site=ES + "solve",
    bound="EvolutionarySolver.solve() with every move wrapped by the EmitInv monitor: (n_e,n_p) in {(1,2),(1,3),(2,3),(2,4),(3,4)} "
    "x seeds (quick 2, thorough 10), n_pop=6, n_stop=12 (thorough 30), selection off and on; hof and result checked too",
    clause="observe circuit.dag after every move; solver.result; solver.hof",
)
def evo_solve_case(inp):
    import warnings
    from graphiq.solvers.evolutionary_solver import EvolutionarySolver, EvolutionarySolverSetting
    from graphiq.backends.stabilizer.compiler import StabilizerCompiler
    from graphiq.metrics import Infidelity
    from graphiq.state import QuantumState

    n_e, n_p = inp["ne"], inp["np"]
    target = QuantumState(n_p, rep_type="s")
    comp = StabilizerCompiler()
    comp.measurement_determinism = 1
    setting = EvolutionarySolverSetting(n_hof=3, n_stop=inp["n_stop"], n_pop=6, selection_active=bool(inp["selection"]))
    solver = EvolutionarySolver(target=target, metric=Infidelity(target), compiler=comp, n_emitter=n_e, n_photon=n_p, solver_setting=setting)
    probs = {k.__name__: v for k, v in solver.trans_probs.items()}
    if inp.get("with_mcr"):
        probs["add_measurement_cnot_and_reset"] = 0.2
        probs["add_photon_one_qubit_op"] = 0.2
    log = []
    _monitored(solver, log)
    solver.trans_probs = solver._normalize_trans_prob({getattr(solver, nm): p for nm, p in probs.items()})
    solver.seed(inp["seed"])
    with warnings.catch_warnings():
        warnings.simplefilter("ignore")
        solver.solve()
    if log:
        return "; ".join(log)
    for k, (score, circ) in enumerate(solver.hof):
        bad = emit_inv(circ)
        if bad:
            return f"hof[{k}]: {bad}"
        if sum(1 for s in protected_nodes(circ).values() if s[0] != "CNOT") < n_e:
            return f"hof[{k}]: fewer than {n_e} measure-and-reset operations left"
    bad = emit_inv(solver.result[1])
    if bad:
        return f"result: {bad}"
    return None


@S.item(
    "hybrid.population_and_solve",
    site="graphiq.solvers.hybrid_solvers:HybridEvolutionarySolver.population_initialization / randomize_circuit / solve",
    bound="all graphs without isolated vertex on n<=4 vertices (46) x seeds (quick 1, thorough 5): population_initialization() "
    "(n_pop=8) with monitored moves, every member must contain the deterministic circuit's emission CNOTs and "
    "measure-and-reset ops; then solve() with n_stop=4 (thorough 10), monitored; hof and result checked",
    clause="hybrid solver populations and their mutation moves",
)
def hybrid_case(inp):
    import warnings
    import bounded.C02 as C02
    from graphiq.solvers.hybrid_solvers import HybridEvolutionarySolver
    from graphiq.solvers.evolutionary_solver import EvolutionarySolverSetting
    from graphiq.backends.stabilizer.compiler import StabilizerCompiler
    from graphiq.metrics import Infidelity

    base = {"n": inp["n"], "edges": inp["edges"], "rep": "g", "comp": "stab"}
    _, _, ideal, _ = C02.run_solver(base)
    want = sorted(protected_nodes(ideal).values())
    target, _ = C02.build_target(base)
    comp = StabilizerCompiler()
    comp.measurement_determinism = 1
    setting = EvolutionarySolverSetting(n_hof=3, n_stop=inp["n_stop"], n_pop=8)
    solver = HybridEvolutionarySolver(target=target, metric=Infidelity(target), compiler=comp, solver_setting=setting)
    log = []
    _monitored(solver, log)
    solver.seed(inp["seed"])
    with warnings.catch_warnings():
        warnings.simplefilter("ignore")
        pop = solver.population_initialization()
        if log:
            return "population_initialization: " + "; ".join(log)
        if len(pop) != 8:
            return f"population of {len(pop)} members, n_pop = 8"
        for k, (_, circ) in enumerate(pop):
            bad = emit_inv(circ)
            if bad:
                return f"population[{k}]: {bad}"
            have = sorted(protected_nodes(circ).values())
            for sig in want:
                if have.count(sig) < want.count(sig):
                    return f"population[{k}] lost the deterministic circuit's {sig[0]} on {sig[1]}"
        solver.seed(inp["seed"] + 1)
        solver.solve()
    if log:
        return "solve: " + "; ".join(log)
    for k, (score, circ) in enumerate(solver.hof):
        bad = emit_inv(circ)
        if bad:
            return f"hof[{k}]: {bad}"
        have = sorted(protected_nodes(circ).values())
        for sig in want:
            if have.count(sig) < want.count(sig):
                return f"hof[{k}] lost the deterministic circuit's {sig[0]} on {sig[1]}"
    bad = emit_inv(solver.result[1])
    if bad:
        return f"result: {bad}"
    return None


@S.item(
    "evolutionary.solve_from_user_circuit",
    site=ES + "population_initialization / solve (circuit= supplied by the caller)",
    bound="EvolutionarySolver constructed with a start circuit (the TimeReversedSolver output for path(4), star(4), cycle(5), "
    "K4 minus an edge) and n_pop=4, n_stop=5, np.random seeds 0 and VERIF_SEED+1: population_initialization() twice and solve() "
    "twice on the SAME solver object, every move monitored with EmitInv; every population member / hof member / result keeps the "
    "start circuit's emission CNOTs and measure-and-reset operations; population members are distinct objects and the caller's "
    "circuit is unchanged afterwards (wire by wire, same nodes, same op classes)",
    clause="every circuit obtained from an initial solver circuit (user-supplied start circuit, n_pop > 1, seed 0 and non-zero)",
)
def user_circuit_case(inp):
    import warnings
    import bounded.C02 as C02
    from graphiq.solvers.evolutionary_solver import EvolutionarySolver, EvolutionarySolverSetting
    from graphiq.backends.stabilizer.compiler import StabilizerCompiler
    from graphiq.metrics import Infidelity

    base = {"n": inp["n"], "edges": inp["edges"], "rep": "g", "comp": "stab"}
    _, _, start, _ = C02.run_solver(base)
    bad, snap0 = _wire_snapshot(start)
    if bad:
        return f"start circuit: {bad}"
    want = sorted(protected_nodes(start).values())
    target, _ = C02.build_target(dict(base, rep="s"))
    comp = StabilizerCompiler()
    comp.measurement_determinism = 1
    setting = EvolutionarySolverSetting(n_hof=3, n_stop=5, n_pop=4, selection_active=bool(inp["selection"]))
    solver = EvolutionarySolver(target=target, metric=Infidelity(target), compiler=comp, circuit=start,
                                n_emitter=start.n_emitters, n_photon=start.n_photons, solver_setting=setting)
    log = []
    _monitored(solver, log)

    def members_ok(what, circs):
        for k, circ in enumerate(circs):
            b = emit_inv(circ) or _ops_on_their_wires(circ)
            if b:
                return f"{what}[{k}]: {b}"
            have = sorted(protected_nodes(circ).values())
            for sig in want:
                if have.count(sig) < want.count(sig):
                    return f"{what}[{k}] lost the start circuit's {sig[0]} on {sig[1]}"
        return None

    def caller_unchanged(when):
        b, snap = _wire_snapshot(start)
        if b or snap != snap0:
            return f"{when}: the caller's start circuit was modified ({b or 'operations on its wires changed'})"
        return None

    with warnings.catch_warnings():
        warnings.simplefilter("ignore")
        for rnd in (1, 2):
            solver.seed(inp["seed"] + rnd - 1)
            pop = solver.population_initialization()
            circs = [c for _, c in pop]
            if len(circs) != 4:
                return f"population of {len(circs)} members, n_pop = 4"
            if len({id(c) for c in circs}) != 4 or any(c is start for c in circs):
                return f"population_initialization #{rnd}: members share one circuit object (or are the caller's circuit)"
            b = members_ok(f"population #{rnd}", circs)
            if b:
                return b
            # a move on one member must not show in another member or in the caller's circuit
            solver.add_emitter_one_qubit_op(circs[0])
            _, s1 = _wire_snapshot(circs[1])
            if s1 != snap0:
                return f"population_initialization #{rnd}: a move on member 0 changed member 1"
            b = caller_unchanged(f"after a move on a population member (#{rnd})")
            if b:
                return b
            # solve() leaves its logs behind as DataFrames (logs_to_df) and cannot append to them again: the harness puts
            # the log lists back to their constructor state; hall of fame and every other solver attribute persist
            solver.logs = {"population": [], "hof": []}
            solver.solve()
            if log:
                return f"solve #{rnd}: " + "; ".join(log)
            b = members_ok(f"hof (solve #{rnd})", [c for _, c in solver.hof]) or members_ok(f"result (solve #{rnd})", [solver.result[1]])
            if b:
                return b
            b = caller_unchanged(f"after solve #{rnd}")
            if b:
                return b
    return None


@S.item(
    "time_reversed.output",
    site="graphiq.solvers.time_reversed_solver:TimeReversedSolver.solve",
    bound="all labelled graphs without isolated vertex n<=4 (thorough n<=5 and 1500 seeded graphs on 6..7 vertices), graph input",
    exhaustive=False,  # exhaustive part + seeded part, see bound
    clause="every circuit produced by the deterministic solver",
)
def trs_case(inp):
    import bounded.C02 as C02

    _, _, circ, _ = C02.run_solver({"n": inp["n"], "edges": inp["edges"], "rep": "g", "comp": "stab"})
    bad = emit_inv(circ)
    if bad:
        return bad
    for node, sig in protected_nodes(circ).items():
        if "Fixed" not in circ.dag.nodes[node]["op"].labels:
            return f"{sig[0]} on {sig[1]} is not marked as non-removable ('Fixed')"
    return None


ATS_METHODS = [None, "random", "random_with_iso", "random_with_rep", "lc_with_iso", "linear", "depth_first", "rgs"]


@S.item(
    "alternate_target.outputs",
    site="graphiq.solvers.alternate_target_solver:AlternateTargetSolver.solve / graph_to_circ",
    bound="connected graphs on 3..4 (quick: all on 3, 12 seeded on 4; thorough: all on 3..4, 60 seeded on 5) vertices x lc_method in "
    "{None, random, random_with_iso, random_with_rep, lc_with_iso, depth_first; linear on path graphs; rgs on the repeater "
    "graphs with 4 and 6 vertices} x (n_iso, n_lc) in {(1,1),(2,3)}, plus (n_iso, n_lc, lc_orbit_depth) = (3,4,2) for {None, "
    "random_with_iso, lc_with_iso} on all connected 3-vertex and 4 (thorough 12) 4-vertex graphs; every circuit in the returned result list",
    clause="every circuit produced by the alternate-target solver",
)
def ats_case(inp):
    import warnings
    import networkx as nx
    from graphiq.solvers.alternate_target_solver import AlternateTargetSolver, AlternateTargetSolverSetting
    from graphiq.backends.stabilizer.compiler import StabilizerCompiler
    from graphiq.metrics import Infidelity

    g = nx.Graph()
    g.add_nodes_from(range(inp["n"]))
    g.add_edges_from([tuple(e) for e in inp["edges"]])
    kw = {"lc_orbit_depth": inp["depth"]} if "depth" in inp else {}
    setting = AlternateTargetSolverSetting(n_iso_graphs=inp["n_iso"], n_lc_graphs=inp["n_lc"], lc_method=inp["lc_method"], **kw)
    np.random.seed(inp["seed"])
    with warnings.catch_warnings():
        warnings.simplefilter("ignore")
        solver = AlternateTargetSolver(target=g, metric=Infidelity, compiler=StabilizerCompiler(), solver_setting=setting, seed=inp["seed"])
        res = solver.solve()
    if not res:
        return "no circuit returned"
    for k, (circ, info) in enumerate(res):
        bad = emit_inv(circ)
        if bad:
            return f"result[{k}] (graph {sorted(info['g'].edges())}): {bad}"
        if circ.n_photons != inp["n"]:
            return f"result[{k}] has {circ.n_photons} photons for a {inp['n']}-vertex target"
    return None


# ------------------------------------------------------------------ domain
def _connected(n, edges):
    adj = {i: set() for i in range(n)}
    for a, b in edges:
        adj[a].add(b)
        adj[b].add(a)
    seen, todo = {0}, [0]
    while todo:
        u = todo.pop()
        for v in adj[u]:
            if v not in seen:
                seen.add(v)
                todo.append(v)
    return len(seen) == n


def _is_path(n, edges):
    deg = [0] * n
    for a, b in edges:
        deg[a] += 1
        deg[b] += 1
    return len(edges) == n - 1 and max(deg) == 2 and _connected(n, edges)


def run(tier, seed):
    import bounded.C02 as C02

    thorough = tier == "thorough"
    rng = np.random.default_rng(seed)

    inits = []
    for n_e, n_p in [(1, 1), (1, 2), (2, 1), (2, 2), (1, 3), (2, 3), (3, 2)]:
        for emit in itertools.product(range(n_e), repeat=n_p):
            for meas in itertools.product(range(n_p), repeat=n_e):
                inits.append({"emit": list(emit), "meas": list(meas)})
    for n_e in range(1, 5):
        for n_p in range(n_e, 7):
            for s in range(20):
                inits.append({"ne": n_e, "np": n_p, "seed": seed * 1000 + s})
    S.map("initialization.establishes", inits)

    # random histories
    hist = []
    n_hist, length = (300, 200) if thorough else (80, 120)
    for h in range(n_hist):
        if h % 4 == 3:
            n = int(rng.integers(3, 6))
            while True:
                A = np.triu((rng.random((n, n)) < 0.6).astype(int), 1)
                edges = [[i, j] for i in range(n) for j in range(i + 1, n) if A[i, j]]
                if not C02._has_isolated(n, edges):
                    break
            init = {"kind": "trs", "n": n, "edges": edges}
        else:
            n_e = int(rng.integers(1, 4))
            n_p = int(rng.integers(max(1, n_e), 6))
            init = {"kind": "init", "emit": rng.integers(0, n_e, size=n_p).tolist(), "meas": rng.integers(0, n_p, size=n_e).tolist()}
        hist.append({"init": init, "seed": seed * 100000 + h, "length": length})
    S.map("moves.random_history", hist, chunksize=1)

    # (H3/H4) >= 11 photons / emitters: guided histories (remove followed by add on wires with index >= 10)
    import networkx as nx

    hi_inits = []
    for n_e, n_p in [(1, 13), (2, 12), (3, 13), (11, 12), (12, 13)]:
        hi_inits.append({"kind": "init", "emit": [(n_p - 1 - i) % n_e for i in range(n_p)], "meas": [(n_p - 1 - 2 * j) % n_p for j in range(n_e)]})
    named = [nx.path_graph(12), nx.star_graph(10), nx.cycle_graph(12), nx.ladder_graph(6), nx.complete_bipartite_graph(4, 7),
             nx.convert_node_labels_to_integers(nx.grid_2d_graph(3, 4))]
    for g in named:
        hi_inits.append({"kind": "trs", "n": g.number_of_nodes(), "edges": sorted([min(a, b), max(a, b)] for a, b in g.edges())})
    rng_hi = np.random.default_rng([seed, 4040])
    # fixed sample, seed-independent: the deterministic solver on graphs with >= 5 emitters goes through
    # stabilizer.inverse_circuit (known finding C11-F1 concerns some states with n >= 5); these 6 graphs were checked to pass
    rng_fix = np.random.default_rng(4040)
    for _ in range(6 if thorough else 0):
        n = int(rng_fix.integers(11, 14))
        while True:
            A = np.triu((rng_fix.random((n, n)) < 0.25).astype(int), 1)
            edges = [[i, j] for i in range(n) for j in range(i + 1, n) if A[i, j]]
            if not C02._has_isolated(n, edges):
                break
        hi_inits.append({"kind": "trs", "n": n, "edges": edges})
    # three windows of the script per initial circuit (>= 32 inputs, so that the pool is used)
    S.map("moves.two_digit_registers",
          [{"init": it, "seed": seed * 1000 + 10 * k + j, "length": 36 if thorough else 12, "offset": off}
           for k, it in enumerate(hi_inits) for j, off in enumerate((0, 4, 10))], chunksize=1)
    hh = []
    for h in range(60 if thorough else 12):
        n_e, n_p = [(2, 12), (3, 13), (11, 12), (12, 11)][h % 4]
        hh.append({"init": {"kind": "init", "emit": rng_hi.integers(0, n_e, size=n_p).tolist(), "meas": rng_hi.integers(0, n_p, size=n_e).tolist()},
                   "seed": seed * 100000 + 7000 + h, "length": 150 if thorough else 80})
    S.map("moves.random_history_two_digit", hh, procs=int(__import__("os").environ.get("VERIF_PROCS", "16")), chunksize=1)

    # exhaustive short sequences
    ex = []
    L = 3 if thorough else 2
    for n_e, n_p in [(1, 1), (1, 2), (2, 1), (2, 2)]:
        for emit in itertools.product(range(n_e), repeat=n_p):
            for meas in itertools.product(range(n_p), repeat=n_e):
                deep = (not thorough) and (list(emit), list(meas)) in (([0, 1], [1, 0]), ([0, 0], [0, 0]))
                for first in range(len(MOVES)):
                    ex.append({"init": {"kind": "init", "emit": list(emit), "meas": list(meas)}, "L": 3 if deep else L, "first": first, "seed": seed})
    S.map("moves.exhaustive_short", ex, chunksize=1)

    evo = []
    for (n_e, n_p) in [(1, 2), (1, 3), (2, 3), (2, 4), (3, 4)]:
        for s in range(10 if thorough else 2):
            evo.append({"ne": n_e, "np": n_p, "seed": seed * 100 + s, "n_stop": 30 if thorough else 12, "selection": s % 2, "with_mcr": (s // 2) % 2 == 0})
    S.map("evolutionary.solve_monitored", evo, procs=int(__import__("os").environ.get("VERIF_PROCS", "16")), chunksize=1)

    ug = [(4, [[0, 1], [1, 2], [2, 3]]), (4, [[0, 1], [0, 2], [0, 3]]), (5, [[0, 1], [1, 2], [2, 3], [3, 4], [0, 4]]),
          (4, [[0, 1], [0, 2], [0, 3], [1, 2], [1, 3]])]
    S.map("evolutionary.solve_from_user_circuit",
          [{"n": n, "edges": e, "seed": sd, "selection": k % 2} for k, (n, e) in enumerate(ug) for sd in (0, seed + 1)])

    graphs = [{"n": n, "edges": e} for n in range(2, 5) for e in C02._graphs(n) if not C02._has_isolated(n, e)]
    hyb = [dict(g, seed=seed * 100 + s, n_stop=10 if thorough else 4) for g in graphs for s in range(5 if thorough else 1)]
    S.map("hybrid.population_and_solve", hyb, chunksize=1)

    trs = [{"n": n, "edges": e} for n in range(1, (6 if thorough else 5)) for e in C02._graphs(n) if not C02._has_isolated(n, e)]
    if thorough:
        while len(trs) < 814 + 1500:
            n = int(rng.integers(6, 8))
            A = np.triu((rng.random((n, n)) < rng.uniform(0.3, 0.8)).astype(int), 1)
            edges = [[i, j] for i in range(n) for j in range(i + 1, n) if A[i, j]]
            if not C02._has_isolated(n, edges):
                trs.append({"n": n, "edges": edges})
    S.map("time_reversed.output", trs)
    S.note(
        "evolutionary.solve_from_user_circuit: a second solve() on one EvolutionarySolver raises AttributeError ('DataFrame' object "
        "has no attribute 'append') because logs_to_df() replaced the log lists; not part of C04's statement - the harness resets "
        "solver.logs between the two runs"
    )

    ats = []
    for n in range(3, (6 if thorough else 5)):
        conn = [e for e in C02._graphs(n) if _connected(n, e)]
        if n == 5:
            conn = [conn[i] for i in rng.choice(len(conn), size=60, replace=False)]
        elif n == 4 and not thorough:
            conn = [conn[i] for i in rng.choice(len(conn), size=12, replace=False)]
        for e in conn:
            for m in ATS_METHODS[:-1]:
                if m == "linear" and not _is_path(n, e):
                    continue  # linear_partial_orbit is specified for linear cluster states only
                for (ni, nl) in ((1, 1), (2, 3)):
                    ats.append({"n": n, "edges": e, "lc_method": m, "n_iso": ni, "n_lc": nl, "seed": seed + 1})
    # (H6) non-default settings: n_iso_graphs = 3, orbit depth 2 (with_iso=True inside the *_with_iso methods)
    for n in (3, 4):
        conn = [e for e in C02._graphs(n) if _connected(n, e)]
        if n == 4:
            conn = conn[:: max(1, len(conn) // (12 if thorough else 4))]
        for e in conn:
            for m in (None, "random_with_iso", "lc_with_iso"):
                ats.append({"n": n, "edges": e, "lc_method": m, "n_iso": 3, "n_lc": 4, "depth": 2, "seed": seed + 2})
    for k in (2, 3):  # repeater graph states (the only inputs rgs_orbit_finder is specified for)
        e = [[2 * i, 2 * i + 1] for i in range(k)] + [[2 * i + 1, 2 * j + 1] for i in range(k) for j in range(i + 1, k)]
        for (ni, nl) in ((1, 1), (2, 3)):
            ats.append({"n": 2 * k, "edges": e, "lc_method": "rgs", "n_iso": ni, "n_lc": nl, "seed": seed + 1})
    S.map("alternate_target.outputs", ats)
    return S
