"""C02 - the time-reversed (deterministic) solver returns a circuit that generates the target exactly.

Contracts sit on the real `TimeReversedSolver(...).solve()`; the returned circuit is judged by the textbook state-vector
semantics in `refsem.core` (NOT by graphiq's compilers / metric), over every combination of measurement outcomes.
A second item re-runs the returned circuit through graphiq's two real compilers ("simulated ... by either backend").

Input of a case (JSON):  {"n": n, "edges": [[i,j],..], "rep": "g"|"s"|"dm", "comp": "stab"|"dm",
                          "order": [labels in insertion order] (optional, rep "g"),   "M": GF(2) matrix (optional, rep "s")}
The vertex order of the target is the order in which the nodes are inserted into the networkx graph (= the row order of
nx.to_numpy_array, which is what every graphiq conversion uses); photon i of the circuit must carry the i-th vertex.
"""
from __future__ import annotations

import itertools

import numpy as np

from vf.bounded import Suite
from refsem import core as R
from refsem import cgroup as G
from refsem import cutrank as CR
from refsem import c02_targets as T

S = Suite("C02")

SITE = "graphiq.solvers.time_reversed_solver:TimeReversedSolver.solve"


# ------------------------------------------------------------------ building the real objects from the JSON input
def _adj(inp):
    """adjacency matrix in the solver's vertex order (position i = i-th inserted node)"""
    n = inp["n"]
    order = inp.get("order") or list(range(n))
    pos = {lab: i for i, lab in enumerate(order)}
    A = np.zeros((n, n), dtype=int)
    for a, b in inp["edges"]:
        A[pos[a], pos[b]] = A[pos[b], pos[a]] = 1
    return A


def _gf2_inv(M):
    M = np.array(M, dtype=int) % 2
    n = len(M)
    aug = np.concatenate([M, np.eye(n, dtype=int)], axis=1)
    r = 0
    for c in range(n):
        piv = next(i for i in range(r, n) if aug[i, c])
        aug[[r, piv]] = aug[[piv, r]]
        for i in range(n):
            if i != r and aug[i, c]:
                aug[i] ^= aug[r]
        r += 1
    return aug[:, n:]


def _clifford_table(A, M=None):
    """A Clifford tableau (destabilizers on top, stabilizers below, all built by hand) whose stabilizer half is the
    standard generating set K_i = X_i prod_j Z_j^{A_ij} of the graph state, or the generating set M.K (signed products)."""
    n = len(A)
    xs, zs, rs = G.graph_rows(A)
    dz = np.eye(n, dtype=int)  # destabilizers Z_i
    if M is not None:
        xs, zs, rs = G.regauge(xs, zs, rs, M)
        dz = (_gf2_inv(M).T @ dz) % 2  # D' = M^{-T} D keeps <D'_i, S'_j> = delta_ij
    table = np.zeros((2 * n, 2 * n), dtype=int)
    table[:n, n:] = dz
    table[n:, :n] = np.array(xs, dtype=int)
    table[n:, n:] = np.array(zs, dtype=int)
    phase = np.zeros(2 * n, dtype=int)
    phase[n:] = rs
    assert R.clifford_valid(table, n)
    return table, phase


def build_target(inp):
    import networkx as nx
    from graphiq.state import QuantumState
    from graphiq.backends.stabilizer.clifford_tableau import CliffordTableau

    A = _adj(inp)
    n = inp["n"]
    rep = inp["rep"]
    if rep == "g":
        g = nx.Graph()
        g.add_nodes_from(inp.get("order") or list(range(n)))
        g.add_edges_from([tuple(e) for e in inp["edges"]])
        return QuantumState(g, rep_type="g"), A
    if rep in ("g_np_int", "g_np_float"):  # the same graph from an adjacency matrix: edges carry int / float 'weight' attributes
        assert not inp.get("order")
        g = nx.from_numpy_array(A.astype(int if rep == "g_np_int" else float))
        return QuantumState(g, rep_type="g"), A
    if rep == "g_edges":  # nx.Graph(edge list): no attributes, nodes inserted in order of first appearance (= inp["order"])
        g = nx.Graph([tuple(e) for e in inp["edges"]])
        assert list(g.nodes) == list(inp["order"]), "harness: order must be the order of first appearance in the edge list"
        return QuantumState(g, rep_type="g"), A
    if rep == "s":
        table, phase = _clifford_table(A, inp.get("M"))
        return QuantumState(CliffordTableau(table, phase), rep_type="s"), A
    if rep == "dm":
        return QuantumState(np.array(R.dm(R.graph_state(A))), rep_type="dm"), A
    raise ValueError(rep)


def make_compiler(name):
    from graphiq.backends.stabilizer.compiler import StabilizerCompiler
    from graphiq.backends.density_matrix.compiler import DensityMatrixCompiler

    return StabilizerCompiler() if name == "stab" else DensityMatrixCompiler()


def run_solver(inp):
    from graphiq.solvers.time_reversed_solver import TimeReversedSolver
    from graphiq.metrics import Infidelity

    target, A = build_target(inp)
    np.random.seed(inp.get("seed", 0))  # the solver compiles its own circuit with probabilistic measurement outcomes
    solver = TimeReversedSolver(target=target, metric=Infidelity(target), compiler=make_compiler(inp["comp"]))
    solver.solve()
    score, circuit = solver.result
    return solver, score, circuit, A


def wanted_state(A, n_e):
    v = R.graph_state(A)
    return np.kron(v, R.ket0(n_e)) if n_e else v


def judge_all_outcomes(circuit, A):
    """refsem judgement of a graphiq circuit: for every feasible combination of measurement outcomes the final state is
    |G(A)> on the photons (in order) (x) |0..0> on the emitters, up to a global phase.  -> symptom or None"""
    n = len(A)
    if circuit.n_photons != n:
        return f"circuit has {circuit.n_photons} photon registers, target has {n} qubits"
    ops = R.graphiq_ops(circuit)
    ntot = circuit.n_photons + circuit.n_emitters
    want = wanted_state(A, circuit.n_emitters)
    m = len(R.measuring(ops))
    feasible = 0
    for outs in itertools.product([0, 1], repeat=m):
        res = R.run_ops(ntot, ops, outcomes=outs)
        if res is None:
            continue
        feasible += 1
        if not R.same_state(res[0], want):
            ov = abs(np.vdot(res[0], want)) ** 2
            return f"measurement outcomes {list(outs)}: |<out|G(x)0..0>|^2 = {ov:.6f}, expected 1 (ops={ops})"
    if feasible == 0:
        return "no feasible outcome combination (refsem)"
    return None


# ------------------------------------------------------------------ contracts
def solve_case(inp):
    solver, score, circuit, A = run_solver(inp)
    circuit.validate()  # "returns a valid circuit": the real validator must accept it (raises otherwise)
    bad = judge_all_outcomes(circuit, A)
    if bad:
        return bad
    if not np.isclose(score, 0.0):
        return f"reported score {score!r}, true infidelity of the returned circuit is 0"
    return None


_B_REPS = "given as graph / stabilizer (hand-built Clifford tableau) / density-matrix QuantumState x solver compiler in {stabilizer, density matrix}"

S.item(
    "solve.exact",
    site=SITE,
    bound="all labelled graphs without isolated vertex on n<=4 (quick: 46) / n<=5 (thorough: 814) vertices, " + _B_REPS
    + "; refsem state vector over EVERY combination of measurement outcomes",
    exhaustive=True,
    clause="valid circuit; photons exactly the target and every emitter |0> whatever the measurement outcomes; score 0",
)(solve_case)

S.item(
    "solve.exact.isolated_vertex",
    site=SITE,
    bound="fixed sample, seed-independent (touches known finding C02-F1): all 29 labelled graphs WITH an isolated vertex on "
    "n<=4 vertices as graph input / stabilizer compiler, the 6 on n<=3 also in the other 5 input x compiler combinations "
    "(59 cases); thorough adds every 6th of the 256 such graphs on 5 vertices (43); same contract as solve.exact",
    exhaustive=False,
    clause="same, for targets 'connected or not, with or without isolated vertices'",
)(solve_case)

S.item(
    "solve.vertex_order",
    site=SITE,
    bound="graphs on n<=4 (thorough n<=5) vertices without isolated vertex whose nodes carry labels inserted in a "
    "non-sorted order (all 5 non-identity orders for n=3, 2 seeded orders per graph otherwise), graph input, both compilers",
    clause="any vertex order: photon i carries the i-th vertex of the target's own order",
)(solve_case)

S.item(
    "solve.generating_set",
    site=SITE,
    bound="graphs without isolated vertex n<=4 (thorough n<=5) given as stabilizer QuantumState in another generating "
    "set M.K (signed products; all 5 non-identity M for n=2, 2 seeded invertible M per graph otherwise), stabilizer compiler",
    clause="target given as stabilizer QuantumState (the state, not a particular generating set, is the target)",
)(solve_case)


# Targets on 7..9 vertices found by a seeded search (on the unchanged tree) for which the solver's time-reversed
# measurement step meets a generator of sign -1 (it has to flip the emitter before the measure-and-reset).  On n <= 5
# vertices this never happens and on 6 vertices for 100 of the 27449 graphs (all of them are in solve.exact.six_vertices), so
# these - and the seeded random graphs of the same sizes - are what exercises that sign repair.  They are ordinary members of the property's domain ("every target graph state").
SIGNED_MEASUREMENT_TARGETS = [
    (7, [[0,2],[1,3],[1,5],[1,6],[2,3],[2,5],[2,6],[3,4],[3,5],[3,6]]),
    (7, [[0,1],[2,4],[2,5],[2,6],[3,5],[3,6],[4,6],[5,6]]),
    (7, [[0,1],[0,2],[0,3],[0,6],[1,3],[1,6],[3,4],[3,5],[3,6],[4,5],[4,6],[5,6]]),
    (7, [[0,3],[1,3],[1,4],[1,6],[2,3],[4,5],[4,6],[5,6]]),
    (8, [[0,1],[0,3],[0,7],[1,2],[1,4],[1,7],[2,3],[2,4],[2,5],[2,7],[3,4],[3,7],[4,6],[4,7],[5,6],[5,7],[6,7]]),
    (8, [[0,1],[0,2],[0,6],[0,7],[1,3],[1,5],[1,7],[2,5],[2,7],[3,5],[3,6],[4,7],[5,6],[6,7]]),
    (8, [[0,1],[0,2],[0,3],[0,5],[0,7],[1,2],[1,4],[1,6],[1,7],[2,3],[2,4],[2,6],[2,7],[3,4],[3,6],[3,7],[4,5],[4,6],[4,7],[5,6],[6,7]]),
    (8, [[0,1],[0,2],[0,3],[0,4],[0,5],[0,6],[0,7],[1,2],[1,3],[1,4],[1,5],[1,6],[2,4],[2,5],[2,6],[3,4],[3,5],[3,6],[4,5],[5,7],[6,7]]),
    (8, [[0,1],[0,2],[1,3],[1,4],[1,5],[1,6],[2,3],[2,4],[2,5],[2,6],[3,4],[3,5],[3,7],[4,5]]),
    (8, [[0,3],[0,4],[0,7],[1,3],[1,4],[1,5],[2,4],[2,7],[4,5],[4,6],[4,7]]),
    (8, [[0,3],[0,4],[0,7],[1,2],[1,3],[1,4],[1,5],[1,6],[1,7],[2,4],[2,5],[2,6],[2,7],[3,4],[3,5],[3,6],[3,7],[4,6],[4,7],[5,6],[5,7],[6,7]]),
    (8, [[0,1],[0,3],[0,4],[0,5],[0,7],[1,2],[1,5],[1,7],[2,3],[3,4],[4,5],[4,7],[5,6],[5,7]]),
    (8, [[0,1],[0,2],[1,2],[3,4],[3,6],[3,7],[4,5],[4,6],[4,7],[5,6],[6,7]]),
    (9, [[0,3],[0,5],[0,6],[0,7],[0,8],[1,3],[1,4],[1,5],[1,7],[2,3],[2,4],[3,4],[3,5],[3,8],[4,6],[4,7],[4,8],[5,8]]),
    (9, [[0,4],[1,3],[2,4],[2,5],[2,6],[2,7],[2,8],[3,4],[3,5],[3,6],[3,7],[5,6],[5,8],[6,7]]),
    (9, [[0,8],[1,3],[1,8],[2,4],[4,6],[4,7],[5,6],[5,8],[6,8]]),
    (9, [[0,2],[1,5],[1,8],[3,4],[3,6],[3,7],[4,5],[4,6],[5,7],[5,8],[6,8]]),
    (9, [[0,5],[0,6],[0,7],[0,8],[1,5],[1,6],[1,7],[2,3],[4,5],[4,6],[5,6],[5,7]]),
    (9, [[0,1],[0,2],[0,3],[0,4],[0,5],[0,6],[0,7],[1,2],[1,4],[1,5],[1,6],[1,7],[1,8],[2,3],[2,4],[2,5],[2,6],[2,7],[2,8],[3,4],[3,5],[3,6],[3,7],[3,8],[4,6],[4,7],[4,8],[5,7],[5,8],[6,7],[6,8],[7,8]]),
    (9, [[0,1],[0,2],[0,5],[0,8],[1,2],[1,3],[1,5],[2,3],[4,5],[4,6],[4,7],[5,7],[5,8],[6,8]]),
]

S.item(
    "solve.exact.large",
    site=SITE,
    bound="20 fixed graphs on 7..9 vertices (signed time-reversed measurements) + seeded random graphs without isolated "
    "vertex on 7..9 vertices (quick 90, thorough 1500; <= 4 emitters, out of reach of known finding C11-F1), given as graph and as stabilizer QuantumState, stabilizer compiler; thorough adds 5000 seeded graphs of the 27449 on 6 vertices (graph input); "
    "refsem state vector (up to 13 qubits) over every combination of measurement outcomes",
    clause="same contract as solve.exact on larger targets (emitter sign corrections before mid-circuit measurements)",
)(solve_case)


S.item(
    "solve.exact.six_vertices",
    site=SITE,
    bound="fixed list, seed-independent (refsem/c02_targets.py): ALL 27449 labelled graphs without isolated vertex on 6 vertices leave "
    "763 distinct leftover emitter states in 2430 distinct tableaux (the argument of the final inverse_circuit call, recorded on the "
    "unchanged tree).  quick: for EVERY one of the 763 states one target, and a second one with a different tableau where there is "
    "one (1346 targets; 1268 need 3 emitters); thorough: one target for every one of the 2430 tableaux; both tiers: + ALL 100 six-vertex "
    "graphs whose time-reversed measurement meets a negative generator; graph input, numpy seed (graph number mod 3) for the solver's own compilation, stabilizer "
    "compiler; refsem state vector over every combination of measurement outcomes",
    exhaustive=True,
    clause="same contract as solve.exact on targets that need 3 emitters (every final emitter-disentangling stage a 6-vertex target can reach)",
)(solve_case)

S.item(
    "solve.exact.large_families",
    site=SITE,
    bound="fixed list, seed-independent: 249 graphs on 7..9 vertices (up to 4 emitters, out of reach of known finding C11-F1), one per "
    "structural signature of the leftover emitter state (number of emitters, X rank, weights and signs of the Z-type subgroup basis, "
    "negative X-type rows) found in 6000 random graphs (refsem/c02_targets.py); thorough: + 523 more (up to 4 per signature); "
    "alternately given as graph / stabilizer QuantumState, stabilizer compiler; every combination of measurement outcomes",
    clause="same contract as solve.exact on larger targets with >= 3 emitters (dense graphs, negative signs in the leftover emitter state)",
)(solve_case)

S.item(
    "solve.exact.ten_plus",
    site=SITE,
    bound="fixed list, seed-independent: 14 graphs on 10..12 vertices with <= 3 emitters (paths, stars, cycles, a caterpillar, a "
    "comb, a ladder, two disjoint stars, a relabelled path: register indices >= 10, i.e. two-digit register names), graph input, "
    "stabilizer compiler; every combination of measurement outcomes (up to 15 qubits)",
    clause="same contract as solve.exact on targets with >= 10 photons",
)(solve_case)


def _first_appearance(edges):
    order = []
    for e in edges:
        for v in e:
            if v not in order:
                order.append(v)
    return order


@S.item(
    "solve.input_construction",
    site=SITE,
    bound="all graphs without isolated vertex on n<=4 vertices (thorough n<=5) + the first 60 (thorough 249) of solve.exact.large_families, "
    "each built as nx.from_numpy_array(int matrix), nx.from_numpy_array(float matrix) (edges carry 'weight' attributes) and "
    "nx.Graph(edge list) with the edge list in a seeded shuffled order (nodes inserted in order of first appearance); stabilizer "
    "compiler (n<=4 also density-matrix compiler)",
    clause="every target graph state, however the networkx graph was constructed (the vertex order is the graph's own node order)",
)
def construction_case(inp):
    return solve_case(inp)


@S.item(
    "solve.repeated_use",
    site=SITE + " (several solvers sharing one compiler; solve() called twice; the same target object handed to a second solver)",
    bound="sequences of 3 targets drawn (seeded) from the graphs without isolated vertex on 2..5 vertices such that consecutive targets have "
    "different (photons, emitters) splits, 60 sequences (thorough 400), plus 6 fixed sequences with EQUAL totals and different splits "
    "(e.g. C4: 4 photons + 2 emitters, P5 and S5: 5 + 1); one compiler instance (stabilizer / density matrix alternately) for the whole sequence; "
    "after the sequence: solve() once more on the first solver, and a new solver on the first solver's (already used) target object",
    clause="every call returns a valid circuit generating its own target with score 0 - also the 2nd, 3rd ... use of the same "
    "compiler / solver / target objects",
)
def repeated_case(inp):
    from graphiq.solvers.time_reversed_solver import TimeReversedSolver
    from graphiq.metrics import Infidelity

    comp = make_compiler(inp["comp"])
    np.random.seed(inp.get("seed", 0))
    made = []
    for k, (n, edges) in enumerate(inp["targets"]):
        case = {"n": n, "edges": edges, "rep": inp["reps"][k], "comp": inp["comp"]}
        target, A = build_target(case)
        solver = TimeReversedSolver(target=target, metric=Infidelity(target), compiler=comp)
        solver.solve()
        score, circuit = solver.result
        made.append((solver, target, A))
        circuit.validate()
        bad = judge_all_outcomes(circuit, A)
        if bad:
            return f"target {k} of the sequence (shared compiler): {bad}"
        if not np.isclose(score, 0.0):
            return f"target {k} of the sequence (shared compiler): reported score {score!r}, true infidelity is 0"
    solver, target, A = made[0]
    solver.solve()  # the same solver object once more
    score, circuit = solver.result
    circuit.validate()
    bad = judge_all_outcomes(circuit, A)
    if bad:
        return f"second solve() of the first solver: {bad}"
    if not np.isclose(score, 0.0):
        return f"second solve() of the first solver: reported score {score!r}, true infidelity is 0"
    again = TimeReversedSolver(target=target, metric=Infidelity(target), compiler=make_compiler(inp["comp"]))
    again.solve()  # a new solver on the target object the first solver has already used
    score, circuit = again.result
    circuit.validate()
    bad = judge_all_outcomes(circuit, A)
    if bad:
        return f"new solver on the first solver's target object: {bad}"
    if not np.isclose(score, 0.0):
        return f"new solver on the first solver's target object: reported score {score!r}, true infidelity is 0"
    return None


@S.item(
    "result.real_backends",
    site="graphiq.backends.compiler_base:CompilerBase.compile (on solver.result[1])",
    bound="every returned circuit for graphs without isolated vertex n<=4 (thorough n<=5) re-compiled by the real "
    "StabilizerCompiler and DensityMatrixCompiler with measurement_determinism 0, 1 and 'probabilistic' (3 seeds); "
    "full register state compared with refsem |G>(x)|0..0>",
    clause="simulated from all-|0> registers by either backend, leaves the photons in the target and the emitters in |0>",
)
def backend_case(inp):
    base = dict(inp)
    base["rep"], base["comp"] = "g", "stab"
    solver, score, circuit, A = run_solver(base)
    n_e = circuit.n_emitters
    ntot = circuit.n_photons + n_e
    want = wanted_state(A, n_e)
    for det, seed in [(0, 0), (1, 0), ("probabilistic", 1), ("probabilistic", 2), ("probabilistic", 3)]:
        comp = make_compiler(inp["comp"])
        comp.measurement_determinism = det
        np.random.seed(1000 * seed + inp.get("seed", 0))
        state = comp.compile(circuit)
        if inp["comp"] == "dm":
            rho = np.array(state.rep_data.data)
            if rho.shape != (2**ntot, 2**ntot) or not np.allclose(rho, R.dm(want), atol=1e-7):
                return f"dm backend, determinism={det} seed={seed}: state differs from |G>(x)|0..0> (max dev {np.max(np.abs(rho - R.dm(want))):.3g})"
        else:
            st = state.rep_data.data.to_stabilizer()
            x, z, r = np.array(st.x_matrix), np.array(st.z_matrix), np.array(st.phase)
            if x.shape != (ntot, ntot) or R.gf2_rank(np.concatenate([x, z], axis=1)) != ntot:
                return f"stabilizer backend, determinism={det}: generators not independent / wrong shape {x.shape}"
            for i in range(ntot):
                if not R.stabilizes(want, x[i], z[i], r[i]):
                    return f"stabilizer backend, determinism={det} seed={seed}: generator {i} (x={x[i].tolist()} z={z[i].tolist()} r={int(r[i])}) does not stabilise |G>(x)|0..0>"
    return None


# ------------------------------------------------------------------ domain
def _graphs(n):
    pairs = list(itertools.combinations(range(n), 2))
    for bits in itertools.product([0, 1], repeat=len(pairs)):
        yield [list(p) for b, p in zip(bits, pairs) if b]


def _has_isolated(n, edges):
    deg = [0] * n
    for a, b in edges:
        deg[a] += 1
        deg[b] += 1
    return any(d == 0 for d in deg)


def isolated_cases(tier):
    """FIXED, VERIF_SEED-independent list for the isolated-vertex items (they hit known finding C02-F1): every labelled
    graph with an isolated vertex on n<=4 vertices given as graph (stabilizer compiler), the n<=3 ones also in the other
    five input/compiler combinations; thorough appends every 6th such graph on 5 vertices.  quick is a prefix of thorough."""
    out = []
    for n in range(1, 5):
        for edges in _graphs(n):
            if _has_isolated(n, edges):
                out.append({"n": n, "edges": edges, "rep": "g", "comp": "stab"})
    for n in range(1, 4):
        for edges in _graphs(n):
            if _has_isolated(n, edges):
                for rep, comp in (("g", "dm"), ("s", "stab"), ("s", "dm"), ("dm", "stab"), ("dm", "dm")):
                    out.append({"n": n, "edges": edges, "rep": rep, "comp": comp})
    if tier == "thorough":
        five = [e for e in _graphs(5) if _has_isolated(5, e)]
        for edges in five[::6]:
            out.append({"n": 5, "edges": edges, "rep": "g", "comp": "stab"})
    return out


def _named(name):
    """small named graphs as (n, edges)"""
    kind, n = name[0], int(name[1:])
    if kind == "P":
        return n, [[i, i + 1] for i in range(n - 1)]
    if kind == "C":
        return n, [[i, (i + 1) % n] if i + 1 < n else [0, i] for i in range(n)]
    if kind == "S":  # star with centre 0
        return n, [[0, i] for i in range(1, n)]
    if kind == "K":
        return n, [[i, j] for i in range(n) for j in range(i + 1, n)]
    raise ValueError(name)


pool5_named = _named

# sequences whose members have EQUAL register totals but different (photons, emitters) splits, e.g. C4 = 4+2, P5 = 5+1
EQUAL_TOTAL_SEQUENCES = [("C4", "P5", "C4"), ("P5", "C4", "S5"), ("P3", "K3", "P3"), ("C5", "P5", "C4"), ("P2", "P3", "P2"), ("S4", "C4", "P4")]


def ten_plus_cases():
    """FIXED list of targets on 10..12 vertices that need at most 3 emitters (register indices >= 10)"""
    out = []

    def add(n, edges, order=None):
        case = {"n": n, "edges": [sorted(e) for e in edges], "rep": "g", "comp": "stab"}
        if order:
            case["order"] = order
        prof = CR.cut_rank_profile(_adj(case).tolist())
        assert max(prof) <= 3 and n + max(prof) <= 15, (n, prof)
        out.append(case)

    for n in (10, 11, 12):
        add(*_named(f"P{n}"))
    add(*_named("S10"))
    add(11, [[10, i] for i in range(10)])  # star whose centre is the LAST vertex (index 10)
    add(*_named("C10"))
    add(*_named("C12"))
    add(10, [[i, i + 1] for i in range(0, 8, 2)] + [[i, i + 2] for i in range(0, 8, 2)])  # caterpillar: spine 0-2-4-6-8, leaves 1,3,5,7 (+9)
    out[-1]["edges"].append([8, 9])
    add(12, [[i, i + 2] for i in range(0, 10, 2)] + [[i, i + 1] for i in range(0, 12, 2)])  # comb
    add(10, [[i, i + 1] for i in range(0, 10, 2)] + [[i, i + 2] for i in range(0, 8)])  # ladder 2 x 5, rung by rung
    add(10, [[0, i] for i in range(1, 5)] + [[5, i] for i in range(6, 10)])  # two disjoint stars
    add(11, [[i, i + 1] for i in range(10)], order=[1, 0, 3, 2, 5, 4, 7, 6, 9, 8, 10])  # path, neighbours swapped in the order
    add(12, [[i, i + 1] for i in range(11)] + [[0, 11]], order=[11, 10] + list(range(10)))  # 12-ring, the two-digit labels first
    add(10, [[i, j] for i in range(3) for j in range(3, 10)])  # K_{3,7}
    return out


def run(tier, seed):
    rng = np.random.default_rng(seed)
    thorough = tier == "thorough"
    nmax = 5 if thorough else 4
    S.max_failures_per_item = 120  # record every failing input (the isolated-vertex item fails on its whole fixed list of 59/102)
    plain = []
    for n in range(1, nmax + 1):
        for edges in _graphs(n):
            if _has_isolated(n, edges):
                continue
            for rep in ("g", "s", "dm"):
                for comp in ("stab", "dm"):
                    plain.append({"n": n, "edges": edges, "rep": rep, "comp": comp})
    nt = lambda i: len(i["edges"]) > 0
    S.map("solve.exact", plain, nontrivial=nt)
    S.map("solve.exact.isolated_vertex", isolated_cases(tier), nontrivial=nt)

    orders, gens, backends = [], [], []
    for n in range(2, nmax + 1):
        for edges in _graphs(n):
            if _has_isolated(n, edges):
                continue
            # vertex orders: labels 0..n-1 inserted in a non-sorted order
            if n == 3:
                perms = [list(p) for p in itertools.permutations(range(n))][1:]
            else:
                perms = []
                while len(perms) < (1 if n == 2 else 2):
                    p = rng.permutation(n).tolist()
                    if p != sorted(p) and p not in perms:
                        perms.append(p)
            for k, p in enumerate(perms):
                for comp in (("stab", "dm") if n <= 4 else (("stab", "dm")[k % 2],)):
                    orders.append({"n": n, "edges": edges, "rep": "g", "comp": comp, "order": p})
            # other generating sets of the same stabilizer state
            Ms = [M for M in G.gl2(2) if M != [[1, 0], [0, 1]]] if n == 2 else [G.random_gl2(n, rng) for _ in range(2)]
            for M in Ms:
                gens.append({"n": n, "edges": edges, "rep": "s", "comp": "stab", "M": M})
            for comp in ("stab", "dm"):
                backends.append({"n": n, "edges": edges, "comp": comp})
    large = []
    for n, edges in SIGNED_MEASUREMENT_TARGETS:
        for rep in ("g", "s"):
            large.append({"n": n, "edges": edges, "rep": rep, "comp": "stab"})
    for k in range(1500 if thorough else 90):
        n = 7 + k % 3
        while True:
            A = np.triu((rng.random((n, n)) < rng.uniform(0.3, 0.9)).astype(int), 1)
            edges = [[i, j] for i in range(n) for j in range(i + 1, n) if A[i, j]]
            if not _has_isolated(n, edges):
                break
        large.append({"n": n, "edges": edges, "rep": "gs"[k % 2], "comp": "stab"})
    if thorough:
        six = [e for e in _graphs(6) if not _has_isolated(6, e)]
        for k in rng.choice(len(six), size=5000, replace=False):
            large.append({"n": 6, "edges": six[int(k)], "rep": "g", "comp": "stab"})
    S.map("solve.exact.large", large, nontrivial=nt, chunksize=2)

    # ---- hardening: fixed lists chosen by structure (refsem/c02_targets.py), construction variants, repeated use
    six = [{"n": 6, "edges": T.edges(6, i), "rep": "g", "comp": "stab", "seed": i % 3} for i in dict.fromkeys(T.SIX_VERTEX + T.SIX_VERTEX_SIGNED_MEASUREMENT + (T.SIX_VERTEX_MORE if thorough else []))]
    S.map("solve.exact.six_vertices", six, nontrivial=nt, chunksize=8)
    fam_src = T.LARGE_QUICK + (T.LARGE_MORE if thorough else [])
    fams = [{"n": n, "edges": T.edges(n, i), "rep": "gs"[k % 2], "comp": "stab"} for k, (n, i) in enumerate(fam_src)]
    S.map("solve.exact.large_families", fams, nontrivial=nt, chunksize=2)
    S.map("solve.exact.ten_plus", ten_plus_cases(), nontrivial=nt, chunksize=1)

    cons = []
    small = [(n, e) for n in range(2, nmax + 1) for e in _graphs(n) if not _has_isolated(n, e)]
    big = [(n, T.edges(n, i)) for n, i in T.LARGE_QUICK[: (249 if thorough else 60)]]
    for k, (n, edges) in enumerate(small + big):
        comps = ("stab", "dm") if n <= 4 else ("stab",)
        for j, rep in enumerate(("g_np_int", "g_np_float")):
            cons.append({"n": n, "edges": edges, "rep": rep, "comp": comps[(k + j) % len(comps)]})
        sh = [list(e) if rng.random() < 0.5 else [e[1], e[0]] for e in (edges[int(i)] for i in rng.permutation(len(edges)))]
        cons.append({"n": n, "edges": sh, "rep": "g_edges", "comp": comps[k % len(comps)], "order": _first_appearance(sh)})
    S.map("solve.input_construction", cons, nontrivial=nt, chunksize=2)

    pool5 = [(n, e) for n in range(2, 6) for e in _graphs(n) if not _has_isolated(n, e)]
    split = lambda t: (t[0], max(CR.cut_rank_profile(_adj({"n": t[0], "edges": t[1]}).tolist())))  # noqa: E731  (photons, emitters)
    seqs = [[pool5_named(x) for x in names] for names in EQUAL_TOTAL_SEQUENCES]
    for _ in range(400 if thorough else 60):
        while True:
            seq = [pool5[int(i)] for i in rng.choice(len(pool5), size=3, replace=False)]
            sp = [split(t) for t in seq]
            if sp[0] != sp[1] and sp[1] != sp[2]:
                break
        seqs.append(seq)
    rep_cases = []
    for k, seq in enumerate(seqs):
        rep_cases.append({"targets": [[n, e] for n, e in seq], "reps": [("g", "s", "dm")[(k + j) % 3] for j in range(len(seq))],
                          "comp": ("stab", "dm")[k % 2], "seed": k % 3})
    S.map("solve.repeated_use", rep_cases, chunksize=1)
    S.map("solve.vertex_order", orders, nontrivial=nt)
    S.map("solve.generating_set", gens, nontrivial=nt)
    S.map("result.real_backends", backends, nontrivial=nt)
    S.note("oracle: refsem.core state-vector semantics (graphiq_ops + run_ops), every feasible measurement-outcome combination; "
           "graphiq's metric/compilers are used only where the statement names them (score; result.real_backends)")
    S.note("seeded items use graphs WITHOUT isolated vertex (known finding C02-F1 is confined to solve.exact.isolated_vertex, a fixed list) "
           "and at most 9 vertices, i.e. at most 4 emitters: stabilizer.inverse_circuit (known finding C11-F1, wrong on some states "
           "with >= 5 entangled qubits) only ever sees an emitter block of <= 4 qubits (0 failures in 32000 embedded random blocks)")
    return S
