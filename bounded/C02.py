"""C02 - the time-reversed (deterministic) solver returns a circuit that generates the target exactly.

Contracts sit on the real `TimeReversedSolver(...).solve()`; the returned circuit is judged by the textbook state-vector
semantics in `refsem.core` (NOT by graphiq's compilers / metric), over every combination of measurement outcomes.
A second item re-runs the returned circuit through graphiq's two real compilers ("simulated ... by either backend").

Input of a case (JSON):  {"n": n, "edges": [[i,j],..], "rep": "g"|"s"|"dm", "comp": "stab"|"dm",
                          "order": [labels in insertion order] (optional, rep "g"),   "M": GF(2) matrix (optional, rep "s")}
The vertex order of the target is the order in which the nodes are inserted into the networkx graph (= the row order of
nx.to_numpy_array, which is what every graphiq conversion uses); photon i of the circuit must carry the i-th vertex.
"""
from __future__ import annotations

import itertools

import numpy as np

from vf.bounded import Suite
from refsem import core as R
from refsem import cgroup as G

S = Suite("C02")

SITE = "graphiq.solvers.time_reversed_solver:TimeReversedSolver.solve"


# ------------------------------------------------------------------ building the real objects from the JSON input
def _adj(inp):
    """adjacency matrix in the solver's vertex order (position i = i-th inserted node)"""
    n = inp["n"]
    order = inp.get("order") or list(range(n))
    pos = {lab: i for i, lab in enumerate(order)}
    A = np.zeros((n, n), dtype=int)
    for a, b in inp["edges"]:
        A[pos[a], pos[b]] = A[pos[b], pos[a]] = 1
    return A


def _gf2_inv(M):
    M = np.array(M, dtype=int) % 2
    n = len(M)
    aug = np.concatenate([M, np.eye(n, dtype=int)], axis=1)
    r = 0
    for c in range(n):
        piv = next(i for i in range(r, n) if aug[i, c])
        aug[[r, piv]] = aug[[piv, r]]
        for i in range(n):
            if i != r and aug[i, c]:
                aug[i] ^= aug[r]
        r += 1
    return aug[:, n:]


def _clifford_table(A, M=None):
    """A Clifford tableau (destabilizers on top, stabilizers below, all built by hand) whose stabilizer half is the
    standard generating set K_i = X_i prod_j Z_j^{A_ij} of the graph state, or the generating set M.K (signed products)."""
    n = len(A)
    xs, zs, rs = G.graph_rows(A)
    dz = np.eye(n, dtype=int)  # destabilizers Z_i
    if M is not None:
        xs, zs, rs = G.regauge(xs, zs, rs, M)
        dz = (_gf2_inv(M).T @ dz) % 2  # D' = M^{-T} D keeps <D'_i, S'_j> = delta_ij
    table = np.zeros((2 * n, 2 * n), dtype=int)
    table[:n, n:] = dz
    table[n:, :n] = np.array(xs, dtype=int)
    table[n:, n:] = np.array(zs, dtype=int)
    phase = np.zeros(2 * n, dtype=int)
    phase[n:] = rs
    assert R.clifford_valid(table, n)
    return table, phase


def build_target(inp):
    import networkx as nx
    from graphiq.state import QuantumState
    from graphiq.backends.stabilizer.clifford_tableau import CliffordTableau

    A = _adj(inp)
    n = inp["n"]
    rep = inp["rep"]
    if rep == "g":
        g = nx.Graph()
        g.add_nodes_from(inp.get("order") or list(range(n)))
        g.add_edges_from([tuple(e) for e in inp["edges"]])
        return QuantumState(g, rep_type="g"), A
    if rep == "s":
        table, phase = _clifford_table(A, inp.get("M"))
        return QuantumState(CliffordTableau(table, phase), rep_type="s"), A
    if rep == "dm":
        return QuantumState(np.array(R.dm(R.graph_state(A))), rep_type="dm"), A
    raise ValueError(rep)


def make_compiler(name):
    from graphiq.backends.stabilizer.compiler import StabilizerCompiler
    from graphiq.backends.density_matrix.compiler import DensityMatrixCompiler

    return StabilizerCompiler() if name == "stab" else DensityMatrixCompiler()


def run_solver(inp):
    from graphiq.solvers.time_reversed_solver import TimeReversedSolver
    from graphiq.metrics import Infidelity

    target, A = build_target(inp)
    np.random.seed(inp.get("seed", 0))  # the solver compiles its own circuit with probabilistic measurement outcomes
    solver = TimeReversedSolver(target=target, metric=Infidelity(target), compiler=make_compiler(inp["comp"]))
    solver.solve()
    score, circuit = solver.result
    return solver, score, circuit, A


def wanted_state(A, n_e):
    v = R.graph_state(A)
    return np.kron(v, R.ket0(n_e)) if n_e else v


def judge_all_outcomes(circuit, A):
    """refsem judgement of a graphiq circuit: for every feasible combination of measurement outcomes the final state is
    |G(A)> on the photons (in order) (x) |0..0> on the emitters, up to a global phase.  -> symptom or None"""
    n = len(A)
    if circuit.n_photons != n:
        return f"circuit has {circuit.n_photons} photon registers, target has {n} qubits"
    ops = R.graphiq_ops(circuit)
    ntot = circuit.n_photons + circuit.n_emitters
    want = wanted_state(A, circuit.n_emitters)
    m = len(R.measuring(ops))
    feasible = 0
    for outs in itertools.product([0, 1], repeat=m):
        res = R.run_ops(ntot, ops, outcomes=outs)
        if res is None:
            continue
        feasible += 1
        if not R.same_state(res[0], want):
            ov = abs(np.vdot(res[0], want)) ** 2
            return f"measurement outcomes {list(outs)}: |<out|G(x)0..0>|^2 = {ov:.6f}, expected 1 (ops={ops})"
    if feasible == 0:
        return "no feasible outcome combination (refsem)"
    return None


# ------------------------------------------------------------------ contracts
def solve_case(inp):
    solver, score, circuit, A = run_solver(inp)
    circuit.validate()  # "returns a valid circuit": the real validator must accept it (raises otherwise)
    bad = judge_all_outcomes(circuit, A)
    if bad:
        return bad
    if not np.isclose(score, 0.0):
        return f"reported score {score!r}, true infidelity of the returned circuit is 0"
    return None


_B_REPS = "given as graph / stabilizer (hand-built Clifford tableau) / density-matrix QuantumState x solver compiler in {stabilizer, density matrix}"

S.item(
    "solve.exact",
    site=SITE,
    bound="all labelled graphs without isolated vertex on n<=4 (quick: 46) / n<=5 (thorough: 814) vertices, " + _B_REPS
    + "; refsem state vector over EVERY combination of measurement outcomes",
    exhaustive=True,
    clause="valid circuit; photons exactly the target and every emitter |0> whatever the measurement outcomes; score 0",
)(solve_case)

S.item(
    "solve.exact.isolated_vertex",
    site=SITE,
    bound="fixed sample, seed-independent (touches known finding C02-F1): all 29 labelled graphs WITH an isolated vertex on "
    "n<=4 vertices as graph input / stabilizer compiler, the 6 on n<=3 also in the other 5 input x compiler combinations "
    "(59 cases); thorough adds every 6th of the 256 such graphs on 5 vertices (43); same contract as solve.exact",
    exhaustive=False,
    clause="same, for targets 'connected or not, with or without isolated vertices'",
)(solve_case)

S.item(
    "solve.vertex_order",
    site=SITE,
    bound="graphs on n<=4 (thorough n<=5) vertices without isolated vertex whose nodes carry labels inserted in a "
    "non-sorted order (all 5 non-identity orders for n=3, 2 seeded orders per graph otherwise), graph input, both compilers",
    clause="any vertex order: photon i carries the i-th vertex of the target's own order",
)(solve_case)

S.item(
    "solve.generating_set",
    site=SITE,
    bound="graphs without isolated vertex n<=4 (thorough n<=5) given as stabilizer QuantumState in another generating "
    "set M.K (signed products; all 5 non-identity M for n=2, 2 seeded invertible M per graph otherwise), stabilizer compiler",
    clause="target given as stabilizer QuantumState (the state, not a particular generating set, is the target)",
)(solve_case)


# Targets on 7..9 vertices found by a seeded search (on the unchanged tree) for which the solver's time-reversed
# measurement step meets a generator of sign -1 (it has to flip the emitter before the measure-and-reset).  On n <= 6
# vertices this never happens, so these - and the seeded random graphs of the same sizes - are what exercises that
# sign repair.  They are ordinary members of the property's domain ("every target graph state").
SIGNED_MEASUREMENT_TARGETS = [
    (7, [[0,2],[1,3],[1,5],[1,6],[2,3],[2,5],[2,6],[3,4],[3,5],[3,6]]),
    (7, [[0,1],[2,4],[2,5],[2,6],[3,5],[3,6],[4,6],[5,6]]),
    (7, [[0,1],[0,2],[0,3],[0,6],[1,3],[1,6],[3,4],[3,5],[3,6],[4,5],[4,6],[5,6]]),
    (7, [[0,3],[1,3],[1,4],[1,6],[2,3],[4,5],[4,6],[5,6]]),
    (8, [[0,1],[0,3],[0,7],[1,2],[1,4],[1,7],[2,3],[2,4],[2,5],[2,7],[3,4],[3,7],[4,6],[4,7],[5,6],[5,7],[6,7]]),
    (8, [[0,1],[0,2],[0,6],[0,7],[1,3],[1,5],[1,7],[2,5],[2,7],[3,5],[3,6],[4,7],[5,6],[6,7]]),
    (8, [[0,1],[0,2],[0,3],[0,5],[0,7],[1,2],[1,4],[1,6],[1,7],[2,3],[2,4],[2,6],[2,7],[3,4],[3,6],[3,7],[4,5],[4,6],[4,7],[5,6],[6,7]]),
    (8, [[0,1],[0,2],[0,3],[0,4],[0,5],[0,6],[0,7],[1,2],[1,3],[1,4],[1,5],[1,6],[2,4],[2,5],[2,6],[3,4],[3,5],[3,6],[4,5],[5,7],[6,7]]),
    (8, [[0,1],[0,2],[1,3],[1,4],[1,5],[1,6],[2,3],[2,4],[2,5],[2,6],[3,4],[3,5],[3,7],[4,5]]),
    (8, [[0,3],[0,4],[0,7],[1,3],[1,4],[1,5],[2,4],[2,7],[4,5],[4,6],[4,7]]),
    (8, [[0,3],[0,4],[0,7],[1,2],[1,3],[1,4],[1,5],[1,6],[1,7],[2,4],[2,5],[2,6],[2,7],[3,4],[3,5],[3,6],[3,7],[4,6],[4,7],[5,6],[5,7],[6,7]]),
    (8, [[0,1],[0,3],[0,4],[0,5],[0,7],[1,2],[1,5],[1,7],[2,3],[3,4],[4,5],[4,7],[5,6],[5,7]]),
    (8, [[0,1],[0,2],[1,2],[3,4],[3,6],[3,7],[4,5],[4,6],[4,7],[5,6],[6,7]]),
    (9, [[0,3],[0,5],[0,6],[0,7],[0,8],[1,3],[1,4],[1,5],[1,7],[2,3],[2,4],[3,4],[3,5],[3,8],[4,6],[4,7],[4,8],[5,8]]),
    (9, [[0,4],[1,3],[2,4],[2,5],[2,6],[2,7],[2,8],[3,4],[3,5],[3,6],[3,7],[5,6],[5,8],[6,7]]),
    (9, [[0,8],[1,3],[1,8],[2,4],[4,6],[4,7],[5,6],[5,8],[6,8]]),
    (9, [[0,2],[1,5],[1,8],[3,4],[3,6],[3,7],[4,5],[4,6],[5,7],[5,8],[6,8]]),
    (9, [[0,5],[0,6],[0,7],[0,8],[1,5],[1,6],[1,7],[2,3],[4,5],[4,6],[5,6],[5,7]]),
    (9, [[0,1],[0,2],[0,3],[0,4],[0,5],[0,6],[0,7],[1,2],[1,4],[1,5],[1,6],[1,7],[1,8],[2,3],[2,4],[2,5],[2,6],[2,7],[2,8],[3,4],[3,5],[3,6],[3,7],[3,8],[4,6],[4,7],[4,8],[5,7],[5,8],[6,7],[6,8],[7,8]]),
    (9, [[0,1],[0,2],[0,5],[0,8],[1,2],[1,3],[1,5],[2,3],[4,5],[4,6],[4,7],[5,7],[5,8],[6,8]]),
]

S.item(
    "solve.exact.large",
    site=SITE,
    bound="20 fixed graphs on 7..9 vertices (signed time-reversed measurements) + seeded random graphs without isolated "
    "vertex on 7..9 vertices (quick 90, thorough 1500; <= 4 emitters, out of reach of known finding C11-F1), given as graph and as stabilizer QuantumState, stabilizer compiler; thorough adds 5000 seeded graphs of the 27449 on 6 vertices (graph input); "
    "refsem state vector (up to 13 qubits) over every combination of measurement outcomes",
    clause="same contract as solve.exact on larger targets (emitter sign corrections before mid-circuit measurements)",
)(solve_case)


@S.item(
    "result.real_backends",
    site="graphiq.backends.compiler_base:CompilerBase.compile (on solver.result[1])",
    bound="every returned circuit for graphs without isolated vertex n<=4 (thorough n<=5) re-compiled by the real "
    "StabilizerCompiler and DensityMatrixCompiler with measurement_determinism 0, 1 and 'probabilistic' (3 seeds); "
    "full register state compared with refsem |G>(x)|0..0>",
    clause="simulated from all-|0> registers by either backend, leaves the photons in the target and the emitters in |0>",
)
def backend_case(inp):
    base = dict(inp)
    base["rep"], base["comp"] = "g", "stab"
    solver, score, circuit, A = run_solver(base)
    n_e = circuit.n_emitters
    ntot = circuit.n_photons + n_e
    want = wanted_state(A, n_e)
    for det, seed in [(0, 0), (1, 0), ("probabilistic", 1), ("probabilistic", 2), ("probabilistic", 3)]:
        comp = make_compiler(inp["comp"])
        comp.measurement_determinism = det
        np.random.seed(1000 * seed + inp.get("seed", 0))
        state = comp.compile(circuit)
        if inp["comp"] == "dm":
            rho = np.array(state.rep_data.data)
            if rho.shape != (2**ntot, 2**ntot) or not np.allclose(rho, R.dm(want), atol=1e-7):
                return f"dm backend, determinism={det} seed={seed}: state differs from |G>(x)|0..0> (max dev {np.max(np.abs(rho - R.dm(want))):.3g})"
        else:
            st = state.rep_data.data.to_stabilizer()
            x, z, r = np.array(st.x_matrix), np.array(st.z_matrix), np.array(st.phase)
            if x.shape != (ntot, ntot) or R.gf2_rank(np.concatenate([x, z], axis=1)) != ntot:
                return f"stabilizer backend, determinism={det}: generators not independent / wrong shape {x.shape}"
            for i in range(ntot):
                if not R.stabilizes(want, x[i], z[i], r[i]):
                    return f"stabilizer backend, determinism={det} seed={seed}: generator {i} (x={x[i].tolist()} z={z[i].tolist()} r={int(r[i])}) does not stabilise |G>(x)|0..0>"
    return None


# ------------------------------------------------------------------ domain
def _graphs(n):
    pairs = list(itertools.combinations(range(n), 2))
    for bits in itertools.product([0, 1], repeat=len(pairs)):
        yield [list(p) for b, p in zip(bits, pairs) if b]


def _has_isolated(n, edges):
    deg = [0] * n
    for a, b in edges:
        deg[a] += 1
        deg[b] += 1
    return any(d == 0 for d in deg)


def isolated_cases(tier):
    """FIXED, VERIF_SEED-independent list for the isolated-vertex items (they hit known finding C02-F1): every labelled
    graph with an isolated vertex on n<=4 vertices given as graph (stabilizer compiler), the n<=3 ones also in the other
    five input/compiler combinations; thorough appends every 6th such graph on 5 vertices.  quick is a prefix of thorough."""
    out = []
    for n in range(1, 5):
        for edges in _graphs(n):
            if _has_isolated(n, edges):
                out.append({"n": n, "edges": edges, "rep": "g", "comp": "stab"})
    for n in range(1, 4):
        for edges in _graphs(n):
            if _has_isolated(n, edges):
                for rep, comp in (("g", "dm"), ("s", "stab"), ("s", "dm"), ("dm", "stab"), ("dm", "dm")):
                    out.append({"n": n, "edges": edges, "rep": rep, "comp": comp})
    if tier == "thorough":
        five = [e for e in _graphs(5) if _has_isolated(5, e)]
        for edges in five[::6]:
            out.append({"n": 5, "edges": edges, "rep": "g", "comp": "stab"})
    return out


def run(tier, seed):
    rng = np.random.default_rng(seed)
    thorough = tier == "thorough"
    nmax = 5 if thorough else 4
    S.max_failures_per_item = 120  # record every failing input (the isolated-vertex item fails on its whole fixed list of 59/102)
    plain = []
    for n in range(1, nmax + 1):
        for edges in _graphs(n):
            if _has_isolated(n, edges):
                continue
            for rep in ("g", "s", "dm"):
                for comp in ("stab", "dm"):
                    plain.append({"n": n, "edges": edges, "rep": rep, "comp": comp})
    nt = lambda i: len(i["edges"]) > 0
    S.map("solve.exact", plain, nontrivial=nt)
    S.map("solve.exact.isolated_vertex", isolated_cases(tier), nontrivial=nt)

    orders, gens, backends = [], [], []
    for n in range(2, nmax + 1):
        for edges in _graphs(n):
            if _has_isolated(n, edges):
                continue
            # vertex orders: labels 0..n-1 inserted in a non-sorted order
            if n == 3:
                perms = [list(p) for p in itertools.permutations(range(n))][1:]
            else:
                perms = []
                while len(perms) < (1 if n == 2 else 2):
                    p = rng.permutation(n).tolist()
                    if p != sorted(p) and p not in perms:
                        perms.append(p)
            for k, p in enumerate(perms):
                for comp in (("stab", "dm") if n <= 4 else (("stab", "dm")[k % 2],)):
                    orders.append({"n": n, "edges": edges, "rep": "g", "comp": comp, "order": p})
            # other generating sets of the same stabilizer state
            Ms = [M for M in G.gl2(2) if M != [[1, 0], [0, 1]]] if n == 2 else [G.random_gl2(n, rng) for _ in range(2)]
            for M in Ms:
                gens.append({"n": n, "edges": edges, "rep": "s", "comp": "stab", "M": M})
            for comp in ("stab", "dm"):
                backends.append({"n": n, "edges": edges, "comp": comp})
    large = []
    for n, edges in SIGNED_MEASUREMENT_TARGETS:
        for rep in ("g", "s"):
            large.append({"n": n, "edges": edges, "rep": rep, "comp": "stab"})
    for k in range(1500 if thorough else 90):
        n = 7 + k % 3
        while True:
            A = np.triu((rng.random((n, n)) < rng.uniform(0.3, 0.9)).astype(int), 1)
            edges = [[i, j] for i in range(n) for j in range(i + 1, n) if A[i, j]]
            if not _has_isolated(n, edges):
                break
        large.append({"n": n, "edges": edges, "rep": "gs"[k % 2], "comp": "stab"})
    if thorough:
        six = [e for e in _graphs(6) if not _has_isolated(6, e)]
        for k in rng.choice(len(six), size=5000, replace=False):
            large.append({"n": 6, "edges": six[int(k)], "rep": "g", "comp": "stab"})
    S.map("solve.exact.large", large, nontrivial=nt, chunksize=2)
    S.map("solve.vertex_order", orders, nontrivial=nt)
    S.map("solve.generating_set", gens, nontrivial=nt)
    S.map("result.real_backends", backends, nontrivial=nt)
    S.note("oracle: refsem.core state-vector semantics (graphiq_ops + run_ops), every feasible measurement-outcome combination; "
           "graphiq's metric/compilers are used only where the statement names them (score; result.real_backends)")
    S.note("seeded items use graphs WITHOUT isolated vertex (known finding C02-F1 is confined to solve.exact.isolated_vertex, a fixed list) "
           "and at most 9 vertices, i.e. at most 4 emitters: stabilizer.inverse_circuit (known finding C11-F1, wrong on some states "
           "with >= 5 entangled qubits) only ever sees an emitter block of <= 4 qubits (0 failures in 32000 embedded random blocks)")
    return S
