"""C13 [B] - circuit rewrites preserve the state; library calls do not mutate their inputs.

Two kinds of contract, both on the real objects:
  * rewrite clauses: compile(rewritten circuit) == compile(original program) (direct comparison of two real results, both
    backends, forced measurement settings), for copy / unwrap_nodes / group_one_qubit_gates / remove_identity /
    assign_noise(empty map) and every sequence of <= 3 of them;
  * frame clauses: a value dump of the caller's objects (circuit: nodes, ops with registers/params/labels/noise values,
    edges, register tables, openQASM text; QuantumState: representation type + data) taken before a call equals the
    dump taken after it, for compile, metric evaluate, assign_noise, MonteCarloNoise, solver constructors / solve, and
    histories of <= 3 such calls on the same objects; "behaviour" is additionally observed by re-compiling.

Programs are the JSON programs of refsem/circuits.py (same builder as C01).
"""
from __future__ import annotations

import contextlib
import io
import itertools
import warnings

import networkx as nx
import numpy as np

from vf.bounded import Suite
from refsem import core as R
from refsem import circuits as RC

from graphiq.circuit.circuit_dag import CircuitDAG
from graphiq.circuit import ops as gops
from graphiq.state import QuantumState
import graphiq.metrics as gmet
import graphiq.noise.noise_models as nm
from graphiq.noise.monte_carlo_noise import MonteCarloNoise, McNoiseMap
from graphiq.backends.stabilizer.compiler import StabilizerCompiler
from graphiq.backends.density_matrix.compiler import DensityMatrixCompiler
from graphiq.solvers.time_reversed_solver import TimeReversedSolver
from graphiq.solvers.hybrid_solvers import HybridEvolutionarySolver
from bounded.C01 import build_circuit, snapshot, COMPILERS

S = Suite("C13")


# ------------------------------------------------------------------ value dumps (the frame is compared on these)
def noise_dump(x):
    if isinstance(x, (list, tuple)):
        return [noise_dump(y) for y in x]
    if isinstance(x, type):
        return ["class", x.__name__]
    params = getattr(x, "noise_parameters", None)
    return [type(x).__name__, repr(sorted(params.items(), key=lambda kv: str(kv[0]))) if isinstance(params, dict) else repr(params)]


def op_dump(op):
    d = [type(op).__name__, list(op.q_registers), list(op.q_registers_type), list(op.c_registers), repr(tuple(op.params)) if op.params is not None else None,
         sorted(op.labels), noise_dump(op.noise)]
    if isinstance(op, gops.OneQubitGateWrapper):
        d.append([g.__name__ for g in op.operations])
    for a in ("register", "reg_type", "control", "control_type", "target", "target_type", "c_register"):
        if hasattr(op, a):
            d.append([a, getattr(op, a)])
    return d


def circuit_dump(c):
    """everything that determines the behaviour of a CircuitDAG (caches such as _register_depth excluded)"""
    nodes = [[repr(nd), id(c.dag.nodes[nd]["op"]), op_dump(c.dag.nodes[nd]["op"])] for nd in c.dag.nodes]
    edges = sorted([repr(u), repr(v), repr(k), repr(sorted(d.items()))] for u, v, k, d in c.dag.edges(keys=True, data=True))
    with warnings.catch_warnings():
        warnings.simplefilter("ignore")
        try:
            qasm = c.to_openqasm()
        except Exception as e:  # noqa: BLE001 - export problems belong to C14; here only "same before and after"
            qasm = f"EXC {type(e).__name__}"
    return {
        "nodes": nodes,
        "edges": edges,
        "node_dict": sorted([k, sorted(map(repr, v))] for k, v in c.node_dict.items() if v),
        "edge_dict": sorted([k, sorted(map(repr, v))] for k, v in c.edge_dict.items() if v),
        "registers": [c.n_emitters, c.n_photons, c.n_classical, repr(c.emitter_registers), repr(c.photonic_registers), repr(c.c_registers)],
        "sequence": [id(o) for o in c.sequence()],
        "qasm": qasm,
    }


def first_diff(a, b, path=""):
    if type(a) != type(b):
        return f"{path}: {a!r} -> {b!r}"
    if isinstance(a, dict):
        for k in a:
            if k not in b:
                return f"{path}.{k} removed"
            d = first_diff(a[k], b[k], f"{path}.{k}")
            if d:
                return d
        return None if set(a) == set(b) else f"{path}: keys {sorted(set(b) - set(a))} added"
    if isinstance(a, (list, tuple)):
        if len(a) != len(b):
            return f"{path}: length {len(a)} -> {len(b)}: {str(a)[:160]} -> {str(b)[:160]}"
        for i, (x, y) in enumerate(zip(a, b)):
            d = first_diff(x, y, f"{path}[{i}]")
            if d:
                return d
        return None
    if isinstance(a, np.ndarray):
        return None if a.shape == b.shape and np.array_equal(a, b) else f"{path}: array changed"
    return None if a == b else f"{path}: {str(a)[:200]} -> {str(b)[:200]}"


def state_dump(q):
    """value of a QuantumState: representation type and data (+ identity of the representation object)"""
    rep = q.rep_data
    d = rep.data
    if isinstance(d, np.ndarray):
        val = ["array", np.array(d).copy()]
    elif isinstance(d, nx.Graph):
        val = ["graph", sorted(map(repr, d.nodes(data=True))), sorted(map(repr, d.edges(data=True)))]
    elif isinstance(d, list):
        val = ["mixture", [[p, np.array(t.table).copy(), np.array(t.phase).copy(), np.array(t.iphase).copy()] for p, t in d]]
    else:
        val = ["tableau", np.array(d.table).copy(), np.array(d.phase).copy(), np.array(d.iphase).copy()]
    return {"rep_type": q.rep_type, "mixed": q.mixed, "n_qubits": q.n_qubits, "rep_class": type(rep).__name__, "data": val}


# ------------------------------------------------------------------ compiling and comparing two real results
def compile_plain(circuit, backend, mode, noise=False, seed=None, init=None):
    comp = COMPILERS[backend]()
    comp.measurement_determinism = mode
    comp.noise_simulation = noise
    if seed is not None:
        np.random.seed(seed)
    with contextlib.redirect_stdout(io.StringIO()):  # the MixedStabilizer branch of the stabilizer compiler prints outcomes
        return comp.compile(circuit) if init is None else comp.compile(circuit, init)


def same_state(backend, a, b, n):
    """a, b: snapshot()s of two real results of the same backend; None iff they are the same state"""
    if backend == "dm":
        if a.shape != b.shape or not np.allclose(a, b, atol=1e-8):
            return f"density matrices differ (diag {np.round(np.real(np.diag(a)), 4).tolist()} vs {np.round(np.real(np.diag(b)), 4).tolist()})"
        return None
    ta, pa, ia = a
    tb, pb, ib = b
    if ta.shape != tb.shape:
        return f"tableau shapes {ta.shape} vs {tb.shape}"
    v = R.stabilizer_state(ta[n:, :n], ta[n:, n:], pa[n:])
    if v is None or np.any(ia[n:] % 4 != 0):
        return "first result is not a stabilizer state"
    for i in range(n, 2 * n):
        if ib[i] % 4 != 0 or not RC.stabilizes(v, tb[i, :n], tb[i, n:], pb[i]):
            return f"stabilizer row {i - n} (x|z|r)={tb[i].tolist()}|{int(pb[i])} of the second result does not stabilise the first result's state"
    return None


def same_state_many(a, b, n):
    """stabilizer results on many qubits (no state vectors): both tableaux valid and every signed stabilizer row of the second
    is an element of the first one's stabilizer group (refsem.tabref, Aaronson-Gottesman decomposition through the destabilizers)"""
    from refsem import tabref as T

    (ta, pa, ia), (tb, pb, ib) = a, b
    if ta.shape != tb.shape:
        return f"tableau shapes {ta.shape} vs {tb.shape}"
    if not (T.valid_clifford(ta, n) and T.valid_clifford(tb, n)):
        return "a result is not a valid Clifford tableau"
    if np.any(ia[n:] % 4 != 0) or np.any(ib[n:] % 4 != 0):
        return "a stabilizer row of a result carries a factor i (not Hermitian)"
    bad = T.RefTableau.from_arrays(ta, pa).same_state_as_rows(tb[n:], pb[n:])
    if bad is not None:
        return f"stabilizer row {bad} (x|z|r)={tb[n + bad].tolist()}|{int(pb[n + bad])} of the second result is not in the stabilizer group of the first result"
    return None


def forced_modes(inp, backend):
    """forced settings under which two compilations of equivalent circuits must give the same state: the result must not
    depend on the linearisation (node ids change under rewrites)"""
    return [0, 1] if RC.forced_order_independent(inp["prog"]) else []


EMPTY_MAP = {k: {} for k in ("e", "p", "ee", "ep", "pe", "pp")}


def depol_map():
    d2 = nm.DepolarizingNoise(0.2)
    d3 = nm.DepolarizingNoise(0.05)
    d3.noise_parameters["After gate"] = False
    two = {"CNOT": [d2, d3], "CZ": nm.DepolarizingNoise(0.15)}
    one = {"Hadamard": nm.DepolarizingNoise(0.1), "Phase": d3, "SigmaX": nm.PauliError("X"), "Identity": nm.DepolarizingNoise(0.3)}
    return {"e": dict(one), "p": dict(one), "ee": dict(two), "ep": dict(two), "pe": dict(two), "pp": dict(two)}


REWRITES = ["copy", "unwrap_nodes", "group_one_qubit_gates", "remove_identity", "assign_noise_empty"]


def apply_rewrite(c, name):
    if name == "copy":
        return c.copy()
    if name == "assign_noise_empty":
        return c.assign_noise({k: dict(v) for k, v in EMPTY_MAP.items()})
    getattr(c, name)()
    return c


def unwrapped_view(c):
    return [[type(o).__name__, list(o.q_registers), list(o.q_registers_type), list(o.c_registers)] for o in c.sequence(unwrapped=True)
            if not isinstance(o, gops.InputOutputOperationBase)]


def per_register(view, drop_identity=False):
    out = {}
    for nm_, regs, types, cregs in view:
        if drop_identity and nm_ == "Identity":
            continue
        for k, (r, t) in enumerate(zip(regs, types)):
            out.setdefault((t, r), []).append((nm_, k, tuple(cregs)))
        for cr in cregs:
            out.setdefault(("c", cr), []).append((nm_, "c", tuple(regs)))
    return out


def rewrite_case(inp):
    """inp: {"prog":..., "rewrites":[names]}: compile(rewritten) == compile(fresh original), both backends, forced modes;
    structural side conditions of the single rewrites"""
    spec = inp["prog"]
    n = RC.n_qubits(spec)
    seqn = inp["rewrites"]
    c, _ = build_circuit(spec)
    view0 = unwrapped_view(c)
    raised = None
    for name in seqn:
        before = circuit_dump(c) if name in ("copy", "assign_noise_empty") else None
        try:
            c2 = apply_rewrite(c, name)
        except Exception as e:  # noqa: BLE001 - reported by the item <rewrite>.returns_normally; here: whatever happened, the state must be preserved
            if inp.get("demand_return"):
                raise
            raised = f"{name} raised {type(e).__name__}"
            break
        if before is not None:
            if c2 is c:
                return f"{name} returned the same object"
            if name == "copy":
                d = first_diff(before, circuit_dump(c))
                if d:
                    return f"copy() changed the original: {d}"
        c = c2
        view = unwrapped_view(c)
        if name in ("copy", "unwrap_nodes", "assign_noise_empty", "group_one_qubit_gates") and per_register(view) != per_register(view0):
            return f"after {name}: unwrapped operations per register changed: {per_register(view0)} -> {per_register(view)}"
        if name == "remove_identity" and per_register(view, drop_identity=True) != per_register(view0, drop_identity=True):
            return f"after remove_identity: operations other than Identity changed: {per_register(view0)} -> {per_register(view)}"
        if name == "unwrap_nodes" and any(isinstance(o, gops.OneQubitGateWrapper) for o in c.sequence()):
            return "a wrapper node is left after unwrap_nodes"
        if name == "remove_identity" and any(type(o) is gops.Identity for o in c.sequence()):
            return "an Identity node is left after remove_identity"
        if name == "assign_noise_empty":
            for o in c.sequence():
                flat = o.noise if isinstance(o.noise, list) else [o.noise]
                if not all(isinstance(x, nm.NoNoise) for x in flat):
                    return f"empty noise map attached {noise_dump(o.noise)} to {type(o).__name__}"
        view0 = view
        c.validate()
    if inp.get("demand_return"):
        return None
    for backend in inp.get("backends", ("stabilizer", "dm")):
        for mode in forced_modes(inp, backend):
            ref, _ = build_circuit(spec)
            a = snapshot(compile_plain(ref, backend, mode).rep_data)
            try:
                b = snapshot(compile_plain(c, backend, mode).rep_data)
            except Exception as e:  # noqa: BLE001
                if raised is None:
                    raise
                return f"[{backend} mode={mode}] {raised} and left a circuit that no longer compiles ({type(e).__name__}: {e})"
            m = same_state(backend, a, b, n) if n <= 8 else same_state_many(a, b, n)
            if m:
                return f"[{backend} mode={mode}] after {seqn}{' (' + raised + ')' if raised else ''}: " + m
    return None


def returns_case(inp):
    """the rewrite returns normally on every valid circuit (and satisfies its structural side conditions)"""
    return rewrite_case(dict(inp, demand_return=True))


_RW_SITE = {
    "copy": "graphiq.circuit.circuit_base:CircuitBase.copy",
    "unwrap_nodes": "graphiq.circuit.circuit_dag:CircuitDAG.unwrap_nodes",
    "group_one_qubit_gates": "graphiq.circuit.circuit_dag:CircuitDAG.group_one_qubit_gates",
    "remove_identity": "graphiq.circuit.circuit_dag:CircuitDAG.remove_identity",
    "assign_noise_empty": "graphiq.circuit.circuit_dag:CircuitDAG.assign_noise",
}
_RW_BOUND = ("all programs of <=1 op on the 8 register configurations (<=2 emitters, <=2 photons, 1 classical; 31 wrapper bodies), all programs of 2 ops on the "
             "configurations with <=2 qubits (4 wrapper bodies), {N} seeded random programs of <=30 ops on <=5 qubits; both backends, modes 0 and 1")
for _r in REWRITES:
    S.item(f"{_r}.preserves_state", _RW_SITE[_r], _RW_BOUND, clause=f"{_r.replace('_', ' ')} does not change the state the circuit compiles to")(rewrite_case)
for _r in ("unwrap_nodes", "group_one_qubit_gates", "remove_identity"):
    S.item(f"{_r}.returns_normally", _RW_SITE[_r], _RW_BOUND.replace("; both backends, modes 0 and 1", ""),
           clause=f"{_r.replace('_', ' ')} is a rewrite of every circuit: it returns normally and keeps the per-register operation sequence")(returns_case)
S.item("rewrites.many_registers", "graphiq.circuit.circuit_dag:CircuitDAG (copy, unwrap_nodes, group_one_qubit_gates, remove_identity, assign_noise)",
       "{N} seeded random programs of <=28 ops on 11..12 photon registers + 1..3 emitters (every 4th: 11 emitters + 1..2 photons), registers number 1, 10 and the highest "
       "one always used (1 and 10 in common two-qubit gates) x each of the 5 rewrites and the sequence [copy, unwrap_nodes, remove_identity, group_one_qubit_gates]; stabilizer backend, modes 0 and 1; "
       "results compared by group membership of the signed rows (refsem.tabref)",
       clause="rewrites do not change the state the circuit compiles to - register numbers with two digits")(rewrite_case)
S.item("rewrites.sequences_le3", "graphiq.circuit.circuit_dag:CircuitDAG (copy, unwrap_nodes, remove_identity, assign_noise)",
       "all 80 sequences of 2 or 3 of the rewrites copy / unwrap_nodes / remove_identity / assign_noise(empty) x {M} seeded random programs of <=12 ops on <=4 qubits (each sequence on its own sample); both backends, modes 0 and 1",
       clause="rewrites do not change the compiled state - all interleavings of <= 3 of the listed calls")(rewrite_case)
S.item("rewrites.sequences_le3_with_grouping", "graphiq.circuit.circuit_dag:CircuitDAG (copy, unwrap_nodes, group_one_qubit_gates, remove_identity, assign_noise)",
       "all 70 sequences of 2 or 3 of the five rewrites that contain group_one_qubit_gates x {M} seeded random programs of <=12 ops on <=4 qubits (each sequence on its own sample); both backends, modes 0 and 1",
       clause="rewrites do not change the compiled state - all interleavings of <= 3 of the listed calls (with grouping)")(rewrite_case)


# ------------------------------------------------------------------ frame of compile
def compile_frame_case(inp):
    """inp: {"prog", "pseeds", "noisy": bool}.  The circuit handed to compile (noise-free, or the noisy copy made by
    assign_noise) has the same dump after every one of the compilations (both backends / all settings / noise simulation
    off and on, one after the other on the same object) as before the first."""
    spec = inp["prog"]
    c, _ = build_circuit(spec)
    if inp["noisy"]:
        c = c.assign_noise(depol_map())
    before = circuit_dump(c)
    for backend in ("stabilizer", "dm"):
        for noise in (False, True):
            if inp["noisy"] and (backend == "stabilizer" or not noise):
                continue  # noisy circuits are compiled with the density-matrix backend, noise simulation on
            for mode, seed in ((0, None), (1, None), ("probabilistic", inp["pseeds"][0])):
                exc = ""
                try:
                    compile_plain(c, backend, mode, noise, seed)
                except Exception as e:  # noqa: BLE001
                    if not noise:
                        raise
                    exc = f" (compile raised {type(e).__name__})"  # noisy simulation itself is C06's subject; the frame still applies
                d = first_diff(before, circuit_dump(c))
                if d:
                    return f"[{backend} mode={mode} noise_simulation={noise}] compile{exc} changed the circuit: {d}"
    return None


S.item("compile.frame", "graphiq.backends.compiler_base:CompilerBase.compile",
       "all programs of <=2 ops on the configurations with <=2 qubits + {N} seeded random programs of <=30 ops on <=5 qubits; both backends x modes 0/1/'probabilistic' x noise_simulation off/on",
       clause="compiling a circuit never changes the behaviour of the circuit")(compile_frame_case)
S.item("compile.frame_noisy_circuit", "graphiq.backends.compiler_base:CompilerBase.compile, _apply_additional_noise",
       "{N} seeded random programs of <=30 ops on <=5 qubits, each turned into a noisy circuit by assign_noise (depolarizing / Pauli noise, before- and after-gate, different noise on control and target) and compiled with the density-matrix backend, noise on, modes 0/1/'probabilistic'",
       clause="compiling a circuit never changes the behaviour of the circuit (temporary noise swap restored)")(compile_frame_case)


@S.item("compile.repeat_deterministic", site="graphiq.backends.compiler_base:CompilerBase.compile",
        bound="all programs of <=2 ops on the configurations with <=2 qubits + {N} seeded random programs of <=30 ops on <=5 qubits; both backends, modes 0 and 1: same compiler instance twice, then a fresh compiler instance",
        clause="repeating a deterministic compile returns the same state")
def repeat_case(inp):
    spec = inp["prog"]
    n = RC.n_qubits(spec)
    for backend in ("stabilizer", "dm"):
        for mode in (0, 1):
            c, _ = build_circuit(spec)
            comp = COMPILERS[backend]()
            comp.measurement_determinism = mode
            a = snapshot(comp.compile(c).rep_data)
            b = snapshot(comp.compile(c).rep_data)
            e = snapshot(compile_plain(c, backend, mode).rep_data)
            for nm_, x in (("second compile with the same compiler", b), ("compile with a fresh compiler", e)):
                m = same_state(backend, a, x, n)
                if m:
                    return f"[{backend} mode={mode}] {nm_}: " + m
    return None


# ------------------------------------------------------------------ repeated use: one compiler instance, several circuits; noisy circuit on alternating backends
@S.item("compile.repeat_deterministic.other_circuits_in_between", site="graphiq.backends.compiler_base:CompilerBase.compile",
        bound="{N} seeded random programs A (<=20 ops, <=5 qubits) + the 14 signature programs of the register configurations with 1..4 qubits; ONE "
              "compiler instance per backend compiles A, then B1 (same total, every other emitter/photon split in turn), then B2 (another "
              "size), then A again; modes 0 and 1; the last result equals the first and the result of a fresh instance, and every in-between "
              "result equals the result of a fresh instance for that circuit",
        clause="repeating a deterministic compile returns the same state (also when the compiler object compiled other circuits in between)")
def repeat_interleaved_case(inp):
    from bounded.C01 import signature_program

    spec = inp["prog"]
    n = RC.n_qubits(spec)
    others = [signature_program(ne, n - ne) for ne in range(n + 1) if ne != spec["ne"]] + [inp["other"]]
    for backend in ("stabilizer", "dm"):
        for mode in (0, 1):
            c, _ = build_circuit(spec)
            comp = COMPILERS[backend]()
            comp.measurement_determinism = mode
            a = snapshot(comp.compile(c).rep_data)
            for o in others:
                oc, _ = build_circuit(o)
                x = snapshot(comp.compile(oc).rep_data)
                if RC.forced_order_independent(o):
                    y = snapshot(compile_plain(oc, backend, mode).rep_data)
                    m = same_state(backend, y, x, RC.n_qubits(o))
                    if m:
                        return (f"[{backend} mode={mode}] circuit ({o['ne']}e,{o['np']}p) compiled by an instance that compiled ({spec['ne']}e,{spec['np']}p) "
                                f"and {[(q['ne'], q['np']) for q in others[:others.index(o)]]} before differs from its compilation by a fresh instance: " + m)
            b = snapshot(comp.compile(c).rep_data)
            c2, _ = build_circuit(spec)
            e = snapshot(comp.compile(c2).rep_data)
            f = snapshot(compile_plain(c, backend, mode).rep_data)
            for nm_, x in (("same circuit object again after the instance compiled other circuits", b), ("a fresh build of the program on the used instance", e),
                           ("compile with a fresh compiler", f)):
                m = same_state(backend, a, x, n)
                if m:
                    return f"[{backend} mode={mode}] {nm_} ({[(o['ne'], o['np']) for o in others]}): " + m
    return None


def light_map():
    """few noisy gate kinds, so that the stabilizer mixture of a short circuit stays small"""
    d1 = nm.DepolarizingNoise(0.1)
    d2 = nm.DepolarizingNoise(0.05)
    d2.noise_parameters["After gate"] = False
    px = nm.PauliError("X")
    one = {"Hadamard": d1, "Phase": d2, "SigmaX": px, "SigmaZ": nm.PhotonLoss(0.25)}
    # both split placements: CNOT control after / target before, CZ control before / target after
    two = {"CNOT": [nm.DepolarizingNoise(0.2), d2], "CZ": [d2, nm.DepolarizingNoise(0.15)]}
    return {"e": dict(one), "p": dict(one), "ee": dict(two), "ep": dict(two), "pe": dict(two), "pp": dict(two)}


def map_dump(m):
    return [[k, name, [[id(x), type(x).__name__, repr(sorted(x.noise_parameters.items(), key=str))] for x in (v if isinstance(v, list) else [v])]]
            for k, d in sorted(m.items()) for name, v in sorted(d.items())]


def noisy_matrix(q, n):
    """density matrix of a compiled QuantumState of either backend (stabilizer mixture: sum_i p_i |t_i><t_i| with the vectors
    built from the signed stabilizer rows by refsem)"""
    rep = q.rep_data
    d = rep.data
    if isinstance(d, np.ndarray):
        return np.array(d, dtype=complex)
    branches = d if isinstance(d, list) else [(1.0, d)]
    rho = np.zeros((2**n, 2**n), dtype=complex)
    for p, t in branches:
        tab, ph = np.array(t.table), np.array(t.phase)
        v = R.stabilizer_state(tab[n:, :n], tab[n:, n:], ph[n:])
        if v is None:
            raise AssertionError("a branch of the stabilizer mixture is not a stabilizer state")
        rho += p * np.outer(v, v.conj())
    return rho


@S.item("compile.noisy_circuit.alternating_backends", site="graphiq.backends.compiler_base:CompilerBase.compile, _apply_additional_noise",
        bound="{N} seeded random unitary-or-measuring programs of <=6 ops on <=3 qubits + all 1-op programs on (1e,1p), each turned into a noisy "
              "circuit by assign_noise (depolarizing before/after, Pauli error, photon loss, control-after/target-before on CNOT and control-before/target-after on CZ); the SAME "
              "noisy circuit object is compiled dm, stabilizer, dm, stabilizer, dm (noise simulation on, forced outcome 1, one compiler "
              "instance per backend); after every compilation the circuit dump and the noise map are unchanged; the three dm results are "
              "equal and the two stabilizer-mixture results are equal (as matrices)",
        clause="compiling a circuit never changes the behaviour of the circuit, so repeating a deterministic compile returns the same state "
               "(noisy circuit, both backends in turn); the noise models are not changed")
def noisy_alternating_case(inp):
    spec = inp["prog"]
    n = RC.n_qubits(spec)
    base, _ = build_circuit(spec)
    mp = light_map()
    md = map_dump(mp)
    c = base.assign_noise(mp)
    before = circuit_dump(c)
    comps = {"dm": DensityMatrixCompiler(), "stabilizer": StabilizerCompiler()}
    first = {}
    for k, backend in enumerate(("dm", "stabilizer", "dm", "stabilizer", "dm")):
        comp = comps[backend]
        comp.measurement_determinism = 1
        comp.noise_simulation = True
        exc = None
        try:
            with contextlib.redirect_stdout(io.StringIO()):
                st = comp.compile(c)
        except Exception as e:  # noqa: BLE001 - whether the noisy simulation itself works is C06's subject; the frame still applies
            exc = f"{type(e).__name__}: {e}"
        d = first_diff(before, circuit_dump(c))
        if d:
            return f"compilation #{k} ({backend}{', raised ' + exc if exc else ''}) changed the noisy circuit: {d}"
        if map_dump(mp) != md:
            return f"compilation #{k} ({backend}) changed the noise map: {md} -> {map_dump(mp)}"
        if exc is not None:
            if backend in first and first[backend] is not None:
                return f"compilation #{k} ({backend}) raised {exc} although the first {backend} compilation of the same object returned"
            first[backend] = None
            continue
        rho = noisy_matrix(st, n)
        if backend not in first:
            first[backend] = rho
        elif first[backend] is None:
            return f"compilation #{k} ({backend}) returned although the first {backend} compilation of the same object raised"
        elif rho.shape != first[backend].shape or not np.allclose(rho, first[backend], atol=1e-9):
            return (f"compilation #{k} ({backend}) of the same noisy circuit object differs from the first {backend} compilation "
                    f"(max dev {np.max(np.abs(rho - first[backend])):.3e})")
    return None


@S.item("assign_noise.twice.frame", site="graphiq.circuit.circuit_dag:CircuitDAG.assign_noise, _noisy_gates",
        bound="every 6th of the programs of <=2 ops on the configurations with <=2 qubits + {N} seeded random programs of <=30 ops on <=5 qubits; calls: "
              "n1 = c.assign_noise(map), n2 = c.assign_noise(map) (same map object), n3 = n1.assign_noise(map), n4 = c.assign_noise(empty)",
        clause="deriving a noisy copy never changes the original, the earlier noisy copies or the noise map; every call returns a new circuit")
def assign_twice_case(inp):
    spec = inp["prog"]
    n = RC.n_qubits(spec)
    c, _ = build_circuit(spec)
    d0 = circuit_dump(c)
    beh = noise_free_behaviour(c, n)
    mp = depol_map()
    md = map_dump(mp)
    n1 = c.assign_noise(mp)
    d1 = circuit_dump(n1)
    n2 = c.assign_noise(mp)
    n3 = n1.assign_noise(mp)
    n4 = c.assign_noise({k: dict(v) for k, v in EMPTY_MAP.items()})
    objs = [c, n1, n2, n3, n4]
    if len({id(x) for x in objs}) != 5:
        return "two assign_noise calls returned the same circuit object"
    d = first_diff(d0, circuit_dump(c))
    if d:
        return f"the original changed after repeated assign_noise: {d}"
    d = first_diff(d1, circuit_dump(n1))
    if d:
        return f"the first noisy copy changed when further noisy copies were derived: {d}"
    if map_dump(mp) != md:
        return f"assign_noise changed the noise map: {md} -> {map_dump(mp)}"
    # the second derivation carries the same noise values as the first (op ids differ, so compare without them)
    strip = lambda dump: [[x[0], x[2]] for x in dump["nodes"]]  # noqa: E731
    if strip(circuit_dump(n2)) != strip(d1):
        return "the second assign_noise(map) on the same original gives a different noisy circuit than the first"
    m = same_state("dm", beh, noise_free_behaviour(c, n), n)
    if m:
        return f"after repeated assign_noise the original no longer compiles to the noise-free state (noise simulation on): {m}"
    for o in n4.sequence():
        flat = o.noise if isinstance(o.noise, list) else [o.noise]
        if not all(isinstance(x, nm.NoNoise) for x in flat):
            return f"assign_noise(empty) after assign_noise(map) attached {noise_dump(o.noise)} to {type(o).__name__}"
    return None


@S.item("copy.independent_of_later_edits", site="graphiq.circuit.circuit_base:CircuitBase.copy ; graphiq.circuit.circuit_dag:CircuitDAG.add, remove_op",
        bound="{N} seeded random programs of <=20 ops on <=4 qubits: the circuit is compiled (both backends) and its depth queried, then copied; "
              "1-3 operations are add()ed to the copy and one of its one-qubit nodes is removed; then an operation is added to the original",
        clause="copying a circuit does not change the state it compiles to; neither object changes when the other one is edited later")
def copy_edit_case(inp):
    from bounded.C01 import make_op

    spec, ext = inp["prog"], inp["ext"]
    n = RC.n_qubits(spec)
    c, _ = build_circuit(spec)
    for backend in ("stabilizer", "dm"):
        compile_plain(c, backend, 1)
    c.depth
    c.register_depth
    d0 = circuit_dump(c)
    cc = c.copy()
    for op in ext:
        cc.add(make_op(op))
    d = first_diff(d0, circuit_dump(c))
    if d:
        return f"adding {ext} to the copy changed the original: {d}"
    ref, _ = build_circuit(dict(spec, ops=list(spec["ops"]) + list(ext)))
    for backend in ("stabilizer", "dm"):
        for mode in forced_modes({"prog": dict(spec, ops=list(spec["ops"]) + list(ext))}, backend):
            m = same_state(backend, snapshot(compile_plain(ref, backend, mode).rep_data), snapshot(compile_plain(cc, backend, mode).rep_data), n)
            if m:
                return f"[{backend} mode={mode}] copy + add({ext}) compiles differently from the program built directly: {m}"
    one = [nd for nd in cc.dag.nodes if isinstance(cc.dag.nodes[nd]["op"], gops.OneQubitOperationBase) and not isinstance(cc.dag.nodes[nd]["op"], gops.MeasurementZ)]
    if one:
        cc.remove_op(one[inp["pick"] % len(one)])
        cc.validate()
        d = first_diff(d0, circuit_dump(c))
        if d:
            return f"removing a node of the copy changed the original: {d}"
    dc = circuit_dump(cc)
    c.add(gops.Hadamard(register=0, reg_type="e" if spec["ne"] else "p"))
    d = first_diff(dc, circuit_dump(cc))
    if d:
        return f"adding an operation to the original changed the copy: {d}"
    return None


# ------------------------------------------------------------------ frame of metric evaluation
METRICS = ["Infidelity", "TraceDistance", "CircuitDepth", "CircuitEmitterCount", "CircuitCnotCount", "CircuitUnitaryCount",
           "CircuitMaxEmitDepth", "CircuitMaxEmitResetDepth", "CircuitMaxEmitEffDepth", "CircuitMeasureCount", "Metrics"]


def make_metric(name, target):
    if name in ("Infidelity", "TraceDistance"):
        return getattr(gmet, name)(target)
    if name == "Metrics":
        return gmet.Metrics([gmet.Infidelity(target), gmet.CircuitDepth()])
    return getattr(gmet, name)()


@S.item("metric.evaluate.frame", site="graphiq.metrics:*.evaluate",
        bound="11 metric classes x {N} seeded random programs of <=20 ops on <=4 qubits x (state, target) representation pairs (s,s), (dm,dm), (s,dm), (dm,s); target = state compiled from another random program of the same size",
        clause="evaluating a metric never changes the behaviour of the circuit or target state passed in")
def metric_case(inp):
    spec, tspec, name, reps = inp["prog"], inp["target_prog"], inp["metric"], inp["reps"]
    c, _ = build_circuit(spec)
    tc, _ = build_circuit(tspec)
    srep, trep = reps
    state = compile_plain(c, "stabilizer" if srep == "s" else "dm", 1)
    target = compile_plain(tc, "stabilizer" if trep == "s" else "dm", 1)
    if name == "TraceDistance" and trep != "dm":
        return None  # evaluate raises ValueError by design for other target representations
    metric = make_metric(name, target)
    b_c, b_s, b_t = circuit_dump(c), state_dump(state), state_dump(target)
    metric.evaluate(state, c)
    for what, before, after in (("circuit", b_c, circuit_dump(c)), ("state", b_s, state_dump(state)), ("target", b_t, state_dump(target))):
        d = first_diff(before, after)
        if d:
            return f"{name}.evaluate changed the {what}: {d}"
    return None


# ------------------------------------------------------------------ noisy copies
def noise_free_behaviour(c, n):
    """what the original does when it is compiled with noise simulation switched on: must stay the noise-free state"""
    return snapshot(compile_plain(c, "dm", 1, noise=True).rep_data)


@S.item("assign_noise.frame", site="graphiq.circuit.circuit_dag:CircuitDAG.assign_noise, _noisy_gates",
        bound="all programs of <=2 ops on the configurations with <=2 qubits + {N} seeded random programs of <=30 ops on <=5 qubits x noise map in {empty, depolarizing/Pauli map}",
        clause="deriving a noisy copy of a circuit never changes the behaviour of the noise-free original passed in")
def assign_noise_case(inp):
    spec = inp["prog"]
    n = RC.n_qubits(spec)
    for mp in ("empty", "depol"):
        c, _ = build_circuit(spec)
        before = circuit_dump(c)
        beh = noise_free_behaviour(c, n)
        noisy = c.assign_noise({k: dict(v) for k, v in EMPTY_MAP.items()} if mp == "empty" else depol_map())
        if noisy is c:
            return "assign_noise returned the original object"
        d = first_diff(before, circuit_dump(c))
        if d:
            return f"assign_noise({mp} map) changed the original circuit: {d}"
        m = same_state("dm", beh, noise_free_behaviour(c, n), n)
        if m:
            return f"after assign_noise({mp} map) the original no longer compiles to the noise-free state (noise simulation on): {m}"
    return None


@S.item("MonteCarloNoise.assign_noise.frame", site="graphiq.noise.monte_carlo_noise:MonteCarloNoise.__init__, assign_noise, _noisy_gates",
        bound="{N} seeded random programs of <=20 ops on <=4 qubits (>=1 photon), Monte-Carlo map with Pauli X/Z errors on Hadamard, Phase, CNOT (probabilities 0.5), seeds 0..2",
        clause="deriving a noisy copy of a circuit never changes the behaviour of the noise-free original passed in")
def mc_case(inp):
    spec = inp["prog"]
    n = RC.n_qubits(spec)
    c, _ = build_circuit(spec)
    before = circuit_dump(c)
    beh = noise_free_behaviour(c, n)
    mp = McNoiseMap()
    one = {"Hadamard": [(nm.PauliError("X"), 0.5)], "Phase": [(nm.PauliError("Z"), 0.5)]}
    two = {"CNOT": [(nm.PauliError("X"), 0.5), (nm.PauliError("Z"), 0.25)]}
    mp.mapping = {"e": dict(one), "p": dict(one), "ee": dict(two), "ep": dict(two), "pe": dict(two), "pp": dict(two)}
    comp = StabilizerCompiler()
    comp.measurement_determinism = 1
    for s in range(3):
        mc = MonteCarloNoise(c, 1, mp, comp, seed=inp["mcseed"] + s)
        d = first_diff(before, circuit_dump(c))
        if d:
            return f"MonteCarloNoise(...) changed the circuit: {d}"
        with contextlib.redirect_stdout(io.StringIO()):
            mc.run()  # one_run(): assign_noise() + compile of the noisy copy + infidelity
        d = first_diff(before, circuit_dump(c))
        if d:
            return f"MonteCarloNoise.run (assign_noise) changed the original circuit: {d}"
    m = same_state("dm", beh, noise_free_behaviour(c, n), n)
    if m:
        return f"after MonteCarloNoise.assign_noise the original no longer compiles to the noise-free state: {m}"
    return None


# ------------------------------------------------------------------ solvers on a target
def make_target(adj_edges, nv, rep):
    g = nx.Graph()
    g.add_nodes_from(range(nv))
    g.add_edges_from(adj_edges)
    t = QuantumState(g, rep_type="g")
    if rep != "g":
        t.convert_representation(rep)
    return t


def target_frame(before, target, what):
    d = first_diff(before, state_dump(target))
    return f"{what} changed the caller's target: {d}" if d else None


def trs_case(inp):
    edges, nv, rep, backend = inp
    target = make_target(edges, nv, rep)
    before = state_dump(target)
    comp = COMPILERS[backend]()
    comp.measurement_determinism = 1
    metric = gmet.Infidelity(target)
    solver = TimeReversedSolver(target, metric, comp)
    m = target_frame(before, target, "TimeReversedSolver.__init__")
    if m:
        return m
    try:
        solver.solve()
    except Exception:  # noqa: BLE001 - whether solve succeeds is C02's subject; the frame applies to whatever happened
        pass
    return target_frame(before, target, "TimeReversedSolver.solve")


def hybrid_case(inp):
    from graphiq.solvers.evolutionary_solver import EvolutionarySolverSetting

    edges, nv, rep, seed = inp
    target = make_target(edges, nv, rep)
    before = state_dump(target)
    comp = StabilizerCompiler()
    comp.measurement_determinism = 1
    setting = EvolutionarySolverSetting(n_hof=2, n_stop=2, n_pop=4)
    solver = HybridEvolutionarySolver(target, gmet.Infidelity(make_target(edges, nv, "s")), comp, solver_setting=setting)
    m = target_frame(before, target, "HybridEvolutionarySolver.__init__")
    if m:
        return m
    solver.seed(seed)
    with contextlib.redirect_stdout(io.StringIO()):
        solver.solve()
    return target_frame(before, target, "HybridEvolutionarySolver.solve")


_C_SOLVER = "running a solver on a target never changes the behaviour of the target state passed in"
S.item("TimeReversedSolver.frame.stabilizer_target", "graphiq.solvers.time_reversed_solver:TimeReversedSolver.__init__, solve",
       "target handed over in stabilizer representation (cannot hit known finding C13-T1, which needs a graph / density-matrix target): all labelled graphs on 1..3 vertices + (quick: 16, thorough: all 64) labelled graphs on 4 vertices x compiler in {stabilizer, dm}; fixed list, seed-independent",
       clause=_C_SOLVER)(trs_case)
S.item("TimeReversedSolver.frame.graph_or_dm_target", "graphiq.solvers.time_reversed_solver:TimeReversedSolver.__init__, solve",
       "fixed sample, seed-independent (touches known finding C13-T1): 5 graphs (K1, K2, path P3, triangle K3, path P4) x target representation in {graph, density matrix} x compiler in {stabilizer, dm}; same list in both tiers",
       exhaustive=True, clause=_C_SOLVER)(trs_case)
S.item("HybridEvolutionarySolver.frame.stabilizer_target", "graphiq.solvers.hybrid_solvers:HybridEvolutionarySolver.__init__, solve",
       "target handed over in stabilizer representation (cannot hit known finding C13-T1): 6 connected graphs on 2..4 vertices, solver seeds 0..5 (fixed); constructor, then solve with n_pop=4, n_stop=2",
       clause=_C_SOLVER)(hybrid_case)
S.item("HybridEvolutionarySolver.frame.graph_or_dm_target", "graphiq.solvers.hybrid_solvers:HybridEvolutionarySolver.__init__, solve (population_initialization builds a TimeReversedSolver on the caller's target)",
       "fixed sample, seed-independent (touches known finding C13-T1): 3 graphs (K2, P3, K3) x target representation in {graph, density matrix}, solver seed 0; same list in both tiers",
       exhaustive=True, clause=_C_SOLVER)(hybrid_case)

def alternate_case(inp):
    from graphiq.solvers.alternate_target_solver import AlternateTargetSolver, AlternateTargetSolverSetting

    edges, nv, rep, lc, seed = inp
    target = make_target(edges, nv, rep)
    before = state_dump(target)
    setting = AlternateTargetSolverSetting(n_iso_graphs=2, n_lc_graphs=2, lc_method=lc)
    solver = AlternateTargetSolver(target=target, solver_setting=setting, seed=seed)
    m = target_frame(before, target, "AlternateTargetSolver.__init__")
    if m:
        return m
    with contextlib.redirect_stdout(io.StringIO()):
        try:
            solver.solve()
        except Exception:  # noqa: BLE001 - whether solve succeeds is C10's subject; the frame applies to whatever happened
            pass
    return target_frame(before, target, "AlternateTargetSolver.solve")


S.item("AlternateTargetSolver.frame", "graphiq.solvers.alternate_target_solver:AlternateTargetSolver.__init__, solve",
       "6 connected graphs on 2..4 vertices x target representation in {graph, stabilizer, density matrix} x lc_method in {lc_with_iso, random, linear}, n_iso_graphs=n_lc_graphs=2, solver seed 0 (fixed list; the solver builds its own targets for the inner TimeReversedSolver, so known finding C13-T1 is out of reach)",
       clause=_C_SOLVER)(alternate_case)

T1_GRAPHS = [([], 1), ([[0, 1]], 2), ([[0, 1], [1, 2]], 3), ([[0, 1], [0, 2], [1, 2]], 3), ([[0, 1], [1, 2], [2, 3]], 4)]


# ------------------------------------------------------------------ histories of <= 3 calls on the same objects
CALLS = ["compile_s0", "compile_s1", "compile_dm1", "compile_sp", "compile_dm1_noise_on", "copy", "metric_depth", "metric_unitary_count",
         "assign_noise_empty", "assign_noise_depol", "derived_then_assign_depol", "rewrites_on_copy"]
_KNOWN_MUTATORS = ("assign_noise_depol", "derived_then_assign_depol")  # calls that derive a noisy copy: their histories form a separate item


def do_call(c, name, scratch):
    if name.startswith("compile_"):
        backend = "stabilizer" if name.split("_")[1][0] == "s" else "dm"
        mode = {"0": 0, "1": 1, "p": "probabilistic"}[name.split("_")[1][-1]]
        compile_plain(c, backend, mode, noise=name.endswith("noise_on"), seed=scratch["seed"])
    elif name == "copy":
        scratch["copy"] = c.copy()
    elif name == "metric_depth":
        gmet.CircuitDepth().evaluate(None, c)
    elif name == "metric_unitary_count":
        gmet.CircuitUnitaryCount().evaluate(None, c)
    elif name == "assign_noise_empty":
        scratch["derived"] = c.assign_noise({k: dict(v) for k, v in EMPTY_MAP.items()})
    elif name == "assign_noise_depol":
        c.assign_noise(depol_map())
    elif name == "derived_then_assign_depol":
        d = scratch.get("derived") or c.assign_noise({k: dict(v) for k, v in EMPTY_MAP.items()})
        d.assign_noise(depol_map())
    elif name == "rewrites_on_copy":
        cc = c.copy()
        cc.unwrap_nodes()
        cc.remove_identity()
        try:
            cc.group_one_qubit_gates()
        except Exception:  # noqa: BLE001 - has its own items; here only the frame of the original matters
            pass
    else:
        raise ValueError(name)


_H_SITE = "graphiq.backends.compiler_base:CompilerBase.compile ; graphiq.circuit.circuit_dag:CircuitDAG.assign_noise ; graphiq.metrics ; graphiq.circuit.circuit_base:CircuitBase.copy"
_H_CLAUSE = "all interleavings of the listed calls: none changes the behaviour of the circuit passed in; repeating a deterministic compile returns the same state"


def history_case(inp):
    spec = inp["prog"]
    n = RC.n_qubits(spec)
    c, _ = build_circuit(spec)
    before = circuit_dump(c)
    ref = {(b, nz): snapshot(compile_plain(c, b, 1, noise=nz).rep_data) for b in ("stabilizer", "dm") for nz in (False, True) if not (b == "stabilizer" and nz)}
    scratch = {"seed": inp["seed"]}
    for k, name in enumerate(inp["calls"]):
        do_call(c, name, scratch)
        d = first_diff(before, circuit_dump(c))
        if d:
            return f"after call #{k} {name} of {inp['calls']} the circuit changed: {d}"
    for (b, nz), a in ref.items():
        m = same_state(b, a, snapshot(compile_plain(c, b, 1, noise=nz).rep_data), n)
        if m:
            return f"after {inp['calls']} the circuit compiles ({b}, noise_simulation={nz}) to a different state: {m}"
    return None


S.item("history.frame_le3", _H_SITE,
       "all sequences of 1..3 calls from a catalogue of 10 calls (compile on either backend / any setting / noise on, copy, two metrics, assign_noise with an empty map, rewrites on a copy) on the same circuit object x {M} seeded random program(s) of <=12 ops on <=4 qubits each; after every call the circuit's dump is unchanged and at the end it compiles (noise off and on) to the state it compiled to at the start",
       exhaustive=False, clause=_H_CLAUSE)(history_case)
S.item("history.frame_le3_with_noisy_copy", _H_SITE,
       "all sequences of 1..3 calls from the catalogue of 12 calls that contain assign_noise with a depolarizing/Pauli map on the circuit or on a circuit derived from it x {M} seeded random program(s); same contract",
       exhaustive=False, clause=_H_CLAUSE + " (histories that derive a noisy copy)")(history_case)


# ------------------------------------------------------------------ domains
def _pseeds(seed, i, k=1):
    return [int((seed * 1000003 + i * 7919 + j * 104729) % (2**31 - 1)) for j in range(k)]


def small_programs():
    w1 = RC.WORDS24 + RC.EXTRA_WORDS
    w2 = [RC.WORDS24[5], RC.WORDS24[10], RC.WORDS24[15], RC.EXTRA_WORDS[1]]
    out = list(RC.enumerate_programs(1, w1, w2))
    small = [(ne, np_) for ne, np_ in RC.REG_CONFIGS if ne + np_ <= 2]
    out += [p for p in RC.enumerate_programs(2, [], w2, configs=small) if len(p["ops"]) == 2]
    return out


def random_programs(seed, n, max_qubits=5, max_len=30, min_photons=0, min_emitters=0):
    rng = np.random.default_rng(seed)
    out = []
    while len(out) < n:
        p = RC.random_program(rng, max_qubits=max_qubits, max_len=max_len, nc=1, p_measure=0.12)
        if p["np"] >= min_photons and p["ne"] >= min_emitters and len(RC.measuring_positions(p)) <= 10:
            out.append(p)
    return out


def all_graph_edges(nv):
    pairs = list(itertools.combinations(range(nv), 2))
    for bits in itertools.product([0, 1], repeat=len(pairs)):
        yield [list(p) for b, p in zip(bits, pairs) if b]


def run(tier, seed):
    if tier == "replay-none":
        return S
    th = tier == "thorough"
    nt = lambda inp: RC.has_entangling(inp["prog"])  # noqa: E731
    small = small_programs()
    N = 1500 if th else 250
    rnd = random_programs(seed + 1301, N)
    base = [{"prog": p, "pseeds": _pseeds(seed, i)} for i, p in enumerate(small + rnd)]

    for r in REWRITES:
        it = S.items[f"{r}.preserves_state"]
        it.bound = it.bound.replace("{N}", str(N))
        S.map(f"{r}.preserves_state", [dict(b, rewrites=[r]) for b in base], nontrivial=nt)
        if f"{r}.returns_normally" in S.items:
            S.items[f"{r}.returns_normally"].bound = S.items[f"{r}.returns_normally"].bound.replace("{N}", str(N))
            S.map(f"{r}.returns_normally", [dict(b, rewrites=[r]) for b in base], nontrivial=nt)

    M = 12 if th else 3
    seqs = [list(s) for k in (2, 3) for s in itertools.product(REWRITES, repeat=k)]
    rp = random_programs(seed + 1302, M * len(seqs), max_qubits=4, max_len=12)
    sin = [{"prog": rp[i * M + j], "rewrites": s} for i, s in enumerate(seqs) for j in range(M)]
    for nm_, sel in (("rewrites.sequences_le3", False), ("rewrites.sequences_le3_with_grouping", True)):
        S.items[nm_].bound = S.items[nm_].bound.replace("{M}", str(M))
        S.map(nm_, [x for x in sin if ("group_one_qubit_gates" in x["rewrites"]) == sel], nontrivial=nt)

    from bounded.C01 import domain_many

    many, Nmany = domain_many(tier, seed + 77)
    many = many[: max(8, len(many) // 2)]
    for x in many:
        x["prog"]["nc"] = 1
        ops_ = [op[:-1] + [0] if op[0] in RC.MEASURING else op for op in x["prog"]["ops"]]
        x["prog"]["ops"] = ops_ if len(ops_) <= 28 else ops_[:24] + ops_[-4:]
    S.items["rewrites.many_registers"].bound = S.items["rewrites.many_registers"].bound.replace("{N}", str(len(many)))
    S.map("rewrites.many_registers", [{"prog": x["prog"], "rewrites": rw, "backends": ["stabilizer"]} for x in many
                                       for rw in [[r] for r in REWRITES] + [["copy", "unwrap_nodes", "remove_identity", "group_one_qubit_gates"]]], nontrivial=nt)

    two = [b for b in base if RC.n_qubits(b["prog"]) <= 2 or len(b["prog"]["ops"]) > 2]
    for nm_ in ("compile.frame", "compile.frame_noisy_circuit", "compile.repeat_deterministic", "assign_noise.frame"):
        S.items[nm_].bound = S.items[nm_].bound.replace("{N}", str(N))
    S.map("compile.frame", [dict(b, noisy=False) for b in two], nontrivial=nt)
    S.map("compile.frame_noisy_circuit", [dict(b, noisy=True) for b in base if len(b["prog"]["ops"]) > 2], nontrivial=nt)
    S.map("compile.repeat_deterministic", two, nontrivial=nt)
    S.map("assign_noise.frame", two, nontrivial=nt)

    from bounded.C01 import random_program_on, signature_program, CONFIGS14

    rrng = np.random.default_rng(seed + 1310)
    Nr = 300 if th else 60
    rep = [signature_program(*cfg) for cfg in CONFIGS14] + random_programs(seed + 1311, Nr, max_qubits=5, max_len=20)
    rin = []
    for p in rep:
        n2 = int(rrng.integers(1, 6))
        ne2 = int(rrng.integers(0, n2 + 1))
        rin.append({"prog": p, "other": random_program_on(rrng, ne2, n2 - ne2, 12)})
    S.items["compile.repeat_deterministic.other_circuits_in_between"].bound = S.items["compile.repeat_deterministic.other_circuits_in_between"].bound.replace("{N}", str(Nr))
    S.map("compile.repeat_deterministic.other_circuits_in_between", rin, nontrivial=nt)

    Na = 400 if th else 100
    alt = [p for p in RC.enumerate_programs(1, [RC.WORDS24[5], RC.WORDS24[10]], [], configs=[(1, 1)]) if len(p["ops"]) == 1]
    alt += random_programs(seed + 1312, Na, max_qubits=3, max_len=6)
    S.items["compile.noisy_circuit.alternating_backends"].bound = S.items["compile.noisy_circuit.alternating_backends"].bound.replace("{N}", str(Na))
    S.map("compile.noisy_circuit.alternating_backends", [{"prog": p} for p in alt], nontrivial=nt)
    S.items["assign_noise.twice.frame"].bound = S.items["assign_noise.twice.frame"].bound.replace("{N}", str(N))
    S.map("assign_noise.twice.frame", [b for i, b in enumerate(two) if i % 6 == 0 or len(b["prog"]["ops"]) > 2], nontrivial=nt)
    Nc = 400 if th else 80
    cin = []
    for i, p in enumerate(random_programs(seed + 1313, Nc, max_qubits=4, max_len=20)):
        ext = random_program_on(rrng, p["ne"], p["np"], 3, nc=p["nc"], p_measure=0.2)["ops"]
        cin.append({"prog": p, "ext": ext, "pick": int(rrng.integers(0, 1000))})
    S.items["copy.independent_of_later_edits"].bound = S.items["copy.independent_of_later_edits"].bound.replace("{N}", str(Nc))
    S.map("copy.independent_of_later_edits", cin, nontrivial=nt)

    Nm = 40 if th else 8
    mp = random_programs(seed + 1303, 2 * Nm * 4, max_qubits=4, max_len=20, min_photons=1, min_emitters=1)
    inputs = []
    k = 0
    for reps in (["s", "s"], ["dm", "dm"], ["s", "dm"], ["dm", "s"]):
        for j in range(Nm):
            a = mp[k]
            k += 1
            # target: another program on the same registers
            b = dict(a, ops=list(reversed(a["ops"])))
            for name in METRICS:
                inputs.append({"prog": a, "target_prog": b, "metric": name, "reps": reps})
    S.items["metric.evaluate.frame"].bound = S.items["metric.evaluate.frame"].bound.replace("{N}", str(Nm) + " per pair")
    S.map("metric.evaluate.frame", inputs)

    Nmc = 300 if th else 60
    S.items["MonteCarloNoise.assign_noise.frame"].bound = S.items["MonteCarloNoise.assign_noise.frame"].bound.replace("{N}", str(Nmc))
    S.map("MonteCarloNoise.assign_noise.frame", [{"prog": p, "mcseed": seed + 17 * i} for i, p in enumerate(random_programs(seed + 1304, Nmc, max_qubits=4, max_len=20, min_photons=1))])

    graphs = [(e, nv) for nv in (1, 2, 3) for e in all_graph_edges(nv)]
    g4 = [(e, 4) for e in all_graph_edges(4)]
    graphs += g4 if th else g4[::4]  # fixed, quick is a subset of thorough
    S.map("TimeReversedSolver.frame.stabilizer_target", [[e, nv, "s", b] for (e, nv) in graphs for b in ("stabilizer", "dm")])
    S.map("TimeReversedSolver.frame.graph_or_dm_target", [[e, nv, rep, b] for (e, nv) in T1_GRAPHS for rep in ("g", "dm") for b in ("stabilizer", "dm")])
    hg = [([[0, 1]], 2), ([[0, 1], [1, 2]], 3), ([[0, 1], [1, 2], [0, 2]], 3), ([[0, 1], [0, 2]], 3), ([[0, 2], [1, 2]], 3), ([[0, 1], [1, 2], [2, 3]], 4)]
    S.map("HybridEvolutionarySolver.frame.stabilizer_target", [[e, nv, "s", i] for i, (e, nv) in enumerate(hg)])
    S.map("AlternateTargetSolver.frame", [[e, nv, rep, lc, 0] for (e, nv) in hg for rep in ("g", "s", "dm") for lc in ("lc_with_iso", "random", "linear")])
    S.map("HybridEvolutionarySolver.frame.graph_or_dm_target", [[e, nv, rep, 0] for (e, nv) in T1_GRAPHS[1:4] for rep in ("g", "dm")])

    Mh = 2 if th else 1
    hseqs = [list(s) for k in (1, 2, 3) for s in itertools.product(CALLS, repeat=k)]
    hp = random_programs(seed + 1306, 97, max_qubits=4, max_len=12)
    hin = [{"prog": hp[(i * Mh + j) % len(hp)], "calls": s, "seed": seed + i} for i, s in enumerate(hseqs) for j in range(Mh)]
    for nm_, sel in (("history.frame_le3", False), ("history.frame_le3_with_noisy_copy", True)):
        S.items[nm_].bound = S.items[nm_].bound.replace("{M}", str(Mh))
        S.map(nm_, [h for h in hin if any(c in _KNOWN_MUTATORS for c in h["calls"]) == sel])
    S.note("frames are compared on value dumps (op classes, registers, params, labels, noise model classes and parameters, DAG edges, register tables, openQASM text, identity and order of the op objects); caches (_register_depth) are excluded")
    return S
