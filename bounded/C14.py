"""C14 [B] - exporting a circuit and importing it back yields the same circuit; the openQASM text means the same
operations to a standard openQASM 2.0 reader; export is deterministic.

Run-time contract monitors on the REAL CircuitBase.to_openqasm / CircuitDAG.from_openqasm / to_json / from_json /
ops.name_to_class_map / ops.class_to_name_mapping, driven by JSON circuit specs.  Oracles: the spec itself (what was
added to the circuit), refsem.core (textbook state vectors) and refsem.qasm2 (independent openQASM 2.0 reader).

Circuit spec (the JSON input of most items):   {"regs": [n_emitter, n_photon, n_classical], "ops": [op, ...]}
   op = ["g", Class, type, reg]                      Class in Identity Hadamard Phase PhaseDagger SigmaX SigmaY SigmaZ
      | ["w", [Class, ...], type, reg]               OneQubitGateWrapper
      | ["cx"|"cz", ctype, c, ttype, t]              CNOT / CZ
      | ["ccx"|"ccz"|"mcr", ctype, c, ttype, t, creg]  ClassicalCNOT / ClassicalCZ / MeasurementCNOTandReset
      | ["mz", type, reg, creg]                      MeasurementZ
A spec may carry "edits": [["replace", k, op] | ["remove", k] | ["insert_front", op]] applied after the adds through the real
replace_op / remove_op / insert_at (k = index into "ops"; insert_front puts a one-qubit op first on its register).
Edit-history spec (export.after_edit_history): {"regs": [...], "seed": s, "len": L [, "focus", "cfocus"]} - the circuit is produced by
the C12 edit driver (bounded/C12.py Run) and compared with its wire model (refsem/dagmodel.py).
Atom spec (single-operation items):  ["g", Class, type] | ["w", [Class..], type] | ["cx", ctype, ttype] | ... |
   ["mz", type]; the checker places the op on every register index (and classical register) from IDX = {0,1,9,10,11}.

Reading of the statement used by the checkers (documented because it decides what counts as "the same operations"):
  * "same registers": equal numbers of emitter / photon / classical registers, each of size 1 as constructed
  * "same sequence of operations on every quantum register": for every register (type, index) the list of operations
    whose q_registers touch it, in circuit.sequence() order, each described by class, q_registers, q_registers_type,
    c_registers, its role attributes (register/reg_type, control/control_type/target/target_type, c_register - the
    fields the compilers read) and, for wrappers, the gate list.
  * The Identity placeholder denotes "no operation": the exporters deliberately emit nothing for it
    (openqasm_lib.empty_info).  Sequences are therefore compared after erasing Identity ops, erasing Identity from
    wrapper gate lists, and identifying a wrapper that is left with exactly one gate with that gate (the exporter
    itself re-uses the plain gate's name for it) - nothing else is identified.
  * Parameterised rotations (RX/RY/RZ/...) are outside the property's quantifier ("gates, wrappers, measurement,
    classically controlled gates and measure-and-reset") and outside refsem; they are not driven.

Flood control (no input is special-cased): the single-operation items ("atoms") decide, on the CURRENT tree, for which
(kind, register-type mix) a one-operation circuit already violates the contract.  Two-operation and random circuits
that contain such an operation cannot be judged for that contract (they fail for the same reason) - the composite
checkers return "not judged" for them and they are counted as trivial.  When the atom is repaired the composites are
judged automatically; a regression in any atom alarms in the atom item.
"""
from __future__ import annotations

import hashlib
import itertools
import json
import os
import subprocess
import sys

import numpy as np

from vf.bounded import Suite
from refsem import core as R
from refsem import qasm2 as Q

from graphiq.circuit.circuit_dag import CircuitDAG
from graphiq.circuit import ops as gops

S = Suite("C14")
S.max_failures_per_item = 2000  # every failing input must be listed (known findings are matched by exact input)

ONEQ = ["Identity", "Hadamard", "Phase", "PhaseDagger", "SigmaX", "SigmaY", "SigmaZ"]
CLS2 = {"cx": "CNOT", "cz": "CZ"}
CLSC = {"ccx": "ClassicalCNOT", "ccz": "ClassicalCZ", "mcr": "MeasurementCNOTandReset"}
ALL_CLASSES = ONEQ + list(CLS2.values()) + list(CLSC.values()) + ["MeasurementZ"]
IDX = [0, 1, 9, 10, 11]

# the 24 one-qubit Cliffords in graphiq's own decomposition (ops.local_clifford_composition; written out here so the
# domain does not depend on the tree) + wrappers that exercise PhaseDagger, repeated gates and single-gate lists
_A = [["Identity"], ["Hadamard", "Phase", "Hadamard", "Phase"], ["Hadamard", "Phase"], ["Hadamard"],
      ["Phase", "Hadamard", "Phase"], ["Phase"]]
_B = [["Identity"], ["SigmaX"], ["SigmaY"], ["SigmaZ"]]
WRAPPERS24 = [a + b for a in _A for b in _B]
WRAPPERS_EXTRA = [["PhaseDagger"], ["Hadamard", "PhaseDagger"], ["Phase", "Phase"], ["SigmaX", "Hadamard"],
                  ["SigmaZ", "Phase"], ["Phase", "SigmaY", "Hadamard"]]
WRAPPERS = WRAPPERS24 + WRAPPERS_EXTRA


# ------------------------------------------------------------------------------------------------ spec -> real objects
def make_op(op):
    k = op[0]
    if k == "g":
        return getattr(gops, op[1])(register=op[3], reg_type=op[2])
    if k == "w":
        return gops.OneQubitGateWrapper([getattr(gops, g) for g in op[1]], register=op[3], reg_type=op[2])
    if k in CLS2:
        return getattr(gops, CLS2[k])(control=op[2], control_type=op[1], target=op[4], target_type=op[3])
    if k in CLSC:
        return getattr(gops, CLSC[k])(control=op[2], control_type=op[1], target=op[4], target_type=op[3], c_register=op[5])
    if k == "mz":
        return gops.MeasurementZ(register=op[2], reg_type=op[1], c_register=op[3])
    raise ValueError(op)


def build(spec):
    """the real circuit: ops added with add(); then the optional edits through replace_op / remove_op / insert_at"""
    ne, np_, nc = spec["regs"]
    c = CircuitDAG(n_emitter=ne, n_photon=np_, n_classical=nc)
    objs = []
    for op in spec["ops"]:
        o = make_op(op)
        c.add(o)
        objs.append(o)

    def node_of(obj):
        for n in c.dag.nodes:
            if c.dag.nodes[n]["op"] is obj:
                return n
        raise KeyError("operation object not found in the DAG")

    for ed in spec.get("edits", []):
        if ed[0] == "replace":
            o = make_op(ed[2])
            c.replace_op(node_of(objs[ed[1]]), o)
            objs[ed[1]] = o
        elif ed[0] == "remove":
            c.remove_op(node_of(objs[ed[1]]))
            objs[ed[1]] = None
        elif ed[0] == "insert_front":
            op = ed[1]
            w = f"{op[2]}{op[3]}"
            edge = [e for e in c.dag.out_edges(f"{w}_in", keys=True) if e[2] == w][0]
            c.insert_at(make_op(op), [edge])
        else:
            raise ValueError(ed)
    return c


def eff(spec):
    """the spec of the circuit after its edits (what the circuit is, register by register)"""
    if not spec.get("edits"):
        return spec
    ops_ = list(spec["ops"])
    front = []
    for ed in spec["edits"]:
        if ed[0] == "replace":
            ops_[ed[1]] = ed[2]
        elif ed[0] == "remove":
            ops_[ed[1]] = None
        else:
            front.insert(0, ed[1])  # first on its register; a later insert_front on the same register goes before it
    return {"regs": spec["regs"], "ops": front + [o for o in ops_ if o is not None]}


def all_ops(spec):
    return list(spec["ops"]) + [ed[-1] for ed in spec.get("edits", []) if ed[0] != "remove"]


def min_regs(ops_):
    ne = np_ = nc = 0
    for op in ops_:
        k = op[0]
        qs = [(op[2], op[3])] if k in ("g", "w") else [(op[1], op[2])] if k == "mz" else [(op[1], op[2]), (op[3], op[4])]
        for t, r in qs:
            if t == "e":
                ne = max(ne, r + 1)
            else:
                np_ = max(np_, r + 1)
        if k in CLSC:
            nc = max(nc, op[5] + 1)
        if k == "mz":
            nc = max(nc, op[3] + 1)
    return [ne, np_, nc]


# ------------------------------------------------------------------------------------------------ descriptions
def _norm_1q(cls, gates, q, qt, c, attrs):
    """Identity-normalisation (module docstring).  Returns None for 'no operation'."""
    if cls == "OneQubitGateWrapper":
        g = [x for x in gates if x != "Identity"]
        if not g:
            return None
        if len(g) == 1:
            return (g[0], q, qt, c, attrs)
        return (cls, q, qt, c, attrs, tuple(g))
    if cls == "Identity":
        return None
    return (cls, q, qt, c, attrs)


def expected_wires(spec):
    """per quantum register: the operations the spec put on it, in order (normalised descriptors)"""
    wires = {}
    for op in spec["ops"]:
        k = op[0]
        if k in ("g", "w"):
            cls = op[1] if k == "g" else "OneQubitGateWrapper"
            d = _norm_1q(cls, op[1] if k == "w" else None, (op[3],), (op[2],), (), (op[3], op[2]))
            touched = [(op[2], op[3])]
        elif k in CLS2:
            d = (CLS2[k], (op[2], op[4]), (op[1], op[3]), (), (op[2], op[1], op[4], op[3]))
            touched = [(op[1], op[2]), (op[3], op[4])]
        elif k in CLSC:
            d = (CLSC[k], (op[2], op[4]), (op[1], op[3]), (op[5],), (op[2], op[1], op[4], op[3], op[5]))
            touched = [(op[1], op[2]), (op[3], op[4])]
        else:
            d = ("MeasurementZ", (op[2],), (op[1],), (op[3],), (op[2], op[1], op[3]))
            touched = [(op[1], op[2])]
        if d is None:
            continue
        for w in touched:
            wires.setdefault(f"{w[0]}{w[1]}", []).append(d)
    return wires


def _tt(x):
    return tuple(int(v) if isinstance(v, (int, np.integer)) else (tuple(v) if isinstance(v, (list, tuple)) else v) for v in x)


def actual_wires(circuit):
    """the same description read off a real circuit (public attributes of the ops in sequence() order)"""
    wires = {}
    for op in circuit.sequence():
        nm = type(op).__name__
        if nm in ("Input", "Output"):
            continue
        q, qt, c = _tt(op.q_registers), _tt(op.q_registers_type), _tt(op.c_registers)
        if isinstance(op, gops.OneQubitOperationBase):
            attrs = (op.register, op.reg_type)
            gates = [g.__name__ for g in op.operations] if nm == "OneQubitGateWrapper" else None
            d = _norm_1q(nm, gates, q, qt, c, attrs)
        elif isinstance(op, gops.ClassicalControlledPairOperationBase):
            d = (nm, q, qt, c, (op.control, op.control_type, op.target, op.target_type, op.c_register))
        elif isinstance(op, gops.ControlledPairOperationBase):
            d = (nm, q, qt, c, (op.control, op.control_type, op.target, op.target_type))
        elif nm == "MeasurementZ":
            d = (nm, q, qt, c, (op.register, op.reg_type, op.c_register))
        else:
            d = (nm, q, qt, c, ())
        if d is None:
            continue
        for t, r in zip(qt, q):
            wires.setdefault(f"{t}{r}", []).append(d)
    return wires


def compare_circuit(spec, circuit, what):
    ne, np_, nc = spec["regs"]
    got = (circuit.n_emitters, circuit.n_photons, circuit.n_classical)
    if got != (ne, np_, nc):
        return f"{what}: registers (emitters, photons, classical) expected {(ne, np_, nc)} got {got}"
    sizes = (list(circuit.emitter_registers), list(circuit.photonic_registers), list(circuit.c_registers))
    if sizes != ([1] * ne, [1] * np_, [1] * nc):
        return f"{what}: register sizes changed: {sizes}"
    ew = expected_wires(spec)
    aw = actual_wires(circuit)
    for w in sorted(set(ew) | set(aw)):
        if ew.get(w, []) != aw.get(w, []):
            return f"{what}: operations on register {w}: expected {ew.get(w, [])} got {aw.get(w, [])}"
    return None


# ------------------------------------------------------------------------------------------------ the contracts
def c_qasm_roundtrip(spec):
    c = build(spec)
    text = c.to_openqasm()
    try:
        c2 = CircuitDAG.from_openqasm(text)
    except Exception as e:  # noqa: BLE001 - the property allows no exception: every exported text must import
        return f"from_openqasm(to_openqasm(C)) raised {type(e).__name__}: {str(e)[:160]}"
    return compare_circuit(eff(spec), c2, "openQASM round trip")


def c_json_roundtrip(spec):
    c = build(spec)
    data = c.to_json()
    for label, d in (("dict", data), ("json text", None)):
        if d is None:
            try:
                d = json.loads(json.dumps(data))
            except Exception as e:  # noqa: BLE001
                return f"to_json(C) is not JSON-serialisable: {type(e).__name__}: {e}"
        try:
            c2 = CircuitDAG.from_json(d)
        except Exception as e:  # noqa: BLE001
            return f"from_json(to_json(C)) [{label}] raised {type(e).__name__}: {str(e)[:160]}"
        r = compare_circuit(eff(spec), c2, f"JSON round trip [{label}]")
        if r:
            return r
    return None


def spec_ops(spec):
    """refsem op tuples of the spec (photons first, then emitters) - Sem(C) is R.run_ops of these"""
    n_p = spec["regs"][1]

    def qi(t, r):
        return r if t == "p" else n_p + r

    out = []
    for op in spec["ops"]:
        k = op[0]
        if k == "g":
            out.append(("g", R.CLASS1[op[1]], qi(op[2], op[3])))
        elif k == "w":
            out.append(("w", [R.CLASS1[g] for g in op[1]], qi(op[2], op[3])))
        elif k in CLS2:
            out.append((k, qi(op[1], op[2]), qi(op[3], op[4])))
        elif k in CLSC:
            out.append((k, qi(op[1], op[2]), qi(op[3], op[4]), op[5]))
        else:
            out.append(("mz", qi(op[1], op[2]), op[3]))
    return out


def _remap(op, m):
    k = op[0]
    if k in ("g", "w"):
        return (k, op[1], m[op[2]])
    if k in ("cx", "cz"):
        return (k, m[op[1]], m[op[2]])
    if k == "mz":
        return (k, m[op[1]], op[2])
    return (k, m[op[1]], m[op[2]], op[3])


def _two_qubit_matrix(kind, c, t):
    """textbook CNOT / CZ on the pair, qubits in ascending order (most significant first)"""
    qs = sorted((c, t))
    m = {q: i for i, q in enumerate(qs)}
    M = np.zeros((4, 4), dtype=complex)
    for b in range(4):
        v = np.zeros(4, dtype=complex)
        v[b] = 1
        M[:, b] = R.apply_ctrl(v, 2, m[c], m[t], R.X if kind == "cx" else R.Z)
    return tuple(qs), M


def _is_identity(M):
    return Q.same_up_to_phase(M, np.eye(len(M)))


def expected_denotation(sops):
    """what the circuit's operations are, statement by statement, in textbook terms"""
    out = []
    for op in sops:
        k = op[0]
        if k in ("g", "w"):
            M = R.GATES1[op[1]] if k == "g" else R.wrapper_matrix(op[1])
            if not _is_identity(M):
                out.append(("U", (op[2],), M, None))
        elif k in ("cx", "cz"):
            qs, M = _two_qubit_matrix(k, op[1], op[2])
            out.append(("U", qs, M, None))
        elif k == "mz":
            out.append(("M", (op[1],), (f"c{op[2]}", 0), None))
        else:
            out.append(("M", (op[1],), (f"c{op[3]}", 0), None))
            out.append(("U", (op[2],), R.X if k in ("ccx", "mcr") else R.Z, (f"c{op[3]}", 1)))
            if k == "mcr":
                out.append(("R", (op[1],), None, None))
    return out


def text_denotation(prog, qnum):
    out = []
    for st in prog.stmts:
        if st.kind == "barrier":
            continue
        qs = tuple(qnum[q] for q in st.qubits)
        if st.kind == "gate":
            loc, M = Q.stmt_unitary(st)
            # stmt_unitary orders by the program's own numbering; re-express in our numbering (ascending)
            order = sorted(range(len(loc)), key=lambda i: qnum[loc[i]])
            if order != list(range(len(loc))):
                k = len(loc)
                T = M.reshape([2] * (2 * k))
                perm = order + [k + i for i in order]
                M = np.transpose(T, perm).reshape(2**k, 2**k)
            if not _is_identity(M):
                out.append(("U", tuple(sorted(qs)), M, st.cond))
        elif st.kind == "measure":
            out.append(("M", qs, st.cbit, st.cond))
        else:
            out.append(("R", qs, None, st.cond))
    return out


def _wire_view(items):
    w = {}
    for it in items:
        for q in it[1]:
            w.setdefault(("q", q), []).append(it)
        if it[0] == "M":
            w.setdefault(("c", it[2][0]), []).append(it)
        if it[3] is not None:
            w.setdefault(("c", it[3][0]), []).append(it)
    return w


def _same_item(a, b):
    if a[0] != b[0] or a[1] != b[1] or a[3] != b[3]:
        return False
    if a[0] == "U":
        return Q.same_up_to_phase(a[2], b[2])
    return a[2] == b[2]


def _show(it):
    if it[0] == "U":
        return ("U", it[1], np.round(it[2], 3).tolist(), it[3])
    return it


def c_text_semantics(spec):
    """the text, read by an independent standard openQASM 2.0 reader, declares the circuit's registers and denotes the
    circuit's operations in an order consistent with the circuit; executed, it prepares the state Sem(C) for every
    measurement record"""
    return text_semantics_of(build(spec), eff(spec))


def text_semantics_of(c, spec):
    """c_text_semantics for a ready circuit c whose operations (register by register) are those of `spec`"""
    ne, np_, nc = spec["regs"]
    text = c.to_openqasm()
    try:
        prog = Q.parse(text)
    except Q.QasmError as e:
        return f"exported text is not valid openQASM 2.0: {e}"
    want_q = [(f"p{i}", 1) for i in range(np_)] + [(f"e{i}", 1) for i in range(ne)]
    if sorted(prog.qregs) != sorted(want_q):
        return f"text declares qregs {prog.qregs}, circuit has {want_q}"
    if sorted(prog.cregs) != sorted((f"c{i}", 1) for i in range(nc)):
        return f"text declares cregs {prog.cregs}, circuit has {nc} classical registers"
    qnum = {}
    for g in range(prog.n_qubits):
        nm, _ = prog.qubit_name(g)
        qnum[g] = int(nm[1:]) if nm[0] == "p" else np_ + int(nm[1:])
    sops = spec_ops(spec)
    # (1) statement level: same operations, order consistent on every quantum / classical wire
    ew = _wire_view(expected_denotation(sops))
    tw = _wire_view(text_denotation(prog, qnum))
    for w in sorted(set(ew) | set(tw), key=str):
        a, b = ew.get(w, []), tw.get(w, [])
        if len(a) != len(b) or not all(_same_item(x, y) for x, y in zip(a, b)):
            return (f"standard reading differs on wire {w}: circuit means {[_show(x) for x in a]}, "
                    f"text denotes {[_show(x) for x in b]}")
    # (2) executed: same state for every measurement record
    used = sorted({q for op in sops for q in ([op[2]] if op[0] in ("g", "w") else [op[1]] if op[0] == "mz" else [op[1], op[2]])}
                  | {qnum[q] for st in prog.stmts if st.kind != "barrier" for q in st.qubits})
    if len(used) > 10:
        return None  # statement-level check done; state too large to execute (not generated by run())
    m = {q: i for i, q in enumerate(used)}
    k = max(1, len(used))
    rops = [_remap(op, m) for op in sops]
    nm_ = len(R.measuring(rops))
    if Q.n_measure_statements(prog) != nm_:
        return f"text has {Q.n_measure_statements(prog)} measure statements, circuit measures {nm_} times"
    qmap = {g: m[qnum[g]] for g in range(prog.n_qubits) if qnum[g] in m}
    # the k-th measurement of a qubit in the text is the k-th measuring operation on that qubit in the circuit (wire
    # check above); the text may list operations of different wires in another (consistent) order
    seen = {}
    key_to_j = {}
    for j, op in enumerate(R.measuring(sops)):
        occ = seen.get(op[1], 0)
        seen[op[1]] = occ + 1
        key_to_j[(op[1], occ)] = j
    seen = {}
    text_order = []
    for st in prog.stmts:
        if st.kind == "measure":
            q = qnum[st.qubits[0]]
            occ = seen.get(q, 0)
            seen[q] = occ + 1
            text_order.append(key_to_j[(q, occ)])
    for outs in itertools.product([0, 1], repeat=nm_):
        g = R.run_ops(k, rops, outcomes=list(outs))
        t = Q.run(prog, [outs[j] for j in text_order], qmap=qmap, n=k)
        if (g is None) != (t is None):
            return f"outcomes {outs}: possible for {'text' if g is None else 'circuit'} only"
        if g is None:
            continue
        ens, cvals, n_used = t
        if n_used != nm_:
            return f"outcomes {outs}: text consumed {n_used} outcomes"
        if not np.allclose(Q.density(ens), R.dm(g[0]), atol=1e-7):
            return f"outcomes {outs}: state of the text (standard semantics) differs from the circuit's state"
        want_c = {(f"c{cr}", 0): o for cr, o in g[2].items()}
        if {kk: v for kk, v in cvals.items()} != want_c:
            return f"outcomes {outs}: classical bits {cvals} expected {want_c}"
    return None


def c_deterministic(spec):
    c = build(spec)
    t1 = c.to_openqasm()
    t2 = c.to_openqasm()
    if t1 != t2:
        return "two to_openqasm() calls on one circuit differ"
    j1 = json.dumps(c.to_json(), sort_keys=False, default=str)
    j2 = json.dumps(c.to_json(), sort_keys=False, default=str)
    if j1 != j2:
        return "two to_json() calls on one circuit differ"
    if c.to_openqasm() != t1:
        return "to_openqasm() after to_json() differs (export changed the circuit)"
    c2 = build(spec)
    if c2.to_openqasm() != t1:
        return "to_openqasm() of an identically built circuit differs"
    if json.dumps(c2.to_json(), sort_keys=False, default=str) != j1:
        return "to_json() of an identically built circuit differs"
    return None


CONTRACTS = {"qasm": c_qasm_roundtrip, "json": c_json_roundtrip, "sem": c_text_semantics}

# ------------------------------------------------------------------------------------------------ atoms
_ATOM_STATUS = {}  # (family, jkey(atom)) -> symptom or None ; filled by run() before forking, lazily on replay


def atom_of(op):
    k = op[0]
    if k in ("g", "w"):
        return [k, op[1], op[2]]
    if k == "mz":
        return ["mz", op[1]]
    return [k, op[1], op[3]]


def atom_specs(atom):
    """all single-operation circuits of the atom over IDX"""
    k = atom[0]
    out = []
    if k in ("g", "w"):
        for r in IDX:
            out.append([k, atom[1], atom[2], r])
    elif k == "mz":
        for r in IDX:
            for cr in IDX:
                out.append(["mz", atom[1], r, cr])
    else:
        for c in IDX:
            for t in IDX:
                if atom[1] == atom[2] and c == t:
                    continue
                if k in CLS2:
                    out.append([k, atom[1], c, atom[2], t])
                else:
                    for cr in IDX:
                        out.append([k, atom[1], c, atom[2], t, cr])
    return [{"regs": min_regs([o]), "ops": [o]} for o in out]


def _atom_run(family, atom):
    bad = []
    for spec in atom_specs(atom):
        r = CONTRACTS[family](spec)
        if r is not None:
            bad.append((spec["ops"][0], r))
    if bad:
        return f"{len(bad)} placements fail; first: op {json.dumps(bad[0][0])}: {bad[0][1]}"
    return None


def _akey(family, atom):
    return family + ":" + json.dumps(atom, separators=(",", ":"))


def atom_ok(family, atom):
    key = _akey(family, atom)
    if key not in _ATOM_STATUS:
        try:
            _ATOM_STATUS[key] = _atom_run(family, atom)
        except Exception as e:  # noqa: BLE001
            _ATOM_STATUS[key] = f"EXC {e}"
    return _ATOM_STATUS[key] is None


def judged(family, spec):
    return all(atom_ok(family, atom_of(op)) for op in all_ops(spec))


ALL_ATOMS = (
    [["g", c, t] for c in ONEQ for t in "ep"]
    + [["w", w, t] for w in WRAPPERS for t in "ep"]
    + [[k, a, b] for k in list(CLS2) + list(CLSC) for a in "ep" for b in "ep"]
    + [["mz", t] for t in "ep"]
)

_SITE_EXP = "graphiq.circuit.circuit_base:CircuitBase.to_openqasm"
_SITE_IMP = "graphiq.circuit.circuit_dag:CircuitDAG.from_openqasm"
_SITE_JS = "graphiq.circuit.circuit_dag:CircuitDAG.from_json"
_ATOM_BOUND = ("fixed sample, seed-independent, same in both tiers (the openQASM round-trip item touches known finding C14-F1b): every op kind x register-type mix (7 one-qubit classes, 24 Clifford wrappers + 6 more, CNOT, CZ, ClassicalCNOT, "
               "ClassicalCZ, MeasurementCNOTandReset, MeasurementZ): %d atoms, each placed on every register index / "
               "classical register from {0,1,9,10,11} (control != target on one type)" % len(ALL_ATOMS))


@S.item("json_tables.inverse", site="graphiq.circuit.ops:name_to_class_map",
        bound="fixed sample, seed-independent: the 13 operation classes to_json can meet", exhaustive=True,
        clause="JSON export then import gives the same operations (name tables are mutually inverse)")
def json_table_case(cls_name):
    K = getattr(gops, cls_name)
    nm = gops.class_to_name_mapping(K)
    if nm is None:
        return f"class_to_name_mapping({cls_name}) is None: to_json writes type None / drops the gate from a wrapper's op_list"
    back = gops.name_to_class_map(nm)
    if back is not K:
        return f"name_to_class_map({nm!r}) is {getattr(back, '__name__', back)}, expected {cls_name}"
    return None


@S.item("from_openqasm.roundtrip_1op", site=_SITE_IMP, bound=_ATOM_BOUND, exhaustive=True,
        clause="openQASM export then import: same registers, same operations on every quantum register")
def atom_qasm(atom):
    return _atom_run("qasm", atom)


@S.item("from_json.roundtrip_1op", site=_SITE_JS, bound=_ATOM_BOUND, exhaustive=True,
        clause="JSON export then import: same registers, same operations on every quantum register")
def atom_json(atom):
    return _atom_run("json", atom)


@S.item("to_openqasm.standard_semantics_1op", site=_SITE_EXP, bound=_ATOM_BOUND, exhaustive=True,
        clause="the text read with standard openQASM 2.0 semantics denotes the same operations (refsem.qasm2)")
def atom_sem(atom):
    return _atom_run("sem", atom)


def _composite(family, spec):
    if not judged(family, spec):
        return None  # contains an operation whose one-operation circuit already fails this contract (see atoms)
    return CONTRACTS[family](spec)


_PAIR_BOUND = ("fixed sample, seed-independent (quick is a subset of thorough); all ordered pairs of operation instances: every kind (as in the 1-op items) on registers {%s} x types "
               "{e,p}, classical registers {%s}; pairs containing a kind/type mix whose 1-op item fails are not judged")


@S.item("from_openqasm.roundtrip_2op", site=_SITE_IMP, bound=_PAIR_BOUND, exhaustive=True,
        clause="openQASM round trip in context (multi-line idioms, barriers, shared registers)")
def pair_qasm(spec):
    return _composite("qasm", spec)


@S.item("from_json.roundtrip_2op", site=_SITE_JS, bound=_PAIR_BOUND, exhaustive=True,
        clause="JSON round trip in context")
def pair_json(spec):
    return _composite("json", spec)


@S.item("to_openqasm.standard_semantics_2op", site=_SITE_EXP, bound=_PAIR_BOUND, exhaustive=True,
        clause="text denotes the same operations in an order consistent with the circuit (two operations)")
def pair_sem(spec):
    return _composite("sem", spec)


_RAND_BOUND = ("seeded random circuits, 3-12 operations added with add(), half of them then edited 1-3 times through replace_op / "
               "remove_op / insert_at (exercises the header state openqasm_defs after edits); by construction they contain only operation kinds / register-type mixes whose "
               "1-op item holds on the current tree, so they cannot meet known finding C14-F1b (a 1-op failure)")


@S.item("from_openqasm.roundtrip_random", site=_SITE_IMP, bound=_RAND_BOUND,
        clause="openQASM round trip, longer circuits")
def rand_qasm(spec):
    return _composite("qasm", spec)


@S.item("from_json.roundtrip_random", site=_SITE_JS, bound=_RAND_BOUND, clause="JSON round trip, longer circuits")
def rand_json(spec):
    return _composite("json", spec)


@S.item("to_openqasm.standard_semantics_random", site=_SITE_EXP, bound=_RAND_BOUND + " (<= 4 measuring operations)",
        clause="text denotes the same operations in a consistent order; same state for all measurement records")
def rand_sem(spec):
    return _composite("sem", spec)


@S.item("export.deterministic", site=_SITE_EXP,
        bound="all 1-op circuits on registers {1,10}, every 7th 2-op circuit, the seeded random circuits (no known finding concerns "
              "determinism): two exports of one "
              "circuit and of an identically rebuilt circuit (openQASM text and JSON)",
        clause="export is deterministic")
def determinism_case(spec):
    return c_deterministic(spec)


def _digest_batch(specs):
    h = []
    for spec in specs:
        c = build(spec)
        h.append(hashlib.sha1((c.to_openqasm() + "\n@@\n" + json.dumps(c.to_json(), default=str)).encode()).hexdigest())
    return h


@S.item("export.deterministic_across_processes", site=_SITE_EXP,
        bound="batches of circuit specs exported in two fresh interpreters with PYTHONHASHSEED=1 and 2",
        clause="export is deterministic (no dependence on hash order)")
def determinism_proc_case(specs):
    res = []
    for hs in ("1", "2"):
        env = dict(os.environ, PYTHONHASHSEED=hs)
        p = subprocess.run([sys.executable, "-W", "ignore", "-c",
                            "import sys, json; from bounded.C14 import _digest_batch; "
                            "print(json.dumps(_digest_batch(json.load(sys.stdin))))"],
                           input=json.dumps(specs), capture_output=True, text=True, env=env, timeout=300)
        if p.returncode != 0:
            return f"export raised in subprocess: {p.stderr[-300:]}"
        res.append(json.loads(p.stdout.strip().splitlines()[-1]))
    for i, (a, b) in enumerate(zip(*res)):
        if a != b:
            return f"spec #{i} {json.dumps(specs[i])} exports differently under PYTHONHASHSEED=1 and 2"
    return None


@S.item("roundtrip.compiled_state", site="graphiq.circuit.circuit_dag:CircuitDAG.from_openqasm",
        bound="seeded random circuits (only kinds whose 1-op round trip holds on the current tree - cannot meet a known finding) "
              "on <= 3 emitters / <= 3 photons with at most one measuring operation (with two, the forced-outcome "
              "modes depend on the order in which unordered measurements are listed - not a round-trip matter): real DensityMatrixCompiler (measurement determinism 0 and 1) "
              "on the original and on the openQASM- and JSON-imported circuit",
        clause="hence the same compiled state")
def compiled_case(spec):
    from graphiq.backends.density_matrix.compiler import DensityMatrixCompiler

    c = build(spec)
    for family in ("qasm", "json"):
        if not judged(family, spec):
            continue
        try:
            c2 = CircuitDAG.from_openqasm(c.to_openqasm()) if family == "qasm" else CircuitDAG.from_json(c.to_json())
        except Exception as e:  # noqa: BLE001
            return f"{family} import raised {type(e).__name__}: {str(e)[:120]}"
        for mode in (0, 1):
            comp = DensityMatrixCompiler()
            comp.measurement_determinism = mode
            a = np.asarray(comp.compile(c).rep_data.data)
            if not np.all(np.isfinite(a)):
                continue  # the compiler itself fails on the original circuit (C01's business) - nothing to compare
            comp = DensityMatrixCompiler()
            comp.measurement_determinism = mode
            b = np.asarray(comp.compile(c2).rep_data.data)
            if a.shape != b.shape or not np.allclose(a, b, atol=1e-8):
                return f"{family} import compiles to a different state (measurement determinism {mode})"
    return None


# ------------------------------------------------------------------------------------------------ (H4/H2/H1) export after edit histories
_LONG = {"I": "Identity", "H": "Hadamard", "P": "Phase", "PD": "PhaseDagger", "X": "SigmaX", "Y": "SigmaY", "Z": "SigmaZ"}


def spec_of_model(m):
    """C14 circuit spec of a refsem.dagmodel.WireModel (operations in a linear extension of the wire orders)"""
    ops_ = []
    for u in m.linear_order():
        d = m.ops[u]
        k = d[0]
        if k == "g":
            ops_.append(["g", _LONG[d[1]], d[2][0], d[2][1]])
        elif k == "w":
            ops_.append(["w", [_LONG[x] for x in d[1]], d[2][0], d[2][1]])
        elif k in CLS2:
            ops_.append([k, d[1][0], d[1][1], d[2][0], d[2][1]])
        elif k in CLSC:
            ops_.append([k, d[1][0], d[1][1], d[2][0], d[2][1], d[3]])
        else:
            ops_.append(["mz", d[1][0], d[1][1], d[2]])
    return {"regs": [m.n["e"], m.n["p"], m.n["c"]], "ops": ops_}


def _frame(c):
    """what an export may not change: the graph (nodes, op objects, keyed edges with attributes), the indexes, the
    registers and the accumulated openQASM header material"""
    g = c.dag
    return (
        [(n, id(g.nodes[n]["op"]), type(g.nodes[n]["op"]).__name__, tuple(g.nodes[n]["op"].q_registers), tuple(g.nodes[n]["op"].q_registers_type),
          tuple(g.nodes[n]["op"].c_registers), tuple(x.__name__ for x in getattr(g.nodes[n]["op"], "operations", []) or []),
          tuple(g.nodes[n]["op"].labels)) for n in g.nodes],
        [(u, v, k, a.get("reg"), a.get("reg_type")) for u, v, k, a in g.edges(keys=True, data=True)],
        {k: list(v) for k, v in c.node_dict.items()}, {k: list(v) for k, v in c.edge_dict.items()},
        (c.n_emitters, c.n_photons, c.n_classical), list(c.openqasm_imports), list(c.openqasm_defs), dict(c.openqasm_symbols),
    )


def edit_history_run(inp, probe=None):
    """the real circuit and its specification after the seeded edit history (C12 driver: add, insert_at at any position,
    remove_op, replace_op, unwrap_nodes, group_one_qubit_gates, remove_identity, copy).  `probe(r)` is called after
    every edit (it decides itself whether to export); it returns a symptom or None."""
    from bounded.C12 import Run, focus_alphabet, focus_now, op_alphabet
    from refsem import dagmodel as dm

    rng = np.random.default_rng([inp["seed"], 1414])
    r = Run(inp["regs"], deep=False)
    r.check("construction")
    for _ in range(inp["len"]):
        m = r.m
        n_ops = len(m.ops)
        if "focus" in inp:
            Qf, Cf = focus_now(m, inp["focus"], inp["cfocus"])
            A = focus_alphabet(Qf, Cf, "A", True)
        else:
            A = op_alphabet(m.n, "A", True)
        n_meas = sum(1 for d in m.ops.values() if d[0] in ("mz", "ccx", "ccz", "mcr"))
        x = rng.random()
        if x < (0.55 if n_ops < 9 else 0.2):
            d = A[rng.integers(len(A))]
            classical = d[0] in ("mz", "ccx", "ccz", "mcr")
            if classical and n_meas >= 3:
                continue  # the executed-semantics check enumerates all measurement records
            if classical or rng.random() < 0.3:
                ed = ["add", d]  # operations naming a classical register are placed by add (insert_at does not wire them
                # to the classical register, so their mutual order would not be fixed by the circuit)
            else:
                ed = ["ins", d, [int(rng.integers(len(m.wires[dm.key(q)]) + 1)) for q in dm.qregs(d)]]
        elif x < 0.75:
            ed = ["rm", int(rng.integers(max(1, n_ops)))]
        elif x < 0.85:
            ids = m.op_ids()
            if not ids:
                continue
            k = int(rng.integers(len(ids)))
            old = m.ops[ids[k]]
            cands = {"g": [["g", "Z"], ["w", ["P", "H"]], ["g", "I"]], "w": [["g", "Y"], ["w", ["X", "P"]]], "cx": [["cz"]], "cz": [["cx"]],
                     "ccx": [["mcr"], ["ccz"]], "ccz": [["ccx"]], "mcr": [["ccx"]], "mz": [["mz"]]}[old[0]]
            a = cands[rng.integers(len(cands))]
            ed = ["rep", k, a + [None] if a[0] in ("g", "w") else a]
        else:
            ed = [["unwrap"], ["rmid"], ["group"], ["copy"]][int(rng.integers(4))]
        s = r.apply(ed)
        if s:
            raise RuntimeError("C12 failure while editing the circuit: " + s)
        if probe is not None:
            s = probe(r)
            if s:
                r.symptom = s
                return r
    return r


def _export_import_ok(r, tag):
    """both exports of r.c, imported again, carry the specification's operations on every quantum register"""
    spec = spec_of_model(r.m)
    if not (judged("qasm", spec) and judged("json", spec)):
        return None
    try:
        c2 = CircuitDAG.from_openqasm(r.c.to_openqasm())
        c3 = CircuitDAG.from_json(r.c.to_json())
    except Exception as e:  # noqa: BLE001
        return f"{tag}: import of the export raised {type(e).__name__}: {str(e)[:160]}"
    return compare_circuit(spec, c2, f"{tag}: openQASM round trip") or compare_circuit(spec, c3, f"{tag}: JSON round trip")


@S.item("export.after_edit_history", site=_SITE_EXP + " / CircuitDAG.to_json",
        bound="seeded edit histories (quick 800 x 18 edits, thorough 4000 x 24) of the C12 driver - add, insert_at at any position, "
              "remove_op, replace_op, unwrap_nodes, group_one_qubit_gates, remove_identity, copy - on <= (3e,3p,2c) and, every 4th, on "
              "circuits with 11..13 registers per type (ops on indices 1, 9..12); gates H,P,X,Y,Z,I and wrappers of them (no "
              "PhaseDagger: cannot meet known finding C14-F1b), <= 3 measuring operations, classical-register operations placed by "
              "add; after a third of the edits both exports are made and checked (export - edit - export on one object).  At the end: openQASM and JSON export + import give the specification's operations on every quantum register; "
              "the text read by the independent openQASM reader denotes them in a consistent order and prepares the same state; "
              "every export is repeated and must give the same text / dict; no export or import changes the circuit (graph, "
              "indexes, registers, header material compared before/after) or the dict handed to from_json",
        clause="export / import of circuits produced by edit histories (node creation order differs from circuit order); export is "
               "deterministic and does not modify the circuit")
def edited_case(inp):
    import copy as _copy

    prng = np.random.default_rng([inp["seed"], 141414])

    def probe(rr):
        # export - edit - export: a third of the edits are followed by both exports (checked), on the same object
        if prng.random() < 0.33:
            return _export_import_ok(rr, f"after edit #{len(rr.trace)} {rr.trace[-1]} (previous {rr.trace[-3:-1]})")
        return None

    r = edit_history_run(inp, probe)
    if getattr(r, "symptom", None):
        return r.symptom
    c = r.c
    spec = spec_of_model(r.m)
    for fam in ("qasm", "json", "sem"):
        if not judged(fam, spec):
            return None  # an operation kind whose 1-op item fails on this tree (flood control, see module docstring)
    f0 = _frame(c)
    t1 = c.to_openqasm()
    j1 = c.to_json()
    j1_text = json.dumps(j1, default=str)
    t2 = c.to_openqasm()
    j2_text = json.dumps(c.to_json(), default=str)
    if t1 != t2:
        return "two to_openqasm() calls on the edited circuit differ"
    if j1_text != j2_text:
        return "two to_json() calls on the edited circuit differ"
    if _frame(c) != f0:
        return "an export modified the circuit (graph / indexes / registers / openQASM header material)"
    try:
        c2 = CircuitDAG.from_openqasm(t1)
    except Exception as e:  # noqa: BLE001
        return f"from_openqasm(to_openqasm(C)) raised {type(e).__name__}: {str(e)[:160]}"
    bad = compare_circuit(spec, c2, "openQASM round trip after the edit history")
    if bad:
        return bad
    d = json.loads(j1_text)
    d0 = _copy.deepcopy(d)
    try:
        c3 = CircuitDAG.from_json(d)
    except Exception as e:  # noqa: BLE001
        return f"from_json(to_json(C)) raised {type(e).__name__}: {str(e)[:160]}"
    if d != d0:
        return "from_json modified the dict it was given"
    bad = compare_circuit(spec, c3, "JSON round trip after the edit history")
    if bad:
        return bad
    try:
        c4 = CircuitDAG.from_json(j1)
    except Exception as e:  # noqa: BLE001
        return f"from_json(to_json(C)) [dict] raised {type(e).__name__}: {str(e)[:160]}"
    bad = compare_circuit(spec, c4, "JSON round trip [dict] after the edit history")
    if bad:
        return bad
    bad = text_semantics_of(c, spec)
    if bad:
        return "after the edit history: " + bad
    if _frame(c) != f0 or c.to_openqasm() != t1 or json.dumps(c.to_json(), default=str) != j1_text:
        return "exports / imports changed the circuit or a later export differs"
    bad = r.check("exports")
    if bad:
        return bad + " (an export modified the circuit)"
    # an identically rebuilt history (without the intermediate exports) exports identically
    r2 = edit_history_run(inp)
    if r2.c.to_openqasm() != t1 or json.dumps(r2.c.to_json(), default=str) != j1_text:
        return "an identically rebuilt edit history exports differently"
    # the imported circuits export the same operations again (second generation)
    try:
        c5 = CircuitDAG.from_openqasm(c2.to_openqasm())
        c6 = CircuitDAG.from_json(c3.to_json())
    except Exception as e:  # noqa: BLE001
        return f"re-export of an imported circuit cannot be imported: {type(e).__name__}: {str(e)[:160]}"
    return compare_circuit(spec, c5, "second openQASM round trip") or compare_circuit(spec, c6, "second JSON round trip")


IDX_WIDE = [12, 20, 101]
PAIRS_WIDE = [(12, 20), (20, 12), (12, 101), (101, 10), (1, 12), (12, 1)]


def wide_specs(atom):
    """single-operation circuits of the atom on register indices 12, 20 and 101"""
    k = atom[0]
    out = []
    if k in ("g", "w"):
        out = [[k, atom[1], atom[2], r] for r in IDX_WIDE]
    elif k == "mz":
        out = [["mz", atom[1], r, cr] for r in IDX_WIDE for cr in IDX_WIDE]
    else:
        for c, t in PAIRS_WIDE:
            if k in CLS2:
                out.append([k, atom[1], c, atom[2], t])
            else:
                for cr in (12, 101):
                    out.append([k, atom[1], c, atom[2], t, cr])
    return [{"regs": min_regs([o]), "ops": [o]} for o in out]


@S.item("roundtrip.wide_register_indices", site=_SITE_IMP + " / from_json / to_openqasm",
        bound="fixed sample, seed-independent: every atom of the 1-op items (%d) whose 1-op item holds on the current tree (so it cannot "
              "meet known finding C14-F1b), placed on register indices {12, 20, 101} (one-qubit ops, MeasurementZ x classical {12,20,101}) "
              "/ (control,target) in {(12,20),(20,12),(12,101),(101,10),(1,12),(12,1)} x classical {12,101}: openQASM round trip, JSON "
              "round trip and standard reading of the text" % len(ALL_ATOMS),
        exhaustive=True,
        clause="round trip and text semantics on registers with index 12, 20 (two digits) and 101 (three digits)")
def wide_case(atom):
    for fam in ("qasm", "json", "sem"):
        if not atom_ok(fam, atom):
            continue
        for spec in wide_specs(atom):
            r = CONTRACTS[fam](spec)
            if r is not None:
                return f"op {json.dumps(spec['ops'][0])} [{fam}]: {r}"
    return None


# ------------------------------------------------------------------------------------------------ domains
def instances(regs, cregs, wrappers=WRAPPERS):
    qs = [(t, r) for t in "ep" for r in regs]
    out = []
    for t, r in qs:
        for c in ONEQ:
            out.append(["g", c, t, r])
        for w in wrappers:
            out.append(["w", w, t, r])
    for a in qs:
        for b in qs:
            if a == b:
                continue
            for k in CLS2:
                out.append([k, a[0], a[1], b[0], b[1]])
            for k in CLSC:
                for cr in cregs:
                    out.append([k, a[0], a[1], b[0], b[1], cr])
    for t, r in qs:
        for cr in cregs:
            out.append(["mz", t, r, cr])
    return out


def random_spec(rng, atoms_ok, max_meas=None, small=False, edits=True):
    """a random circuit; `atoms_ok(atom)` filters the op kinds"""
    if small or rng.random() < 0.6:
        ne, np_, nc = int(rng.integers(1, 4)), int(rng.integers(1, 4)), int(rng.integers(1, 4))
    else:
        ne, np_, nc = int(rng.integers(10, 13)), int(rng.integers(10, 13)), int(rng.integers(10, 13))
    pe = sorted(rng.choice(ne, size=min(ne, 3), replace=False).tolist())
    pp = sorted(rng.choice(np_, size=min(np_, 3), replace=False).tolist())
    pc = sorted(rng.choice(nc, size=min(nc, 3), replace=False).tolist())
    qs = [("e", r) for r in pe] + [("p", r) for r in pp]
    n_ops = int(rng.integers(3, 13))
    ops_ = []
    meas = 0
    tries = 0
    while len(ops_) < n_ops and tries < 200:
        tries += 1
        u = rng.random()
        a = qs[int(rng.integers(len(qs)))]
        if u < 0.3:
            op = ["g", ONEQ[int(rng.integers(len(ONEQ)))], a[0], a[1]]
        elif u < 0.5:
            op = ["w", WRAPPERS[int(rng.integers(len(WRAPPERS)))], a[0], a[1]]
        elif u < 0.6:
            op = ["mz", a[0], a[1], pc[int(rng.integers(len(pc)))]]
        else:
            b = qs[int(rng.integers(len(qs)))]
            if a == b:
                continue
            if u < 0.8:
                op = [["cx", "cz"][int(rng.integers(2))], a[0], a[1], b[0], b[1]]
            else:
                op = [["ccx", "ccz", "mcr"][int(rng.integers(3))], a[0], a[1], b[0], b[1], pc[int(rng.integers(len(pc)))]]
        if not atoms_ok(atom_of(op)):
            continue
        if op[0] in ("mz", "ccx", "ccz", "mcr"):
            if max_meas is not None and meas >= max_meas:
                continue
            meas += 1
        ops_.append(op)
    spec = {"regs": [ne, np_, nc], "ops": ops_}
    if edits and ops_ and rng.random() < 0.5:
        eds = []
        alive = list(range(len(ops_)))
        cur = list(ops_)

        def one_qubit_on(t, r):
            for _ in range(50):
                if rng.random() < 0.5:
                    o = ["g", ONEQ[int(rng.integers(len(ONEQ)))], t, r]
                else:
                    o = ["w", WRAPPERS[int(rng.integers(len(WRAPPERS)))], t, r]
                if atoms_ok(atom_of(o)):
                    return o
            return None

        for _ in range(int(rng.integers(1, 4))):
            u = rng.random()
            if u < 0.4:
                cand = [k for k in alive if cur[k][0] in ("g", "w")]
                if not cand:
                    continue
                k = cand[int(rng.integers(len(cand)))]
                o = one_qubit_on(cur[k][2], cur[k][3])
                if o is None:
                    continue
                eds.append(["replace", k, o])
                cur[k] = o
            elif u < 0.7 and len(alive) > 1:
                k = alive[int(rng.integers(len(alive)))]
                eds.append(["remove", k])
                alive.remove(k)
            else:
                a = qs[int(rng.integers(len(qs)))]
                o = one_qubit_on(a[0], a[1])
                if o is not None:
                    eds.append(["insert_front", o])
        if eds:
            spec["edits"] = eds
    return spec


HI_EDIT = [
    ((12, 13, 12), [["e", 1], ["e", 11], ["p", 10], ["p", 12]], [1, 11]),
    ((11, 11, 11), [["e", 10], ["p", 1], ["p", 10]], [1, 10]),
    ((2, 12, 1), [["e", 0], ["p", 1], ["p", 11]], [0]),
    ((12, 1, 12), [["e", 1], ["e", 10], ["e", 11]], [10]),
]


def run(tier, seed):
    rng = np.random.default_rng(seed)
    thorough = tier == "thorough"
    S.map("json_tables.inverse", ALL_CLASSES)

    # ---- atoms (exhaustive over IDX) and their status on this tree
    for fam, item in (("qasm", "from_openqasm.roundtrip_1op"), ("json", "from_json.roundtrip_1op"),
                      ("sem", "to_openqasm.standard_semantics_1op")):
        S.map(item, ALL_ATOMS, chunksize=1)
        failed = {json.dumps(f["input"], separators=(",", ":")) for f in S.items[item].failures}
        for a in ALL_ATOMS:
            k = json.dumps(a, separators=(",", ":"))
            _ATOM_STATUS[_akey(fam, a)] = "failed in the 1-op item" if k in failed else None
        S.note(f"{item}: {len(failed)} of {len(ALL_ATOMS)} atoms fail on this tree; composites containing them are not judged for '{fam}'")

    # ---- pairs
    regs, cregs = ([1, 10], [0, 10, 11]) if thorough else ([1, 10], [0, 11])
    wr = WRAPPERS if thorough else WRAPPERS24[1:] + WRAPPERS_EXTRA[:2]
    inst = instances(regs, cregs, wr)
    pairs = [{"regs": min_regs([a, b]), "ops": [a, b]} for a in inst for b in inst]
    for item in ("from_openqasm.roundtrip_2op", "from_json.roundtrip_2op", "to_openqasm.standard_semantics_2op"):
        S.items[item].bound = _PAIR_BOUND % (",".join(map(str, regs)), ",".join(map(str, cregs))) + f" ({len(inst)} instances)"
    S.map("from_openqasm.roundtrip_2op", pairs, nontrivial=lambda s: judged("qasm", s))
    S.map("from_json.roundtrip_2op", pairs, nontrivial=lambda s: judged("json", s))
    S.map("to_openqasm.standard_semantics_2op", pairs, nontrivial=lambda s: judged("sem", s))

    # ---- random longer circuits
    n_rand = 4000 if thorough else 1000
    rq = [random_spec(rng, lambda a: atom_ok("qasm", a)) for _ in range(n_rand)]
    rj = [random_spec(rng, lambda a: atom_ok("json", a)) for _ in range(n_rand)]
    rs = [random_spec(rng, lambda a: atom_ok("sem", a), max_meas=4) for _ in range(n_rand)]
    S.map("from_openqasm.roundtrip_random", rq, nontrivial=lambda s: judged("qasm", s))
    S.map("from_json.roundtrip_random", rj, nontrivial=lambda s: judged("json", s))
    S.map("to_openqasm.standard_semantics_random", rs, nontrivial=lambda s: judged("sem", s))

    # ---- determinism
    one = [{"regs": min_regs([o]), "ops": [o]} for o in instances([1, 10], [0, 11])]
    det = one + pairs[::7] + rq[: n_rand // 2]
    S.map("export.deterministic", det)
    batch = one[::3] + pairs[::(211 if not thorough else 97)] + rq[:150]
    S.check("export.deterministic_across_processes", batch)

    # ---- (H3) indices 12, 20, 101 ; (H4/H2/H1) export after edit histories
    S.map("roundtrip.wide_register_indices", ALL_ATOMS, chunksize=1)
    eh = []
    for j in range(4000 if thorough else 800):
        if j % 4 == 3:
            regs, focus, cfocus = HI_EDIT[(j // 4) % len(HI_EDIT)]
            eh.append({"regs": list(regs), "seed": seed * 104729 + j, "len": 24 if thorough else 18, "focus": focus, "cfocus": cfocus})
        else:
            eh.append({"regs": list([(2, 1, 1), (1, 2, 2), (3, 3, 2)][j % 3]), "seed": seed * 104729 + j, "len": 24 if thorough else 18})
    S.map("export.after_edit_history", eh)

    # ---- compiled state of the imported circuits (real compiler)
    rc = [random_spec(rng, lambda a: atom_ok("qasm", a) or atom_ok("json", a), max_meas=1, small=True) for _ in range(1200 if thorough else 300)]
    S.map("roundtrip.compiled_state", rc, nontrivial=lambda s: judged("qasm", s) or judged("json", s))
    return S
