"""C01 [B] - both simulation backends compute the state the circuit defines.

Run-time contract monitors on the REAL StabilizerCompiler / DensityMatrixCompiler (CompilerBase.compile,
compile_one_gate, reg_to_index_func) driven by JSON programs (refsem/circuits.py) and compared with the textbook
state-vector semantics of refsem.core.run_ops.  The oracle is built from the JSON program only (never from
circuit.sequence()).

What is observed
  * the QuantumState returned by compile (tableau rows with signs / density matrix),
  * the classical record: compile's local `classical_registers` array has no public reader, so the monitor wraps the
    compiler instance's compile_one_gate and copies the array it is handed after every operation (the wrapper calls
    the real method unchanged).

Inputs: {"prog": program, "pseeds": [seeds for probabilistic mode], optional "init": {...}}
"""
from __future__ import annotations

import itertools
import os
import time

import numpy as np

from vf.bounded import Suite
from refsem import core as R
from refsem import circuits as RC

from graphiq.circuit.circuit_dag import CircuitDAG
from graphiq.circuit import ops as gops
from graphiq.backends.compiler_base import CompilerBase
from graphiq.backends.stabilizer.compiler import StabilizerCompiler
from graphiq.backends.density_matrix.compiler import DensityMatrixCompiler
from graphiq.backends.stabilizer.clifford_tableau import CliffordTableau
from graphiq.state import QuantumState

S = Suite("C01")

CLS1 = {
    "I": gops.Identity, "H": gops.Hadamard, "P": gops.Phase, "PD": gops.PhaseDagger,
    "X": gops.SigmaX, "Y": gops.SigmaY, "Z": gops.SigmaZ,
}
CLS2 = {"cx": gops.CNOT, "cz": gops.CZ}
CLSC = {"ccx": gops.ClassicalCNOT, "ccz": gops.ClassicalCZ, "mcr": gops.MeasurementCNOTandReset}
COMPILERS = {"stabilizer": StabilizerCompiler, "dm": DensityMatrixCompiler}
MODES = [0, 1, "probabilistic"]
MAX_BRANCH_BITS = 12


# ------------------------------------------------------------------ program -> real objects
def make_op(op):
    k = op[0]
    if k == "g":
        return CLS1[op[1]](register=op[3], reg_type=op[2])
    if k == "w":
        return gops.OneQubitGateWrapper([CLS1[g] for g in op[1]], register=op[3], reg_type=op[2])
    if k in CLS2:
        return CLS2[k](control=op[2], control_type=op[1], target=op[4], target_type=op[3])
    if k in CLSC:
        return CLSC[k](control=op[2], control_type=op[1], target=op[4], target_type=op[3], c_register=op[5])
    if k == "mz":
        return gops.MeasurementZ(register=op[2], reg_type=op[1], c_register=op[3])
    raise ValueError(op)


def build_circuit(spec):
    """the real CircuitDAG of a program, built through the public constructor and add(); returns (circuit, op objects)"""
    c = CircuitDAG(n_emitter=spec["ne"], n_photon=spec["np"], n_classical=spec["nc"])
    objs = []
    for op in spec["ops"]:
        o = make_op(op)
        c.add(o)
        objs.append(o)
    return c, objs


def build_circuit_grown(spec):
    """the same circuit built another way: an empty CircuitDAG() whose registers are added one by one through
    add_emitter_register / add_photonic_register / add_classical_register, each only right before the first operation that
    needs it (register numbering must be continuous, so lower registers are added first); registers no operation uses are
    added at the end"""
    c = CircuitDAG()
    have = {"e": 0, "p": 0, "c": 0}
    adders = {"e": c.add_emitter_register, "p": c.add_photonic_register, "c": c.add_classical_register}

    def need(t, r):
        while have[t] <= r:
            adders[t]()
            have[t] += 1

    objs = []
    for op in spec["ops"]:
        k = op[0]
        if k in ("g", "w"):
            need(op[2], op[3])
        elif k == "mz":
            need(op[1], op[2])
            need("c", op[3])
        else:
            need(op[1], op[2])
            need(op[3], op[4])
            if k in CLSC:
                need("c", op[5])
        o = make_op(op)
        c.add(o)
        objs.append(o)
    for t, total in (("e", spec["ne"]), ("p", spec["np"]), ("c", spec["nc"])):
        if total:
            need(t, total - 1)
    return c, objs


_V0_LAST = {}
_DET_HOOK = None  # when a dict: compile_traced counts the deterministic-branch measurements of forced stabilizer runs into it


def initial_state(init, n, backend):
    """(QuantumState for `backend`, textbook vector).  init = {"word": [...]} stabilizer state word|0..0>
    or {"haar": seed} (dm only): a generic pure state"""
    if "tableau" in init:  # an explicit Clifford tableau [table (2n x 2n), phase (2n)]: any generating set, any destabilizers, signs
        table = np.array(init["tableau"][0], dtype=int)
        phase = np.array(init["tableau"][1], dtype=int)
        if _V0_LAST.get("id") is init:  # same input object as in the previous call: the oracle vector is the same
            v0 = _V0_LAST["v0"]
        else:
            v0 = R.stabilizer_state(table[n:, :n], table[n:, n:], phase[n:])
            assert v0 is not None and R.clifford_valid(table, n), "harness: the initial tableau is not a valid stabilizer tableau"
            _V0_LAST.update(id=init, v0=v0)
        if backend == "stabilizer":
            return QuantumState(CliffordTableau(table, phase), rep_type="s"), v0
        return QuantumState(R.dm(v0), rep_type="dm"), v0
    if "word" in init:
        word = [tuple(g) for g in init["word"]]
        v0 = RC.word_state(n, word)
        if backend == "stabilizer":
            table, phase = RC.tableau_from_word(n, word)
            return QuantumState(CliffordTableau(table, phase), rep_type="s"), v0
        return QuantumState(R.dm(v0), rep_type="dm"), v0
    rng = np.random.default_rng(init["haar"])
    v0 = rng.normal(size=2**n) + 1j * rng.normal(size=2**n)
    v0 = v0 / np.linalg.norm(v0)
    return QuantumState(R.dm(v0), rep_type="dm"), v0


def snapshot(state_rep):
    d = state_rep.data
    if isinstance(d, np.ndarray):
        return np.array(d, dtype=complex).copy()
    return (np.array(d.table).copy(), np.array(d.phase).copy(), np.array(d.iphase).copy())


def compile_traced(circuit, backend, mode, seed=None, init_state=None, comp=None):
    """compile with the real compiler; returns (QuantumState, trace) with trace = [(op object, copy of the classical
    register array after the op, copy of the state data after the op if the op measures)] per compile_one_gate call.
    comp: an existing compiler instance to be used again (instance-reuse items); default: a fresh instance"""
    if comp is None:
        comp = COMPILERS[backend]()
    comp.measurement_determinism = mode
    trace = []
    real = comp.__dict__.get("_vf_real_one_gate") or comp.compile_one_gate  # the real bound method, also on a re-used instance
    comp.__dict__["_vf_real_one_gate"] = real

    def monitored(state, op, n_quantum, q_index, classical_registers):
        info = None
        if _DET_HOOK is not None and backend == "stabilizer" and mode in (0, 1) and hasattr(op, "c_register"):
            t = state.rep_data.data
            info = det_rows(t.table, t.phase, _measured_qubit(op, circuit.n_photons), n_quantum)
        r = real(state, op, n_quantum, q_index, classical_registers)
        if info is not None:
            _DET_HOOK["det"] += 1
            _DET_HOOK["k3"] += int(info[0] >= 3)
            _DET_HOOK["phase_matters"] += int(info[0] >= 2 and int(classical_registers[op.c_register]) != info[1])
        snap = snapshot(state.rep_data) if hasattr(op, "c_register") else None
        trace.append((op, np.array(classical_registers, dtype=float).copy(), snap))
        return r

    comp.compile_one_gate = monitored
    if seed is not None:
        np.random.seed(seed)
    st = comp.compile(circuit) if init_state is None else comp.compile(circuit, init_state)
    return st, trace


# ------------------------------------------------------------------ comparisons
def stab_mismatch(data, v, n):
    """None iff (table, phase, iphase) is a valid Clifford tableau whose n signed stabilizer rows all stabilise v"""
    table, phase, iph = data
    if table.shape != (2 * n, 2 * n) or phase.shape != (2 * n,):
        return f"tableau shape {table.shape}/{phase.shape} for n={n}"
    if not R.clifford_valid(table, n):
        return f"tableau not a valid Clifford tableau: {table.tolist()}"
    if not np.all((phase == 0) | (phase == 1)):
        return f"phase not binary: {phase.tolist()}"
    for i in range(n, 2 * n):
        if iph[i] % 4 != 0:
            return f"stabilizer row {i - n} carries a factor i (iphase={int(iph[i])}): not Hermitian"
        if not RC.stabilizes(v, table[i, :n], table[i, n:], phase[i]):
            lab = "".join("IXZY"[int(a) + 2 * int(b)] for a, b in zip(table[i, :n], table[i, n:]))
            return f"stabilizer row {i - n} = {'-' if phase[i] else '+'}{lab} does not stabilise the textbook state {np.round(v, 3).tolist()}"
    return None


def dm_mismatch(rho, v, n):
    if rho.shape != (2**n, 2**n):
        return f"density matrix shape {rho.shape} for n={n}"
    want = R.dm(v)
    if not np.allclose(rho, want, atol=1e-8):
        return f"density matrix differs from |v><v| (max abs diff {np.max(np.abs(rho - want)):.3g}); diag got {np.round(np.real(np.diag(rho)), 4).tolist()} want {np.round(np.real(np.diag(want)), 4).tolist()}"
    return None


def mismatch(backend, data, v, n):
    """data: snapshot() of a state representation"""
    return stab_mismatch(data, v, n) if backend == "stabilizer" else dm_mismatch(data, v, n)


def expected_cregs(nc, cregs):
    a = np.zeros(nc)
    for k, o in cregs.items():
        a[k] = o
    return a


def abstract_of(op, n_photon):
    """textbook reading of one real operation object handed to compile_one_gate (public attributes only)"""
    def qi(reg, typ):
        return reg if typ == "p" else n_photon + reg
    nm = type(op).__name__
    if nm in R.CLASS1:
        return ("g", R.CLASS1[nm], qi(op.register, op.reg_type))
    if nm == "CNOT":
        return ("cx", qi(op.control, op.control_type), qi(op.target, op.target_type))
    if nm == "CZ":
        return ("cz", qi(op.control, op.control_type), qi(op.target, op.target_type))
    k = {"ClassicalCNOT": "ccx", "ClassicalCZ": "ccz", "MeasurementCNOTandReset": "mcr"}.get(nm)
    if k:
        return (k, qi(op.control, op.control_type), qi(op.target, op.target_type), op.c_register)
    if nm == "MeasurementZ":
        return ("mz", qi(op.register, op.reg_type), op.c_register)
    raise ValueError(f"unexpected operation {nm} reached compile_one_gate")


def order_violation(spec, objs, trace):
    """the calls compile made, projected on every quantum register, are the program's ops on that register in program
    order with every wrapper [g1..gk] expanded to gk, ..., g1 (last listed gate acts first); every measuring op object
    of the program is compiled exactly once"""
    want = {}
    for op in spec["ops"]:
        k = op[0]
        if k == "g":
            want.setdefault((op[2], op[3]), []).append(CLS1[op[1]].__name__)
        elif k == "w":
            for g in reversed(op[1]):
                want.setdefault((op[2], op[3]), []).append(CLS1[g].__name__)
        elif k == "mz":
            want.setdefault((op[1], op[2]), []).append(f"MeasurementZ->c{op[3]}")
        else:
            nm = (CLS2.get(k) or CLSC.get(k)).__name__ + (f"->c{op[5]}" if k in CLSC else "")
            want.setdefault((op[1], op[2]), []).append(nm + ".control")
            want.setdefault((op[3], op[4]), []).append(nm + ".target")
    got = {}
    for op, _, _ in trace:
        nm = type(op).__name__
        if nm in ("Input", "Output"):
            continue
        if hasattr(op, "c_register"):
            nm += f"->c{op.c_register}"
        if hasattr(op, "control"):
            got.setdefault((op.control_type, op.control), []).append(nm + ".control")
            got.setdefault((op.target_type, op.target), []).append(nm + ".target")
        else:
            got.setdefault((op.reg_type, op.register), []).append(nm)
    if got != want:
        return f"operations applied per register {got} != program order {want}"
    for i in RC.measuring_positions(spec):
        c = sum(1 for (o, _, _) in trace if o is objs[i])
        if c != 1:
            return f"op #{i} {spec['ops'][i]} compiled {c} times"
    return None


# ------------------------------------------------------------------ the monitored case (all aspects in one pass)
KINDS = {"mz": "MeasurementZ", "ccx": "ClassicalCNOT", "ccz": "ClassicalCZ", "mcr": "MeasurementCNOTandReset"}
ASPECTS = ["state", "order", "record_final"] + ["record_" + k for k in KINDS.values()]
MAX_CANDIDATES = 256


def run_case(inp, backend, finals=None, comp=None, circ=None, build=None):
    """returns {aspect: symptom or None} for one program on one backend, all three measurement settings.
    comp: compiler instance used for every compile of this case (default: a fresh one per compile);
    circ: (circuit, op objects) compiled by every run of this case (default: a fresh circuit per compile).

    The textbook run follows the order in which compile handed the operations to compile_one_gate; aspect `order`
    demands that this order is consistent with the program (so the oracle is a textbook run of the program).
    state:  the state after every measuring op and at the end equals the textbook state (forced modes: the forced run;
            probabilistic: of at least one outcome branch of non-zero probability)
    record_<Kind>: the value found in the op's classical register right after an op of that kind was compiled equals
            the outcome of that op in the textbook run(s) the compiled states are consistent with
    record_final: the register array at the end equals the last outcome written to each register (0 if none)"""
    spec = inp["prog"]
    n = RC.n_qubits(spec)
    mpos = RC.measuring_positions(spec)
    res = {a: None for a in ASPECTS}

    def fail(aspect, msg):
        if res[aspect] is None:
            res[aspect] = msg

    runs = [(0, None), (1, None)] + [("probabilistic", s) for s in inp.get("pseeds", [0])]
    for mode, seed in runs:
        circuit, objs = (build or build_circuit)(spec) if circ is None else circ
        v0 = R.ket0(n)
        ist = None
        if inp.get("init") is not None:
            ist, v0 = initial_state(inp["init"], n, backend)
        state, trace = compile_traced(circuit, backend, mode, seed, ist, comp=comp)
        tag = f"[mode={mode}{'' if seed is None else ' seed=' + str(seed)}] "

        ov = order_violation(spec, objs, trace)
        if ov:
            fail("order", tag + ov)
            continue  # no textbook run to compare with: the applied sequence is not the program

        # textbook run along the applied order; candidates = outcome branches consistent with every snapshot so far
        pos_of = {id(objs[i]): i for i in mpos}
        cands = [(v0, {}, {})]  # (vector, {program position: outcome}, cregs)
        rec = {}
        dead = False
        for op, cr, snap in trace:
            if type(op).__name__ in ("Input", "Output"):
                continue
            a = abstract_of(op, spec["np"])
            if a[0] not in RC.MEASURING:
                cands = [(R.run_ops(n, [a], v0=v)[0], o, c) for v, o, c in cands]
                continue
            i = pos_of[id(op)]
            x = float(cr[op.c_register])
            rec[i] = int(x) if x in (0.0, 1.0) else x
            new = []
            for v, o, c in cands:
                if mode in (0, 1):
                    w, outs, cc = R.run_ops(n, [a], force=mode, v0=v)
                    new.append((w, {**o, i: outs[0]}, {**c, **cc}))
                else:
                    for bit in (0, 1):
                        r = R.run_ops(n, [a], outcomes=[bit], v0=v)
                        if r is not None:
                            new.append((r[0], {**o, i: bit}, {**c, **r[2]}))
            keep = [t for t in new if mismatch(backend, snap, t[0], n) is None]
            if not keep:
                fail("state", tag + f"state right after op #{i} {spec['ops'][i]} is not the textbook state of any of the {len(new)} outcome branch(es) possible there; vs outcomes {new[0][1]}: " + str(mismatch(backend, snap, new[0][0], n)))
                dead = True
                break
            cands = keep[:MAX_CANDIDATES]
        if dead:
            continue
        fin = snapshot(state.rep_data)
        if finals is not None and mode in (0, 1):
            finals[mode] = fin
        keep = [t for t in cands if mismatch(backend, fin, t[0], n) is None]
        if not keep:
            fail("state", tag + f"final state is not the textbook state (outcomes {cands[0][1]}): " + str(mismatch(backend, fin, cands[0][0], n)))
            continue

        # record: kind K is blamed iff in EVERY textbook run consistent with the compiled states some op of kind K has a
        # register value != its outcome
        final = trace[-1][1] if trace else np.zeros(spec["nc"])
        exact = [t for t in keep if t[1] == rec]
        if exact:
            if not any(np.array_equal(final, expected_cregs(spec["nc"], t[2])) for t in exact):
                fail("record_final", tag + f"final classical registers {final.tolist()} != {expected_cregs(spec['nc'], exact[0][2]).tolist()}")
            continue
        bad = [{i for i in mpos if rec[i] != t[1][i]} for t in keep]
        kinds = [{KINDS[spec["ops"][i][0]] for i in b} for b in bad]
        blamed = set.intersection(*kinds)
        k0 = min(range(len(bad)), key=lambda t: len(bad[t]))
        if not blamed:
            blamed = kinds[k0]
        for K in blamed:
            i = next((i for i in sorted(bad[k0]) if KINDS[spec["ops"][i][0]] == K), None)
            at = f"after op #{i} {spec['ops'][i]} holds {rec[i]}, but its outcome is {keep[k0][1][i]}" if i is not None else "disagrees"
            fail("record_" + K, tag + f"classical register {at} (register value after each measuring op {[rec[i] for i in mpos]} vs outcomes {[keep[k0][1][i] for i in mpos]}; {len(keep)} textbook run(s) consistent with the compiled states)")
    return res


def agree_case(inp, finals=None):
    """both real backends, forced modes (same branch): every signed stabilizer row g of the tableau fixes rho: g rho = rho"""
    spec = inp["prog"]
    n = RC.n_qubits(spec)
    for mode in (0, 1):
        if finals is not None:
            if mode not in finals[0] or mode not in finals[1]:
                continue  # a backend failed before the end: reported by its own items
            (table, phase, iph), rho = finals[0][mode], finals[1][mode]
        else:
            c1, _ = build_circuit(spec)
            c2, _ = build_circuit(spec)
            s1, _ = compile_traced(c1, "stabilizer", mode)
            s2, _ = compile_traced(c2, "dm", mode)
            table, phase, iph = snapshot(s1.rep_data)
            rho = snapshot(s2.rep_data)
        if abs(np.trace(rho) - 1) > 1e-8:
            return f"[mode={mode}] trace(rho)={np.trace(rho)}"
        for i in range(n, 2 * n):
            grho = np.stack([RC.pauli_apply(rho[:, c], table[i, :n], table[i, n:], phase[i], iph[i]) for c in range(2**n)], axis=1)
            if not np.allclose(grho, rho, atol=1e-8):
                return f"[mode={mode}] stabilizer row {i - n} (x|z|r)={table[i].tolist()}|{int(phase[i])} of the stabilizer backend does not fix the density-matrix backend's state (diag {np.round(np.real(np.diag(rho)), 4).tolist()})"
    return None


def _mk(backend, aspect):
    def f(inp):
        return run_case(inp, backend)[aspect]
    f.__name__ = f"{backend}_{aspect}"
    f.__qualname__ = f.__name__
    return f


CHECKERS = {}
for _b in ("stabilizer", "dm"):
    for _a in ASPECTS:
        _f = _mk(_b, _a)
        CHECKERS[(_b, _a)] = _f
        globals()[_f.__name__] = _f  # top-level name (pickled by name for the pool)


def both_backends(inp):
    """one pass computing every aspect (used by run() to avoid compiling each program once per item)"""
    out = {}
    fins = ({}, {})
    for k, b in enumerate(("stabilizer", "dm")):
        try:
            r = run_case(inp, b, finals=fins[k])
        except Exception as e:  # noqa: BLE001 - an escaping exception fails every aspect of THIS backend (as vf.bounded._call would)
            import traceback
            msg = f"EXC {type(e).__name__}: {e} | {traceback.format_exc(limit=6)[-900:]}"
            r = {a: msg for a in ASPECTS}
            fins[k].clear()
        for a in ASPECTS:
            out[f"{b}.{a}"] = r[a]
    out["agree"] = agree_case(inp, fins)
    return out


_SITE_S = "graphiq.backends.stabilizer.compiler:StabilizerCompiler.compile_one_gate (via CompilerBase.compile)"
_SITE_D = "graphiq.backends.density_matrix.compiler:DensityMatrixCompiler.compile_one_gate (via CompilerBase.compile)"
_B_EX = ("all programs of <=2 ops over the 14 op kinds (I,H,P,Pdag,X,Y,Z,wrapper,CNOT,CZ,classical-CNOT,classical-CZ,"
         "Z-measure,measure-CNOT-reset) on all 8 register configurations with <=2 emitters, <=2 photons, 1 classical "
         "register (+ the 3 two-qubit configurations with 2 classical registers; + 1440 3-op programs [prepare control, prepare target in any of the 6 one-qubit stabilizer states, any two-qubit op] on (1e,1p),(2e,1p)); wrapper bodies: all 24 Clifford words + 7 non-canonical words in 1-op programs, {W} in 2-op programs; "
         "x measurement_determinism 0, 1 and 'probabilistic' ({K} seeds, oracle conditioned on the recorded outcomes))")
_B_RND = "{N} seeded random programs of <=30 ops on <=5 qubits, 1-3 classical registers, modes 0, 1 and 'probabilistic' ({K} seeds)"
_C_STATE = "compiling with the backend yields exactly the textbook state (|0..0> start, photons before emitters, reset leaves |0>) under each measurement setting"
_C_REC = "the classical record equals the outcomes actually drawn (probabilistic: state = textbook state conditioned on the record)"
_C_ORD = "operations are applied in an order consistent with the circuit (wrappers: last listed gate first)"

_CLS = {"stabilizer": "StabilizerCompiler", "dm": "DensityMatrixCompiler"}
_SITE = {"stabilizer": _SITE_S, "dm": _SITE_D}
_MULTI = {"agree": "backends.agree"}
for _suffix, _bound in (("", _B_EX), ("_random", _B_RND)):
    _ex = _suffix == ""
    for _b in ("stabilizer", "dm"):
        for _a in ASPECTS:
            if _a == "state":
                _nm, _site, _cl = f"{_CLS[_b]}.compile.state", _SITE[_b], _C_STATE
            elif _a == "order":
                _nm, _site, _cl = f"{_CLS[_b]}.compile.order", "graphiq.backends.compiler_base:CompilerBase.compile", _C_ORD
            elif _a == "record_final":
                _nm, _site, _cl = f"{_CLS[_b]}.compile.record_final", "graphiq.backends.compiler_base:CompilerBase.compile", _C_REC + " - registers at the end of compile"
            else:
                _nm, _site, _cl = f"{_CLS[_b]}.compile_one_gate.{_a}", _SITE[_b], _C_REC + f" - register written by {_a[7:]}"
            _MULTI[f"{_b}.{_a}"] = _nm
            S.item(_nm + _suffix, _site, _bound, exhaustive=_ex, clause=_cl)(CHECKERS[(_b, _a)])
    S.item("backends.agree" + _suffix, "graphiq.backends.compiler_base:CompilerBase.compile", _bound.replace("'probabilistic'", "(forced modes only)"), exhaustive=_ex,
           clause="the two backends agree with each other (direct comparison of the two real results, no oracle)")(agree_case)


# ------------------------------------------------------------------ initial states
@S.item("compile.initial_state.stabilizer", site="graphiq.backends.compiler_base:CompilerBase.compile",
        bound="seeded sample: random programs of <=8 ops on <=3 qubits x random stabilizer initial state (random H/P/CNOT word of <=10 gates, tableau with destabilizers and signs built by refsem), modes 0/1/'probabilistic'",
        clause="optional initial state: the result is the textbook run started from that state")
def init_stab(inp):
    r = run_case(inp, "stabilizer")
    return r["state"] or next((r[a] for a in ASPECTS if r[a]), None)


@S.item("compile.initial_state.dm", site="graphiq.backends.compiler_base:CompilerBase.compile",
        bound="seeded sample: random programs of <=8 ops on <=3 qubits x (random stabilizer state | generic random pure state) as density matrix, modes 0/1/'probabilistic'",
        clause="optional initial state: the result is the textbook run started from that state")
def init_dm(inp):
    r = run_case(inp, "dm")
    return r["state"] or next((r[a] for a in ASPECTS if r[a]), None)


# ------------------------------------------------------------------ forced outcomes when probabilities carry rounding error
@S.item("DensityMatrixCompiler.compile.forced_outcome_under_rounding",
        site="graphiq.backends.density_matrix.state:DensityMatrix.apply_measurement (via DensityMatrixCompiler.compile)",
        bound="all one-qubit programs [g1..gL, Z-measure], L<=3, g in {H,P,Pdag,X,Y,Z}, plus [H e0, H e0, CNOT e0->p0, Z-measure q] - restricted to those whose forced choice sits on the p=0/1 threshold after a Hadamard (refsem.circuits.float_sensitive); modes 0 and 1",
        exhaustive=True,
        clause="forced 0 / forced 1 yield the textbook state (take the forced value unless it has probability 0) - on inputs where the density-matrix probabilities are 0/1 only up to rounding")
def float_case(inp):
    r = run_case(dict(inp, pseeds=[]), "dm")
    return r["state"] or next((r[a] for a in ASPECTS if r[a]), None)


def domain_float():
    out = []
    G = ["H", "P", "PD", "X", "Y", "Z"]
    for L in (1, 2, 3):
        for w in itertools.product(G, repeat=L):
            out.append({"ne": 1, "np": 0, "nc": 1, "ops": [["g", g, "e", 0] for g in w] + [["mz", "e", 0, 0]]})
    for q in (("e", 0), ("p", 0)):
        out.append({"ne": 1, "np": 1, "nc": 1, "ops": [["g", "H", "e", 0], ["g", "H", "e", 0], ["cx", "e", 0, "p", 0], ["mz", q[0], q[1], 0]]})
    return [{"prog": p} for p in out if RC.float_sensitive(p, 0) or RC.float_sensitive(p, 1)]


# ------------------------------------------------------------------ register -> index map
@S.item("reg_to_index_func.photons_first", site="graphiq.backends.compiler_base:CompilerBase.reg_to_index_func",
        bound="n_photon in 0..6 x register 0..6 x type in {p,e}", exhaustive=True,
        clause="photons are indexed before emitters")
def index_case(inp):
    n_photon, reg = inp
    f = CompilerBase.reg_to_index_func(n_photon)
    if f(reg, "p") != reg:
        return f"('p',{reg}) -> {f(reg, 'p')} != {reg}"
    if f(reg, "e") != n_photon + reg:
        return f"('e',{reg}) -> {f(reg, 'e')} != {n_photon + reg}"
    return None


# ------------------------------------------------------------------ reset clause, observed directly on the result
@S.item("MeasurementCNOTandReset.reset_leaves_zero", site=_SITE_S + " ; " + _SITE_D,
        bound="all programs [a, b, mcr] with a,b from the 2-op alphabet on (1e,1p),(2e,1p),(1e,2p) (quick: [a, mcr]); both backends, modes 0/1/'probabilistic'; checked on the real result only: <Z_control> = +1",
        exhaustive=True, clause="a reset leaves the measured qubit in |0>")
def reset_case(inp):
    spec = inp["prog"]
    n = RC.n_qubits(spec)
    last = spec["ops"][-1]
    c = RC.qidx(spec, last[1], last[2])
    zc = R.pauli([0] * n, [int(j == c) for j in range(n)])
    for backend in ("stabilizer", "dm"):
        for mode, seed in ((0, None), (1, None), ("probabilistic", inp["pseeds"][0])):
            circuit, _ = build_circuit(spec)
            st, _ = compile_traced(circuit, backend, mode, seed)
            if backend == "dm":
                rho = snapshot(st.rep_data)
                ez = np.real(np.trace(zc @ rho))
                if abs(ez - 1) > 1e-8:
                    return f"[{backend} mode={mode}] <Z> on the reset control qubit {c} is {ez:.4f}, not +1"
            else:
                table, phase, _ = snapshot(st.rep_data)
                # +Z_c is in the stabilizer group  <=>  Z_c commutes with all stabilizer rows and the state it fixes has <Z_c>=+1
                v = R.stabilizer_state(table[n:, :n], table[n:, n:], phase[n:])
                if v is None:
                    return f"[{backend} mode={mode}] stabilizer rows are not independent/consistent"
                ez = np.real(np.vdot(v, zc @ v))
                if abs(ez - 1) > 1e-8:
                    return f"[{backend} mode={mode}] <Z> on the reset control qubit {c} is {ez:.4f}, not +1"
    return None


# ------------------------------------------------------------------ repeated use of one compiler instance / one circuit object
def _first_bad(r):
    return next((f"{a}: {r[a]}" for a in ASPECTS if r[a]), None)


def _split(spec):
    return f"({spec['ne']}e,{spec['np']}p)"


def instance_reuse(inp, backend):
    """inp: {"seq": [{"prog", "pseeds"}, ...]}.  ONE compiler instance compiles the programs one after the other (each
    under forced 0, forced 1 and 'probabilistic', i.e. >= 3 compilations per program on the same instance); every single
    result / record / order is the textbook one of the program compiled, whatever the instance compiled before"""
    comp = COMPILERS[backend]()
    hist = []
    for k, sub in enumerate(inp["seq"]):
        bad = _first_bad(run_case(sub, backend, comp=comp))
        if bad:
            return (f"program #{k} {_split(sub['prog'])} compiled by a {_CLS[backend]} instance that compiled "
                    f"{hist or 'nothing'} before: {bad}")
        hist.append(_split(sub["prog"]))
    return None


def instance_reuse_stabilizer(inp):
    return instance_reuse(inp, "stabilizer")


def instance_reuse_dm(inp):
    return instance_reuse(inp, "dm")


_B_REUSE = ("sequences of programs compiled by ONE compiler instance, each result compared with the textbook run: (a) all 196 ordered "
            "pairs of the 14 register configurations with 1..4 qubits, each configuration with its signature program (a different "
            "Clifford word on every register, CNOT/CZ between first/last emitter and photon, a Z-measure, a classical-CNOT and a "
            "measure-CNOT-reset where the registers exist); (b) for every total 2..4 the chain of all emitter/photon splits in both "
            "directions; (c) {N} seeded random sequences of 3-4 random programs (<=20 ops, <=5 qubits) in which consecutive programs "
            "have equal totals but different splits with probability 1/2; modes 0, 1 and 'probabilistic' per program")
for _b in ("stabilizer", "dm"):
    S.item(f"{_CLS[_b]}.compile.instance_reuse", _SITE[_b] + " ; graphiq.backends.compiler_base:CompilerBase.compile", _B_REUSE,
           clause="for EVERY circuit the backend yields the textbook state (photons indexed before emitters of THAT circuit) - also when the "
                  "compiler object has compiled other circuits (other register splits, other sizes) before")(
        instance_reuse_stabilizer if _b == "stabilizer" else instance_reuse_dm)


@S.item("compile.circuit_object_reuse", site="graphiq.backends.compiler_base:CompilerBase.compile",
        bound="{N} seeded random programs (<=20 ops, <=5 qubits) + the 14 signature programs: the SAME circuit object is compiled by a "
              "stabilizer instance, a density-matrix instance, the same two instances again, two fresh instances and the first "
              "instances once more (each: modes 0, 1, 'probabilistic'), then 1-3 further operations are add()ed to the same object and "
              "it is compiled again by the used and by fresh instances, then a photon and an emitter register (and 4 operations on them) "
              "are added and it is compiled again; every result is compared with the textbook run of the program the object holds at that moment",
        clause="for EVERY circuit both backends yield the textbook state - also for a circuit object that was compiled before (by "
               "either backend) or extended after a compilation")
def circuit_reuse_case(inp):
    spec = inp["prog"]
    circuit, objs = build_circuit(spec)
    a_s, a_d = StabilizerCompiler(), DensityMatrixCompiler()
    plan = [("stabilizer", a_s, "first"), ("dm", a_d, "first"), ("stabilizer", a_s, "same instance again"), ("dm", a_d, "same instance again"),
            ("dm", None, "fresh instance"), ("stabilizer", None, "fresh instance"), ("dm", a_d, "first instance, third time")]
    for k, (backend, comp, what) in enumerate(plan):
        bad = _first_bad(run_case(inp, backend, comp=comp, circ=(circuit, objs)))
        if bad:
            return f"compilation round #{k} of the same circuit object ({backend}, {what}): {bad}"
    ext = inp.get("ext") or []
    if ext:
        for op in ext:
            o = make_op(op)
            circuit.add(o)
            objs.append(o)
        inp2 = dict(inp, prog=dict(spec, ops=list(spec["ops"]) + [list(o) for o in ext]))
        for backend, comp, what in (("stabilizer", a_s, "used instance"), ("dm", a_d, "used instance"), ("stabilizer", None, "fresh instance"), ("dm", None, "fresh instance")):
            bad = _first_bad(run_case(inp2, backend, comp=comp, circ=(circuit, objs)))
            if bad:
                return f"after adding {ext} to the compiled circuit object ({backend}, {what}): {bad}"
        # registers added to the compiled object: a new photon register moves every emitter one place up (photons are indexed first)
        circuit.add_photonic_register()
        circuit.add_emitter_register()
        np3, ne3 = spec["np"] + 1, spec["ne"] + 1
        more = [["w", ["H", "P"], "p", np3 - 1], ["cx", "p", np3 - 1, "e", ne3 - 1], ["g", "X", "e", 0], ["cz", "e", 0, "p", 0]]
        for op in more:
            o = make_op(op)
            circuit.add(o)
            objs.append(o)
        inp3 = dict(inp, prog=dict(spec, ne=ne3, np=np3, ops=inp2["prog"]["ops"] + more))
        for backend, comp, what in (("stabilizer", a_s, "used instance"), ("dm", a_d, "used instance"), ("dm", None, "fresh instance")):
            bad = _first_bad(run_case(inp3, backend, comp=comp, circ=(circuit, objs)))
            if bad:
                return f"after adding a photon and an emitter register (+ {more}) to the compiled circuit object ({backend}, {what}): {bad}"
    return None


@S.item("compile.circuit_built_by_growing_registers", site="graphiq.backends.compiler_base:CompilerBase.compile ; graphiq.circuit.circuit_dag:CircuitDAG._add_reg_if_absent",
        bound="{N} seeded random programs (<=20 ops, <=5 qubits) + the 14 signature programs, each built as CircuitDAG() + add_*_register() calls interleaved with "
              "add() (a register appears right before its first use); both backends, modes 0, 1 and 'probabilistic'",
        clause="for EVERY circuit both backends yield the textbook state - however the circuit object was built")
def grown_case(inp):
    return _first_bad(run_case(inp, "stabilizer", build=build_circuit_grown)) or _first_bad(run_case(inp, "dm", build=build_circuit_grown))


@S.item("StabilizerCompiler.compile.state_many_registers", site=_SITE_S,
        bound="{N} seeded random programs of <=51 ops on 12..15 qubits with 11..12 photon registers and 1..3 emitters (every 4th: 11 emitters "
              "and 1..2 photons); registers number 1, 10 and the highest one are always used (1 and 10 also in common two-qubit gates); 2 classical registers, <=6 measuring ops; "
              "modes 0, 1 and 'probabilistic'",
        clause=_C_STATE + " - register numbers with two digits, >= 3 emitters")
def many_registers_stab(inp):
    return _first_bad(run_case(inp, "stabilizer"))


@S.item("DensityMatrixCompiler.compile.state_six_seven_qubits", site=_SITE_D,
        bound="{N} seeded random programs of <=25 ops on 6..7 qubits with >= 3 emitters and >= 2 photons, 2 classical registers, <=5 measuring ops; "
              "modes 0, 1 and 'probabilistic'; both backends (the stabilizer result is checked by the same oracle)",
        clause=_C_STATE + " - >= 3 emitters, sizes above the 5-qubit bound of the random items")
def six_seven_dm(inp):
    return _first_bad(run_case(inp, "dm")) or _first_bad(run_case(inp, "stabilizer"))


_SIG_E = [["H"], ["X"], ["P", "H"], ["H", "X"], ["PD", "H"]]       # |+>, |1>, |+i>, |->, |-i>   (emitter i)
_SIG_P = [["H", "P"], ["Y"], ["H"], ["P", "H", "Z"], ["X", "H"]]   # photon j


def signature_program(ne, np_):
    """a program on (ne emitters, np_ photons) in which every register is acted on differently, so that any gate landing on
    another register than the one named changes the state"""
    ops = []
    for i in range(ne):
        ops.append(["w", _SIG_E[i % 5], "e", i])
    for j in range(np_):
        ops.append(["w", _SIG_P[j % 5], "p", j])
    if ne and np_:
        ops.append(["cx", "e", 0, "p", 0])
        ops.append(["cz", "e", ne - 1, "p", np_ - 1])
        ops.append(["g", "P", "e", 0])
        ops.append(["ccx", "p", np_ - 1, "e", ne - 1, 0])
        ops.append(["g", "H", "e", ne - 1])
        ops.append(["mcr", "e", 0, "p", 0, 0])
    elif ne + np_ >= 2:
        t = "e" if ne else "p"
        ops.append(["cx", t, 0, t, 1])
        ops.append(["g", "P", t, 1])
        ops.append(["cz", t, ne + np_ - 1, t, 0])
    t, last = ("e", ne - 1) if ne else ("p", np_ - 1)
    ops.append(["g", "H", t, last])
    ops.append(["mz", t, last, 0])
    ops.append(["g", "PD", t, 0])
    return {"ne": ne, "np": np_, "nc": 1, "ops": ops}


def random_program_on(rng, ne, np_, max_len, nc=1, p_measure=0.15, max_meas=6):
    """seeded random program on a GIVEN register configuration (same op mix as refsem.circuits.random_program)"""
    q = RC.regs(ne, np_)
    n = len(q)
    ops = []
    nmeas = 0
    for _ in range(int(rng.integers(max(1, max_len // 3), max_len + 1))):
        u = rng.random()
        meas_ok = nc > 0 and nmeas < max_meas
        if n >= 2 and u < 0.30:
            i, j = rng.choice(n, size=2, replace=False)
            (ct, c), (tt, t) = q[int(i)], q[int(j)]
            ops.append([["cx", "cz"][int(rng.integers(2))], ct, c, tt, t])
        elif meas_ok and n >= 2 and u < 0.30 + p_measure * 0.75:
            i, j = rng.choice(n, size=2, replace=False)
            (ct, c), (tt, t) = q[int(i)], q[int(j)]
            ops.append([["ccx", "ccz", "mcr"][int(rng.integers(3))], ct, c, tt, t, int(rng.integers(nc))])
            nmeas += 1
        elif meas_ok and u < 0.30 + p_measure:
            rt, r = q[int(rng.integers(n))]
            ops.append(["mz", rt, r, int(rng.integers(nc))])
            nmeas += 1
        elif u < 0.30 + p_measure + 0.15:
            rt, r = q[int(rng.integers(n))]
            k = int(rng.integers(1, 5))
            ops.append(["w", [RC.ONE_Q[int(x)] for x in rng.integers(0, 7, size=k)], rt, r])
        else:
            rt, r = q[int(rng.integers(n))]
            ops.append(["g", RC.ONE_Q[int(rng.integers(7))], rt, r])
    return {"ne": ne, "np": np_, "nc": nc, "ops": ops}


CONFIGS14 = [(ne, n - ne) for n in (1, 2, 3, 4) for ne in range(n + 1)]


def domain_reuse(tier, seed):
    rng = np.random.default_rng(seed + 404)
    seqs = []
    sig = {c: signature_program(*c) for c in CONFIGS14}
    for a in CONFIGS14:
        for b in CONFIGS14:
            seqs.append([sig[a], sig[b]])
    for n in (2, 3, 4):
        chain = [sig[(ne, n - ne)] for ne in range(n + 1)]
        seqs.append(chain)
        seqs.append(chain[::-1])
    N = 400 if tier == "thorough" else 70
    for _ in range(N):
        k = int(rng.integers(3, 5))
        n = int(rng.integers(2, 6))
        ne = int(rng.integers(0, n + 1))
        s = []
        for _j in range(k):
            s.append(random_program_on(rng, ne, n - ne, 20, nc=int(rng.integers(1, 3))))
            if rng.random() < 0.5:  # same total, another split
                ne = int((ne + rng.integers(1, n + 1)) % (n + 1))
            else:
                n = int(rng.integers(1, 6))
                ne = int(rng.integers(0, n + 1))
        seqs.append(s)
    out = []
    for i, s in enumerate(seqs):
        out.append({"seq": [{"prog": p, "pseeds": _pseeds(seed, 31 * i + j, 1)} for j, p in enumerate(s)]})
    return out, N


def _resplit(inp):
    """non-trivial for the reuse items: two consecutive programs with the same total and different splits"""
    s = [x["prog"] for x in inp["seq"]]
    return any(RC.n_qubits(a) == RC.n_qubits(b) and a["np"] != b["np"] for a, b in zip(s, s[1:]))


def domain_circuit_reuse(tier, seed):
    rng = np.random.default_rng(seed + 505)
    N = 300 if tier == "thorough" else 50
    progs = [signature_program(*c) for c in CONFIGS14]
    for _ in range(N):
        n = int(rng.integers(1, 6))
        ne = int(rng.integers(0, n + 1))
        progs.append(random_program_on(rng, ne, n - ne, 20, nc=int(rng.integers(1, 3))))
    out = []
    for i, p in enumerate(progs):
        ext = random_program_on(rng, p["ne"], p["np"], 3, nc=p["nc"], p_measure=0.3)["ops"]
        out.append({"prog": p, "pseeds": _pseeds(seed, 17 * i, 1), "ext": ext})
    return out, N


def domain_many(tier, seed):
    rng = np.random.default_rng(seed + 606)
    N = 120 if tier == "thorough" else 24
    out = []
    for i in range(N):
        if i % 4 == 3:
            ne, np_ = 11, int(rng.integers(1, 3))
        else:
            ne, np_ = int(rng.integers(1, 4)), int(rng.integers(11, 13))
        p = random_program_on(rng, ne, np_, 40, nc=2, p_measure=0.12, max_meas=6)
        # make sure registers >= 10 are really used
        t = "p" if np_ > ne else "e"
        hi = max(ne, np_) - 1
        # ... and registers 1 and 10 (labels "p1" / "p10") meet in two-qubit gates with one-qubit gates around them
        p["ops"] = ([["g", "H", t, hi], ["cx", t, hi, "e" if t == "p" else "p", 0], ["w", ["P", "H"], t, 10], ["g", "H", t, 1], ["cx", t, 1, t, 10],
                     ["g", "P", t, 1], ["g", "H", t, 10]] + p["ops"] + [["g", "X", t, 10], ["cz", t, 10, t, 1], ["g", "H", t, 1], ["g", "Y", t, 10]])
        out.append({"prog": p, "pseeds": _pseeds(seed, 13 * i, 1)})
    return out, N


def domain_six_seven(tier, seed):
    rng = np.random.default_rng(seed + 707)
    N = 100 if tier == "thorough" else 20
    out = []
    for i in range(N):
        n = int(rng.integers(6, 8))
        ne = int(rng.integers(3, n - 1))
        p = random_program_on(rng, ne, n - ne, 25, nc=2, p_measure=0.15, max_meas=5)
        out.append({"prog": p, "pseeds": _pseeds(seed, 11 * i, 1)})
    return out, N


# ------------------------------------------------------------------ measurements whose outcome is determined by a PRODUCT of generators
def det_rows(table, phase, q, n):
    """reading of a tableau right before a Z measurement of qubit q (own code, textbook Aaronson-Gottesman): None if some
    stabilizer row has X on q (random outcome); else (k, parity) with k = number of stabilizer rows whose product is +-Z_q
    (the rows paired with the destabilizers that have X on q) and parity = XOR of their sign bits (what the outcome would be
    if multiplying Paulis produced no phase of its own)"""
    table = np.asarray(table)
    if np.any(table[n:, q]):
        return None
    rows = [i for i in range(n) if table[i, q]]
    return len(rows), int(np.sum(np.asarray(phase)[[i + n for i in rows]]) % 2)


def _measured_qubit(op, n_photon):
    typ, reg = (op.control_type, op.control) if hasattr(op, "control") else (op.reg_type, op.register)
    return reg if typ == "p" else n_photon + reg


def det_case(inp):
    """the contract of run_case (state after every measuring op and at the end, record, order; modes 0, 1, 'probabilistic') on the
    stabilizer backend, and on the density-matrix backend for the inputs marked "dm" """
    bad = _first_bad(run_case(inp, "stabilizer"))
    if bad:
        return "[stabilizer] " + bad
    if inp.get("dm"):
        bad = _first_bad(run_case(inp, "dm"))
        if bad:
            return "[dm] " + bad
    return None


def _det_worker(inp):
    """det_case + statistics of the forced-0 and forced-1 stabilizer compilations it made: how many measurements took the
    deterministic branch, how many of them with >= 3 contributing generators, and in how many the outcome differs from the XOR
    of the contributing sign bits (i.e. the phase of the Pauli product matters)"""
    global _DET_HOOK
    _DET_HOOK = {"det": 0, "k3": 0, "phase_matters": 0}
    try:
        try:
            res = det_case(inp)
        except Exception as e:  # noqa: BLE001 - an escaping exception is a failure of the case
            import traceback
            res = f"EXC {type(e).__name__}: {e} | {traceback.format_exc(limit=6)[-900:]}"
        return {"sym": res, **_DET_HOOK}
    finally:
        _DET_HOOK = None


_C_DET = ("compiling with the stabilizer backend yields exactly the textbook state and record under each measurement setting - for measurements "
          "whose outcome is determined by the state (no randomness): the outcome is the sign of the PRODUCT of several tableau generators")
S.item("StabilizerCompiler.compile.deterministic_measurement.scrambled_initial_state",
       site="graphiq.backends.stabilizer.functions.clifford:z_measurement_gate (deterministic branch), linalg:row_sum, g_function (via StabilizerCompiler.compile with an initial state)",
       bound="{N} seeded inputs: random stabilizer state on 3..5 qubits (random H/P/CNOT/CZ/CY circuit) in which 1..2 qubits are brought into a Z eigenstate "
             "of random sign, handed over as initial state in a SCRAMBLED generating set (random products of generator pairs with their destabilizer "
             "updates, pair swaps, destabilizer sign flips; negative signs) - kept only if, read off that tableau by own code, +-Z of the first measured "
             "qubit is the product of >= 3 generators; program: Z-measure / measure-CNOT-reset / classical-CNOT / classical-CZ on that qubit first, then "
             "2..6 random ops incl. a measurement of the second eigenstate qubit and a final measurement; modes 0, 1, 'probabilistic'; every 6th input also on the density-matrix backend",
       clause=_C_DET + "; optional initial state in any generating set")(det_case)
S.item("StabilizerCompiler.compile.deterministic_measurement.parity_checks",
       site="graphiq.backends.stabilizer.functions.clifford:z_measurement_gate (both branches), linalg:row_sum, g_function (via StabilizerCompiler.compile)",
       bound="{N} seeded programs from |0..0>: graph state on 3..5 qubits (H on all, CZ on random edges, optional P / P^dag on random vertices = Y-type generators), "
             "optionally a Z-measurement of a vertex outside the check first (random outcome: rowsum multiplies generators), then a stabilizer element "
             "g = product of K_v over a random vertex set is checked: every qubit of its support is rotated to the Z basis (H for X, P^dag then H for Y) and "
             "either all of them are measured one after the other (Z-measure / measure-CNOT-reset / classical-CNOT/CZ: the last outcome is determined by the "
             "others) or their parity is brought onto one of them / onto a fresh ancilla emitter by a CNOT fan-in and measured there; then 2..4 random ops "
             "and a final measurement; modes 0, 1, 'probabilistic'; every 6th input also on the density-matrix backend",
       clause=_C_DET)(det_case)


def _reg_of(q, np_):
    return ("p", q) if q < np_ else ("e", q - np_)


def _meas_op(rng, q, n, np_, kinds=("mz", "mcr", "ccx", "ccz"), creg=0, avoid=()):
    k = kinds[int(rng.integers(len(kinds)))]
    t, r = _reg_of(q, np_)
    others = [j for j in range(n) if j != q and j not in avoid]
    if k == "mz" or not others:
        return ["mz", t, r, creg]
    tt, tr = _reg_of(others[int(rng.integers(len(others)))], np_)
    return [k, t, r, tt, tr, creg]


def _rand_unitary_op(rng, n, np_):
    if n >= 2 and rng.random() < 0.4:
        a, b = (int(x) for x in rng.choice(n, size=2, replace=False))
        (ct, c), (tt, t) = _reg_of(a, np_), _reg_of(b, np_)
        return [["cx", "cz"][int(rng.integers(2))], ct, c, tt, t]
    t, r = _reg_of(int(rng.integers(n)), np_)
    return ["g", ["H", "P", "PD", "X", "Y", "Z"][int(rng.integers(6))], t, r]


def domain_det_scrambled(tier, seed):
    """generated in 16 independent chunks (own generator each) on the worker pool"""
    import multiprocessing as mp

    N = 6000 if tier == "thorough" else 1056
    chunks = [(seed, c, N // 16) for c in range(16)]
    procs = int(os.environ.get("VERIF_PROCS", "16"))
    if procs <= 1:
        parts = [_det_scrambled_chunk(a) for a in chunks]
    else:
        with mp.get_context("fork").Pool(min(procs, 16)) as pool:
            parts = pool.map(_det_scrambled_chunk, chunks, 1)
    return [x for p in parts for x in p], 16 * (N // 16)


def _det_scrambled_chunk(args):
    from refsem import tabref as T

    seed, chunk, N = args
    rng = np.random.default_rng([seed, 808, chunk])
    out = []
    while len(out) < N:
        n = int(rng.integers(3, 6))
        np_ = int(rng.integers(0, n + 1))
        t = T.RefTableau.random(n, rng, depth=3 * n + 2)
        qs = [int(x) for x in rng.choice(n, size=int(rng.integers(1, 3)), replace=False)]
        for q in qs:
            t.measure(q, force=int(rng.integers(2)))
        t.mix_presentation(rng, moves=3 * n + 3)
        truth = t.copy().measure(qs[0], 0)[0]  # refsem's own Aaronson-Gottesman run: the outcome the state determines
        info = det_rows(t.table(), t.R, qs[0], n)
        for _ in range(12):  # a few more generator products, until the sign of the product is not just the XOR of the sign bits
            if info is not None and info[0] >= 3 and info[1] != truth:
                break
            a, b = (int(x) for x in rng.choice(n, size=2, replace=False))
            t._rowmul(a + n, b + n)  # s_b := s_a s_b
            t._rowmul(b, a)          # d_a := d_b d_a   (keeps the pairing)
            info = det_rows(t.table(), t.R, qs[0], n)
        if info is None or info[0] < 3:
            continue
        ops = [_meas_op(rng, qs[0], n, np_)]
        for _ in range(int(rng.integers(1, 3))):
            ops.append(_rand_unitary_op(rng, n, np_))
        if len(qs) > 1:
            ops.append(_meas_op(rng, qs[1], n, np_))
        for _ in range(int(rng.integers(1, 3))):
            ops.append(_rand_unitary_op(rng, n, np_))
        ops.append(_meas_op(rng, int(rng.integers(n)), n, np_))
        i = chunk * N + len(out)
        out.append({"prog": {"ne": n - np_, "np": np_, "nc": 1, "ops": ops}, "pseeds": _pseeds(seed, 7 * i, 1),
                    "init": {"tableau": [t.table().tolist(), t.R.tolist()]}, "dm": int(i % 6 == 0)})
    return out


def domain_det_parity(tier, seed):
    rng = np.random.default_rng(seed + 909)
    N = 3000 if tier == "thorough" else 240
    out = []
    for i in range(N):
        nd = int(rng.integers(3, 6))
        anc = bool(rng.random() < 0.3)
        n = nd + int(anc)
        # data qubits 0..nd-1; the ancilla (if any) is the LAST emitter, i.e. qubit n-1; at least one emitter when there is an ancilla
        np_ = int(rng.integers(0, nd + 1))
        if anc and np_ == n:
            np_ -= 1
        ops = [["g", "H"] + list(_reg_of(v, np_)) for v in range(nd)]
        edges = [(a, b) for a in range(nd) for b in range(a + 1, nd) if rng.random() < 0.6] or [(0, 1)]
        adj = np.zeros((nd, nd), dtype=int)
        for a, b in edges:
            (ct, c), (tt, t) = _reg_of(a, np_), _reg_of(b, np_)
            ops.append(["cz", ct, c, tt, t])
            adj[a, b] = adj[b, a] = 1
        ytype = [v for v in range(nd) if rng.random() < 0.4]  # K_v = +-Y_v Z_nb after P / P^dag on v
        for v in ytype:
            ops.append(["g", ["P", "PD"][int(rng.integers(2))]] + list(_reg_of(v, np_)))
        S_ = [v for v in range(nd) if rng.random() < 0.6] or [int(rng.integers(nd))]
        # Pauli type of g = prod_{v in S} K_v on every vertex (signs are the oracle's business): x part = [v in S], z part = parity of neighbours in S
        xs = np.array([int(v in S_) for v in range(nd)])
        zs = (adj @ xs) % 2
        kind = {}
        for v in range(nd):
            x, z = int(xs[v]), int(zs[v])
            if v in ytype and x:  # the X factor of K_v became Y: adds a Z component
                z ^= 1
            if x or z:
                kind[v] = "Z" if not x else ("Y" if z else "X")
        support = sorted(kind)
        outside = [v for v in range(nd) if v not in kind]
        if outside and rng.random() < 0.6:
            ops.append(_meas_op(rng, outside[int(rng.integers(len(outside)))], n, np_, kinds=("mz",)))
        for v in support:
            if kind[v] == "X":
                ops.append(["g", "H"] + list(_reg_of(v, np_)))
            elif kind[v] == "Y":
                ops.append(["w", ["H", "PD"]] + list(_reg_of(v, np_)))  # P^dag first, then H
        mode = int(rng.integers(3)) if len(support) >= 2 else 0
        if mode == 0:      # measure the whole support, one after the other
            order = [support[int(j)] for j in rng.permutation(len(support))]
            for j, v in enumerate(order):
                ops.append(_meas_op(rng, v, n, np_, avoid=order[j + 1:]))
        else:
            tgt = n - 1 if (anc and mode == 2) else support[int(rng.integers(len(support)))]
            for v in support:
                if v != tgt:
                    (ct, c), (tt, t) = _reg_of(v, np_), _reg_of(tgt, np_)
                    ops.append(["cx", ct, c, tt, t])
            ops.append(_meas_op(rng, tgt, n, np_))
        for _ in range(int(rng.integers(2, 5))):
            ops.append(_rand_unitary_op(rng, n, np_))
        ops.append(_meas_op(rng, int(rng.integers(n)), n, np_))
        out.append({"prog": {"ne": n - np_, "np": np_, "nc": 1, "ops": ops}, "pseeds": _pseeds(seed, 5 * i, 1), "dm": int(i % 6 == 0)})
    return out, N


def det_map(suite, name, inputs):
    """like Suite.map, with the non-trivial count taken from the instrumented run inside the worker: an input counts as
    non-trivial iff a measurement took the deterministic branch with >= 3 contributing generators"""
    import multiprocessing as mp
    from vf import bounded as vb

    it = suite.items[name]
    t0 = time.time()
    procs = int(os.environ.get("VERIF_PROCS", "16"))
    if len(inputs) < 32 or procs <= 1:
        results = [_multi_call(_det_worker, i) for i in inputs]
    else:
        vb._WORK_FN = _det_worker
        with mp.get_context("fork").Pool(procs) as pool:
            results = pool.map(_multi_pool_call, inputs, max(1, len(inputs) // (procs * 8)))
        vb._WORK_FN = None
    it.wall_s += time.time() - t0
    tot = {"det": 0, "k3": 0, "phase_matters": 0, "inputs_k3": 0, "inputs_phase": 0}
    for inp, r in zip(inputs, results):
        if isinstance(r, str):
            suite._record(it, inp, r, False)
            continue
        suite._record(it, inp, r["sym"], r["k3"] > 0)
        for k in ("det", "k3", "phase_matters"):
            tot[k] += int(r[k])
        tot["inputs_k3"] += r["k3"] > 0
        tot["inputs_phase"] += r["phase_matters"] > 0
    suite.note(f"{name}: forced-0 and forced-1 stabilizer runs of the {len(inputs)} inputs (tableau read right before every measuring op): {tot['det']} measurements took the deterministic branch, "
               f"{tot['k3']} of them with >= 3 contributing generators ({tot['inputs_k3']} inputs), in {tot['phase_matters']} ({tot['inputs_phase']} inputs) the outcome "
               f"differs from the XOR of the contributing sign bits (the phase of the Pauli product decides)")
    return tot


# ------------------------------------------------------------------ driver
def multi_map(suite, fn, mapping, inputs, suffix="", nontrivial=None):
    """run fn (returning {key: symptom}) once per input on a fork pool and record the result under every mapped item"""
    import multiprocessing as mp
    from vf import bounded as vb

    inputs = list(inputs)
    t0 = time.time()
    procs = int(os.environ.get("VERIF_PROCS", "16"))

    if len(inputs) < 32 or procs <= 1:
        results = [_multi_call(fn, i) for i in inputs]
    else:
        vb._WORK_FN = fn
        ctx = mp.get_context("fork")
        with ctx.Pool(procs) as pool:
            results = pool.map(_multi_pool_call, inputs, max(1, len(inputs) // (procs * 8)))
        vb._WORK_FN = None
    wall = time.time() - t0
    for key, name in mapping.items():
        it = suite.items[name + suffix]
        it.wall_s += wall / len(mapping)
        for inp, res in zip(inputs, results):
            r = res if isinstance(res, str) else res.get(key)
            suite._record(it, inp, r, True if nontrivial is None else bool(nontrivial(inp)))
    return results


def _multi_call(fn, inp):
    try:
        return fn(inp)
    except Exception as e:  # noqa: BLE001 - an escaping exception fails every aspect of the case
        import traceback
        return f"EXC {type(e).__name__}: {e} | {traceback.format_exc(limit=6)[-900:]}"


def _multi_pool_call(inp):
    from vf import bounded as vb
    return _multi_call(vb._WORK_FN, inp)


def _pseeds(seed, i, k):
    return [int((seed * 1000003 + i * 7919 + j * 104729) % (2**31 - 1)) for j in range(k)]


PREP = [["I"], ["X"], ["H"], ["H", "X"], ["P", "H"], ["PD", "H"]]  # wrapper bodies preparing |0>,|1>,|+>,|->,|+i>,|-i>


def prepared_two_qubit_programs():
    """3-op programs [prepare control, prepare target, two-qubit op]: every two-qubit op kind on every ordered register pair
    of (1e,1p) and (2e,1p) with control and target in each of the six one-qubit stabilizer states (2-op programs cannot
    tell a conditional Z, or a sign error on Y-type rows, from the identity)"""
    out = []
    for ne, np_ in ((1, 1), (2, 1)):
        q = RC.regs(ne, np_)
        for (ct, c), (tt, t) in itertools.permutations(q, 2):
            for a in PREP:
                for b in PREP:
                    for k in ("cx", "cz", "ccx", "ccz", "mcr"):
                        op2 = [k, ct, c, tt, t] + ([0] if k in ("ccx", "ccz", "mcr") else [])
                        out.append({"ne": ne, "np": np_, "nc": 1, "ops": [["w", a, ct, c], ["w", b, tt, t], op2]})
    return out


_W2_QUICK = [RC.WORDS24[5], RC.WORDS24[10], RC.WORDS24[15], RC.EXTRA_WORDS[1]]


def domain_exhaustive(tier, seed):
    """quick: wrapper bodies in 2-op programs from _W2_QUICK; thorough: the quick list first (same order, same leading
    seeds - so that first failures are tier-independent), then the remaining programs with all 24 bodies"""
    from vf.bounded import jkey

    words1 = RC.WORDS24 + RC.EXTRA_WORDS
    progs = list(RC.enumerate_programs(2, words1, _W2_QUICK))
    # two classical registers (every op of the alphabet on either register) on the two-qubit configurations
    progs += list(RC.enumerate_programs(2, [RC.WORDS24[5]], [RC.WORDS24[5]], configs=[(1, 1), (0, 2), (2, 0)], nc=2))
    progs += prepared_two_qubit_programs()
    k = 2
    if tier == "thorough":
        k = 3
        seen = {jkey(p) for p in progs}
        progs += [p for p in RC.enumerate_programs(2, words1, RC.WORDS24 + [RC.EXTRA_WORDS[1]]) if jkey(p) not in seen]
        # all 3-op programs on one emitter + one photon (wrapper bodies: the quick set)
        progs += [p for p in RC.enumerate_programs(3, [], _W2_QUICK, configs=[(1, 1)]) if len(p["ops"]) == 3]
    w = f"{len(_W2_QUICK)} bodies" if tier != "thorough" else "25 bodies; thorough also all 39304 programs of 3 ops on (1 emitter, 1 photon) with 4 bodies"
    return [{"prog": p, "pseeds": _pseeds(seed, i, k)} for i, p in enumerate(progs)], w, k


def domain_random(tier, seed):
    rng = np.random.default_rng(seed + 101)
    N = 2000 if tier == "thorough" else 300
    k = 3 if tier == "thorough" else 2
    out = []
    for i in range(N):
        p = RC.random_program(rng, max_qubits=5, max_len=30, nc=[1, 1, 2, 3], p_measure=0.15)
        while len(RC.measuring_positions(p)) > MAX_BRANCH_BITS:
            p = RC.random_program(rng, max_qubits=5, max_len=30, nc=[1, 1, 2, 3], p_measure=0.15)
        out.append({"prog": p, "pseeds": _pseeds(seed, i, k)})
    return out, N, k


def domain_init(tier, seed, backend):
    rng = np.random.default_rng(seed + (202 if backend == "stabilizer" else 303))
    N = 1500 if tier == "thorough" else 250
    out = []
    for i in range(N):
        p = RC.random_program(rng, max_qubits=3, max_len=8, nc=1, p_measure=0.3)
        n = RC.n_qubits(p)
        if backend == "dm" and i % 3 == 2:
            init = {"haar": int(rng.integers(1 << 30))}
        else:
            init = {"word": RC.random_word(rng, n, int(rng.integers(1, 11)))}
        out.append({"prog": p, "pseeds": _pseeds(seed, i, 2), "init": init})
    return out


def domain_reset(tier, seed):
    words2 = [RC.WORDS24[5], RC.WORDS24[10]]
    out = []
    i = 0
    for ne, np_ in ((1, 1), (2, 1), (1, 2)):
        alpha = RC.all_single_ops(ne, np_, 1, words2)
        mcrs = [o for o in alpha if o[0] == "mcr"]
        prefixes = [[a] for a in alpha] if tier != "thorough" else [[a, b] for a in alpha for b in alpha]
        if ne + np_ == 3 and tier == "thorough":
            prefixes = [[a] for a in alpha]
        for pre in prefixes:
            for m in mcrs:
                out.append({"prog": {"ne": ne, "np": np_, "nc": 1, "ops": pre + [m]}, "pseeds": _pseeds(seed, i, 1)})
                i += 1
    return out


def run(tier, seed):
    nt = lambda inp: RC.has_entangling(inp["prog"])  # noqa: E731
    if tier == "replay-none":
        return S
    ex, w, k = domain_exhaustive(tier, seed)
    for name in _MULTI.values():
        S.items[name].bound = S.items[name].bound.replace("{W}", w).replace("{K}", str(k))
    multi_map(S, both_backends, _MULTI, ex, "", nontrivial=nt)

    rnd, N, k = domain_random(tier, seed)
    for name in _MULTI.values():
        S.items[name + "_random"].bound = S.items[name + "_random"].bound.replace("{N}", str(N)).replace("{K}", str(k))
    multi_map(S, both_backends, _MULTI, rnd, "_random", nontrivial=nt)

    S.map("compile.initial_state.stabilizer", domain_init(tier, seed, "stabilizer"), nontrivial=nt)
    S.map("compile.initial_state.dm", domain_init(tier, seed, "dm"), nontrivial=nt)
    S.map("DensityMatrixCompiler.compile.forced_outcome_under_rounding", domain_float())
    S.map("reg_to_index_func.photons_first", [[a, b] for a in range(7) for b in range(7)])
    S.map("MeasurementCNOTandReset.reset_leaves_zero", domain_reset(tier, seed), nontrivial=nt)

    for name, dom in (("StabilizerCompiler.compile.deterministic_measurement.scrambled_initial_state", domain_det_scrambled),
                      ("StabilizerCompiler.compile.deterministic_measurement.parity_checks", domain_det_parity)):
        dd, N = dom(tier, seed)
        S.items[name].bound = S.items[name].bound.replace("{N}", str(N))
        det_map(S, name, dd)

    reuse, N = domain_reuse(tier, seed)
    for b in ("stabilizer", "dm"):
        it = S.items[f"{_CLS[b]}.compile.instance_reuse"]
        it.bound = it.bound.replace("{N}", str(N))
        S.map(it.name, reuse, nontrivial=_resplit)
    cre, N = domain_circuit_reuse(tier, seed)
    S.items["compile.circuit_object_reuse"].bound = S.items["compile.circuit_object_reuse"].bound.replace("{N}", str(N))
    S.map("compile.circuit_object_reuse", cre, nontrivial=nt)
    S.items["compile.circuit_built_by_growing_registers"].bound = S.items["compile.circuit_built_by_growing_registers"].bound.replace("{N}", str(N))
    S.map("compile.circuit_built_by_growing_registers", cre, nontrivial=nt)
    many, N = domain_many(tier, seed)
    S.items["StabilizerCompiler.compile.state_many_registers"].bound = S.items["StabilizerCompiler.compile.state_many_registers"].bound.replace("{N}", str(N))
    S.map("StabilizerCompiler.compile.state_many_registers", many, nontrivial=nt, chunksize=1)
    six, N = domain_six_seven(tier, seed)
    S.items["DensityMatrixCompiler.compile.state_six_seven_qubits"].bound = S.items["DensityMatrixCompiler.compile.state_six_seven_qubits"].bound.replace("{N}", str(N))
    S.map("DensityMatrixCompiler.compile.state_six_seven_qubits", six, nontrivial=nt, chunksize=1)
    S.note("classical record observed by wrapping the compiler instance's compile_one_gate (the GRAPHIQ_VERIF hook of the property anchors does not exist in /repo)")
    S.note("the textbook run follows the order in which compile handed the operations to compile_one_gate (checked by the `order` items to be consistent with the program); probabilistic mode: np.random.seed(seed) before compile, the state after every measuring op is matched against the outcome branches of non-zero probability, and the record is demanded to equal a branch consistent with all observed states")
    return S
