"""C12 - deductive part (dagwire).

Layer 1 [P, symbolic graph fragment] (contracts/dag.py, pyvc/symgraph.py): the REAL add / insert_at / remove_op /
_add_reg_if_absent are executed, for symbolic register numbers, node ids and predecessor nodes, on the fragment that the WF
invariant licenses, for operation classes of every arity (1 qubit, 2 qubits, with and without a classical register) and
every register-type mix; the resulting edge multiset, node set, node_dict / edge_dict entries, register counts and id counter are
proved equal to the specification's.
Layer 2 [P, z3] (lemmas/wires.py): those edge updates keep every wire a single path in -> ... -> out visiting the operations in
order (splice / unsplice), appending keeps the graph acyclic (explicit rank witness), removing keeps it acyclic.
By induction over the edit history the representation invariant WF (DESIGN §5 C12 (1)-(6)) is preserved by append, insert-at-edge
and remove; only register-adding edits change the register counts.
Rewrites [P] (contracts/dag_rewrites.py): the REAL remove_identity / unwrap_nodes / group_one_qubit_gates on fragments - whole function
for small numbers of listed nodes + an induction step for every loop; the resulting edge sets are again single paths per wire
(unsplice / splice compositions), indexes updated, register counts unchanged.
[T-cycle] + [B-only]: insert_at of a two-qubit operation on a pair of edges reported compatible creates no cycle
(find_incompatible_edges uses nx.ancestors / nx.descendants); sequence()/topological order, depth: bounded stand-in (bounded/C12.py).
"""
from __future__ import annotations

import z3

from pyvc.driver import run_tasks
from vf.core import Obl
from contracts import dag as D, dag_rewrites as RW
from lemmas import wires


def _canaries():
    from lemmas.wires import _wire
    from lemmas.symplectic import _ob

    Int = z3.IntSort()
    on = z3.Function("on", Int, z3.BoolSort()); idx = z3.Function("idx", Int, Int); E = z3.Function("E", Int, Int, z3.BoolSort())
    L, nin, nout, u, v, w, a, b = z3.Ints("L nin nout u v w a b")
    asm = _wire(on, idx, L, nin, nout, E) + [E(u, v), z3.Not(on(w))]
    on2 = lambda x: z3.Or(on(x), x == w)
    idx2 = lambda x: z3.If(x == w, idx(u) + 1, z3.If(z3.And(on(x), idx(x) > idx(u)), idx(x) + 1, idx(x)))
    E_bad = lambda x, y: z3.Or(E(x, y), z3.And(x == u, y == w), z3.And(x == w, y == v))
    c1 = _ob("c", "x", asm, E_bad(a, b) == z3.And(on2(a), on2(b), idx2(b) == idx2(a) + 1), "", timeout=5000)
    c2 = _ob("c", "x", asm, z3.BoolVal(False), "", timeout=5000)
    fn = "graphiq.circuit.circuit_dag:CircuitDAG._insert_at"
    return [{"name": "canary.wire.splice.old-edge-kept", "function": fn, "refuted": c1.status == "refuted", "replayed": False},
            {"name": "canary.wire.assumptions-consistent(False not provable)", "function": fn, "refuted": c2.status == "refuted", "replayed": False}]


def _rw_canaries(can):
    by = {}
    for o in can.obligations:
        lab = o.name.split("|")[0].split(":")[0]
        e = by.setdefault(lab, {"name": lab, "function": o.function, "refuted": False, "replayed": False})
        if o.status == "refuted":
            e["refuted"] = True
    return list(by.values())


def deductive(tier="quick", seed=0):
    d = run_tasks(D.tasks(tier) + RW.tasks())
    d.obligations.extend(wires.obligations() + RW.wire_lemmas())
    can = run_tasks(RW.canary_tasks())
    d.errors.extend(can.errors)
    d.canaries = _canaries() + _rw_canaries(can)
    d.inlined = sorted(D.INLINE | RW.INLINE)
    d.trusted_base += [
        "[A] networkx MultiDiGraph primitives on an explicit fragment (pyvc/symgraph.py): add_node, add_edge, remove_edges_from, "
        "remove_node, in_edges/out_edges(keys=True), nodes[n], edges[e]; the fragment is licensed by the WF precondition",
        "[S-fmt] f-string formatting of (one-letter register type, non-negative decimal register) is injective",
        "[T-cycle] inserting a node on edges (a,b),(c,d) of a DAG creates a cycle iff b ->* c or d ->* a",
        "[B-only] find_incompatible_edges, sequence, depth (replace_op and the three rewrites are under contract: contracts/dag.py, "
        "contracts/dag_rewrites.py; register / node depth: contracts/depth.py, C18)",
        "[A] `for x in <list>` = CPython's index-based list iterator (contracts/dag_rewrites.live_list_loop); [A-list] abstract list "
        "segments in the induction steps of the rewrites",
    ]
    return d
