"""C04 - deductive part.

Layer 1/2 (C12): the three DAG edits the moves use, on a symbolic graph fragment (contracts/dag.py: insert_at / remove_op / replace_op)
    and their meaning for the wire view (lemmas/wires.py: splice / unsplice keep every wire a single path).
Layer 3 [P] (contracts/moves_sem.py): SEMANTIC contracts of the seven mutation moves and the two position helpers of
    graphiq/solvers/evolutionary_solver.py, proved by symbolic execution of the REAL bodies on an abstract circuit (effect trace of
    the circuit edits; edge_dict lists of symbolic length; comprehension filters by lemma FILTER with the class tests as pure terms;
    the helpers' nested loops by havoc + invariant): the ONLY effects are insert_at / replace_op / remove_op calls; every two-qubit op a
    move builds is emitter controlled with its registers read from the chosen edges (CNOT e-e on two emitter edges, measure-and-reset
    e->p with a photon edge whose tail is not an Input); a photon one-qubit gate goes on a photon edge whose tail is a CNOT with
    reg_type p and the edge's register; remove_op never takes a Fixed / Input / Output node; replacements keep register and type (the
    photonic one carries Fixed); inserted edge pairs are not reported incompatible.
Layer 4 [P] (lemmas/emit_inv.py): the inductive step of EmitInv over the wire view - given EmitInv and an edit with exactly the
    properties layer 3 guarantees, EmitInv holds afterwards (splice after the emission, unsplice of a non-Fixed node, replacement of a
    wrapper on its register; no photon-photon op; Fixed emissions / measurements stay).  Each step has a negative control.
Static text checks (contracts/moves_static.py, C04.S.*) are kept as an independent second opinion; see `notes` for which are superseded.
[B-only] the base case (initialization establishes EmitInv), TimeReversedSolver / AlternateTargetSolver outputs, the index-consistency
    invariant that links node_dict / edge_dict / op registers to the graph, find_incompatible_edges = reachability (T-cycle)."""
from __future__ import annotations

from pyvc.driver import run_tasks
from contracts import dag as D, moves_static as MS, moves_sem as SEM
from contracts.metrics import canary_summary
from lemmas import wires, emit_inv


def deductive(tier="quick", seed=0):
    try:
        import graphiq.solvers.evolutionary_solver  # noqa: F401  (native replays: imported once in the parent; workers are forked)
    except Exception:  # noqa: BLE001
        pass
    tasks = [t for t in D.tasks(tier) if t.label.startswith(("insert_at", "remove_op", "replace_op"))]
    from contracts import trs_sync as X  # the time-reversed solver's circuit-side helpers (proved for C02): emission CNOTs and
    # measure-and-reset ops are built emitter-controlled, e->p, and carry "Fixed" BEFORE they are inserted (node_dict is indexed at
    # insertion, and the moves exclude nodes by node_dict["Fixed"])
    d = run_tasks(tasks + SEM.tasks() + X.leaf_tasks())
    d.obligations.extend(wires.obligations())
    d.obligations.extend(emit_inv.obligations())
    d.obligations.extend(MS.c04_obligations())
    can = run_tasks(SEM.canary_tasks())
    d.errors.extend(can.errors)
    d.canaries = canary_summary(can) + [{k: c[k] for k in ("name", "function", "refuted", "replayed")} for c in emit_inv.canaries()]
    d.inlined = sorted(SEM.INLINE)
    d.trusted_base += [
        "[T-cycle] inserting on a pair of edges not reported incompatible creates no cycle (DESIGN 4.3); the moves are PROVED to insert "
        "only on pairs (e0, e1) with e1 not in circuit.find_incompatible_edges(e0); that this set is the reachability closure is [B-only]",
        "[A] abstract circuit reads (contracts/moves_sem.py docstring): get_node_by_labels(L) / get_node_exclude_labels(L) = the nodes of "
        "the graph that are in node_dict[l] for every / for no l in L (their code is set algebra over node_dict); edge_dict[e], "
        "edge_dict[p] exist, are non-empty and list edges whose end points are nodes; circuit.dag.edges[e]['reg'], "
        "type(circuit.dag.nodes[n]['op']), .register are uninterpreted functions of the edge / node",
        "[A] OneQubitGateWrapper.__init__ on an abstract non-empty operation list = the real OneQubitOperationBase/OperationBase "
        "constructor chain (interpreted) + stored list; _wrap_noise / _identify_noise return an abstract noise object; CNOT and "
        "MeasurementCNOTandReset are built by their real constructors",
        "[B-only] index consistency of CircuitDAG (node_dict[l] lists exactly the nodes whose op carries label / class name / register "
        "types l; edge_dict[t] lists exactly the edges with reg_type t; an op's registers are the wires its node sits on): it turns "
        "the label / class premises of lemmas/emit_inv.py into the `kind` of a node on its wire (bounded C12 / C04 monitors)",
        "[B-only] EmitInv base case: EvolutionarySolver.initialization establishes EmitInv; outputs of TimeReversedSolver / "
        "AlternateTargetSolver satisfy it; histories = induction over the list of moves with layer 3 + 4 as the step",
        "[B-only] acyclicity after insert_at = [T-cycle] + find_incompatible_edges returns a superset of the reachability-incompatible "
        "edges (nx.ancestors / nx.descendants), checked by the bounded part",
        "[static] obligations named C04.S.* are decided on the AST text of the move (they fail on any edit of the stated shape)",
    ]
    d.notes += [
        "superseded by semantic obligations (kept as an independent text check): C04.S.<move>.mutates-only-through-... -> "
        "<move>:frame.*; C04.S.<move>.two-qubit-ops-are-emitter-controlled, C04.S.add_emitter_cnot.builds-CNOT(e,e), "
        "C04.S.add_measurement_cnot_and_reset.builds-mcr(e->p) -> post.register-types-*, post.two-qubit-op-is-controlled-by-an-emitter, "
        "post.*-register-is-read-from-the-*-edge; C04.S.remove_op.never-draws-Fixed-Input-Output -> remove_op:post.removed-node-is-not-*; "
        "C04.S.add_photon_one_qubit_op.only-after-the-emission-CNOT -> post.edge-is-right-after-the-emission(tail-is-a-CNOT); "
        "C04.S._select_possible_*.excludes-incompatible-edges -> invloop(...).preserve.every-pair.second-edge-not-in-find_incompatible_edges(first)",
        "remove_op(circuit, node): a caller-chosen Input / Output node is not refused by the real code (only Fixed nodes are); no caller "
        "in graphiq passes a node, the clause is stated for operation nodes",
    ]
    d.not_applicable_clauses += [
        "every circuit produced by the deterministic / alternate-target solver satisfies EmitInv (whole-solver outputs: bounded only)",
        "the circuit stays a valid DAG after every move (acyclicity: T-cycle + bounded find_incompatible_edges)",
    ]
    return d


def replay_obligation(data):
    """./check C04 --replay FILE : re-run the one task the obligation belongs to on the current tree (+ its native search)"""
    name = data["obligation"]
    label = name.split("|")[0].split(":")[0]
    T = [t for t in SEM.tasks() if t.label == label]
    if T:
        d = run_tasks(T, procs=1)
    else:
        d = deductive()
    bad = [o for o in d.obligations if o.name == name and o.status == "refuted"]
    if not bad:
        print("replay: obligation is discharged on the current tree")
        return 0
    o = bad[0]
    print(f"replay: {o.function}\n  obligation {name}: REFUTED on the current tree\n  clause: {o.clause}\n  native run: {o.witness}")
    print(f"VIOLATION property=C04 obligation={name}" + ("" if o.replayed else " no-failing-input-found"))
    return 1
