"""C04 - deductive part: static frame/shape contracts of the mutation moves (contracts/moves_static.py) + the wire-view effect of
the three edits they use (C12 layer 1 + 2: insert_at = splice, remove_op = unsplice).  EmitInv over move histories is [B-only]."""
from __future__ import annotations

from pyvc.driver import run_tasks
from contracts import dag as D, moves_static as MS
from lemmas import wires


def deductive(tier="quick", seed=0):
    tasks = [t for t in D.tasks(tier) if t.label.startswith(("insert_at", "remove_op", "replace_op"))]
    d = run_tasks(tasks)
    d.obligations.extend(wires.obligations())
    d.obligations.extend(MS.c04_obligations())
    d.trusted_base += [
        "[T-cycle] inserting on a pair of edges not reported incompatible creates no cycle",
        "[B-only] EmitInv (photon's first op is its emission CNOT; afterwards only one-qubit gates / measurement-controlled targets) is "
        "preserved by every move and established by initialization; TimeReversedSolver / AlternateTargetSolver outputs",
        "[static] obligations named C04.S.* are decided on the AST text of the move (they fail on any edit of the stated shape)",
    ]
    return d
