"""C16 - deductive part: relabelling by a permutation and the graph comparisons of relabel_module (contracts/relabel.py).

[P] (symbolic n, all integer matrices, all permutations)
    _perm2matrix(seq)   P[i, seq[i]] = 1, zeros elsewhere; loop invariant over enumerate(seq) of symbolic length
    relabel(A, p)       result[p(u), p(v)] = A[u, v] - the property's statement, literally (obligation
                        `relabel:post.property-form ...`) and as the closed form result[i,k] = A[p^-1(i), p^-1(k)];
                        both matrix products collapsed by the L2 lemma SUM_SUPPORT2 (proved by induction every run); the
                        premises are obligations of relabel's own task.
    _equal_graphs       True exactly when both graphs have the same node count and the same edge set (symbolic sizes).
    check_isomorphism   True exactly when SOME element of the list matches (list of symbolic length; first-match rule; the
                        test is `_equal_graphs` under its contract or nx.is_isomorphic as an [A]-pure predicate).
[P per fixed n in {1,2,3,4}, symbolic edges]
    get_relabel_map     identical adjacency -> {-1:'self'} + identity on the nodes; otherwise the GraphMatcher mapping, assert
                        failure for non-isomorphic graphs is the documented abrupt exit.  General n is NOT mechanised
                        (dict(zip(g.nodes(), ...)) over a node list of symbolic length); "the mapping is an isomorphism" is
                        [A] about networkx's GraphMatcher.
[B-only] (NOT covered here; decided by the bounded stand-in bounded/C16.py only)
    automorph_check (Python set of flattened tuples: set semantics / iteration order S8 are outside the engine - neither
    "element 0 is A" nor "the others are pairwise distinct relabelings" has an obligation here),
    iso_finder, _label_finder, _add_labels (rng, float heuristics, while loops), emitter_sorted, remove_iso,
    lc_orbit_finder, rgs_orbit_finder, linear_partial_orbit, depth_first_orbit, _depth_first,
    _retrieve_seq/_full_seq/_partial_orbit (networkx traversal / recursion on Python lists).
    Their provenance clause only needs C09's contract of local_comp_graph, which IS proved (props/C09.py).
"""
from __future__ import annotations

from pyvc.driver import run_tasks
from contracts import relabel as R
from contracts import tasks_stab as TS
from lemmas import matsum


def deductive(tier="quick", seed=0):
    d = run_tasks(R.tasks())
    d.obligations.extend(matsum.prove_sum_support2())
    from lemmas import model_checks

    model_checks.attach(d, seed)
    can = run_tasks(R.canary_tasks())
    d.errors.extend(can.errors)
    d.canaries = TS.canary_summary(can) + [matsum.canary()]
    for c in d.canaries:
        if c["refuted"] and not c["replayed"]:
            d.notes.append(f"canary {c['name']} refuted, counter-model not replayed")
    d.trusted_base += [
        "[T-pigeonhole] an injective map of {0..n-1} into itself has a two-sided inverse (used only where relabel's contract is "
        "applied at a call site; relabel's own task assumes the inverse's axioms as the definition of 'permutation')",
        "[A] matrix-product reading of numpy `@` (finite sum, exact arithmetic S2); its closed form for single-entry rows/columns "
        "is L2 SUM_SUPPORT2, proved by induction in z3 on every run (obligations L2.sum_support2.*)",
        "[A] networkx (contracts/nxmodel.py): to_numpy_array / from_numpy_array as adjacency <-> simple graph; nx.is_isomorphic and "
        "GraphMatcher.is_isomorphic one pure uninterpreted predicate of the two graphs; GraphMatcher.mapping an isomorphism",
        "[B-only] automorph_check, iso_finder, _label_finder, _add_labels, emitter_sorted, remove_iso and all LC-orbit explorers: "
        "no deductive obligation; bounded stand-in only; get_relabel_map for more than 4 nodes",
    ]
    d.assumptions += [
        "relabel task: `perm` is a permutation of range(n) = 0 <= perm[j] < n with a two-sided inverse (two quantified assumptions)",
        "S2: the float matrix built by np.zeros holds the integers 0/1 exactly; astype(int) is the identity on it",
    ]
    d.not_applicable_clauses += [
        "isomorph finder: pairwise distinct / input first / never more than requested (set semantics, rng): bounded only",
        "LC-orbit explorers: membership in the orbit and pairwise difference (networkx traversal): bounded only; the single "
        "step they iterate, local_comp_graph, is proved in C09",
        "reported relabel map is an isomorphism: identity branch proved for n <= 4; matcher branch is [A] (networkx GraphMatcher)",
    ]
    return d
