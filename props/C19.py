"""C19 - deductive part: RandomSearchSolver.update_hof and tournament_selection (contracts/hof.py).

[P over scores / node counts, F over sizes <= 3]  update_hof for n_hof in 1..3, every sentinel suffix, |population| in 1..2:
    len unchanged; entries are an old prefix plus (score, circuit.copy()) tuples; population untouched;
    adjacent entries ordered or within the isclose tolerance.
    `post.sorted` (the property's clause) and `post.best-not-worse` are REFUTED and replayed on the real method: known finding
    (props/C19.findings.md); every other obligation is discharged.
[P, F over sizes]  tournament_selection: fresh deep copies of the minimum of each k-draw; k=0 identity.
[N] same seed => same hall of fame (2-safety over global RNG / hash seed): bounded stand-in only.
"""
from __future__ import annotations

from pyvc.driver import run_tasks
from contracts import hof as H
from contracts.metrics import canary_summary


def deductive(tier="quick", seed=0):
    from contracts import popinit, seeding

    d = run_tasks(H.update_hof_tasks() + H.tournament_tasks() + popinit.tasks() + seeding.tasks())
    can = run_tasks(H.canary_tasks())
    d.errors.extend(can.errors)
    d.canaries = canary_summary(can)
    d.inlined = sorted(H.INLINE)
    d.trusted_base += [
        "S3: scores are mathematical reals; np.isclose(a,b) := |a-b| <= 1e-8 + 1e-5*|b| (numpy's documented definition), "
        "False between a finite score and the inf sentinel",
        "[A] circuit.copy() returns a fresh circuit with the same node count (recorder); len(circuit.dag.nodes) is an "
        "uninterpreted integer per circuit",
        "[A] random.choices(pop, k=k) returns k arbitrary elements of pop; copy.deepcopy = fresh equal object graph (S7)",
        "[F over sizes] hof sizes 1..3 x population sizes 1..2 (update_hof), n_pop<=2, |population|<=3, k<=3 (tournament) are "
        "unrolled - the python loops run over concrete lists; larger sizes: bounded stand-in",
        "[B-only] EvolutionarySolver.solve generation loop, HybridEvolutionarySolver.population_initialization, stored score == "
        "metric(stored circuit)",
        "[N] reproducibility with a fixed seed (2-safety over process-global RNG and PYTHONHASHSEED): bounded/C19.py only",
    ]
    d.not_applicable_clauses += ["same seed => same hall of fame (not a single-call contract; bounded stand-in)"]
    return d


def replay_obligation(data):
    """./check C19 --replay FILE : run the recorded input on the REAL update_hof (no solver involved)"""
    w = data.get("witness") or {}
    hof, pop = w.get("hof [(score, extra nodes)]"), w.get("population")
    if not hof or not pop:
        print("replay: the replay file carries no concrete input; re-running the obligation")
        d = deductive()
        bad = [o for o in d.obligations if o.name == data["obligation"] and o.status == "refuted"]
        print(f"VIOLATION property=C19 replay={data.get('replay_cmd', '').split()[-1]}" if bad else "replay: obligation is discharged on the current tree")
        return 1 if bad else 0
    hs = [(float(s), n) for s, n in hof]
    ps = [(float(s), n) for s, n in pop]
    after, _, _ = H.native_update_hof(hs, ps)
    which = data["obligation"].rsplit(":", 1)[1]
    bad = H._violates(which, [s for s, _ in hs], after)
    print(f"replay: RandomSearchSolver.update_hof  hof={hs} population={ps}\n  hof scores afterwards: {after}\n  clause {which}: "
          f"{'VIOLATED' if bad else 'holds'}")
    if bad:
        print(f"VIOLATION property=C19 obligation={data['obligation']}")
    return 1 if bad else 0
