"""C10 - deductive part (contracts/ats.py)."""
from __future__ import annotations

from pyvc.driver import run_tasks
from contracts import ats


def deductive(tier="quick", seed=0):
    d = run_tasks(ats.tasks(tier))
    d.obligations.extend(ats.static_obligations())
    d.dropped = d.dropped + ["AlternateTargetSolver.solve: only the de-duplication region (statements `adj_list = ...` .. "
                             "`for index in redundant_indices[::-1]`) is extracted; the rest of solve() is not under contract"]
    d.trusted_base += [
        "[S8] CPython iterates a set of small non-negative ints in increasing order",
        "[A] np.array_equal is an equivalence relation on the listed adjacency matrices",
        "[chain] C16 (relabel, get_relabel_map), C09 (lc_check certificate, local_comp_graph), C02 (graph_to_circ), C12 (append)",
        "[B-only] composition inside solve(): each entry's circuit generates the relabelled target; listed graph in the LC orbit",
    ]
    return d
