"""C10 - deductive part (contracts/ats.py: de-duplication region, accepted settings; contracts/ats_map.py: get_relabel_map returns an
isomorphism FROM its first TO its second argument, result-assembly region and lc_method dispatch of solve())."""
from __future__ import annotations

from pyvc.driver import run_tasks
from contracts import ats


def deductive(tier="quick", seed=0):
    d = run_tasks(ats.tasks(tier))
    d.obligations.extend(ats.static_obligations())
    d.dropped = d.dropped + ["AlternateTargetSolver.solve: only the de-duplication region (statements `adj_list = ...` .. "
                             "`for index in redundant_indices[::-1]`) is extracted; the rest of solve() is not under contract"]
    d.trusted_base += [
        "[S8] CPython iterates a set of small non-negative ints in increasing order",
        "[A] np.array_equal is an equivalence relation on the listed adjacency matrices",
        "[chain] C16 (relabel, get_relabel_map), C09 (lc_check certificate, local_comp_graph), C02 (graph_to_circ), C12 (append)",
        "[B-only] composition inside solve(): each entry's circuit generates the relabelled target; listed graph in the LC orbit",
    ]
    # direction of the relabel map ([A-GM] GraphMatcher), result-assembly region and lc_method dispatch of solve(): contracts/ats_map.py
    from contracts import ats_map

    d = ats_map.extend_deductive(d, tier)
    return d
