"""C18 - deductive part: graphiq/metrics.py constructors and the five counting metrics (contracts/metrics.py).

[P]  <Class>.__init__(defaults):reads-defined.*   every attribute `evaluate` (and what it calls on self) reads exists on the
     object the REAL constructor chain builds with default arguments - all 12 metric classes.
[P]  <Class>.evaluate[default arguments | log_steps=L,penalty=pen]  for CircuitDepth / CircuitEmitterCount / CircuitCnotCount /
     CircuitUnitaryCount / CircuitMeasureCount: value = penalty(definition) where the definition is a query of the circuit API
     (recorder contracts), `_inc` incremented, log appended iff the new `_inc` is a multiple of log_steps (symbolic L >= 1,
     symbolic counter), the caller's circuit is not mutated (mutators only on the copy; write log).
[F]  CircuitUnitaryCount iterates exactly the 8 unitary gate class names, each once (`labels.*` obligations, all 2^8
     node_dict membership patterns) and those 8 names are exactly the unitary gate classes of graphiq.circuit.ops (lemma).
[P]  contracts/depth.py (REAL bodies on symbolic graph fragments): CircuitDAG._max_depth implements DEP(Input) = -1, DEP(n) = 1 + max
     over the incoming edges (u, n) of DEP(u) on the CURRENT graph, reads only dag / node_dict and writes nothing (purity; extra state =
     undecided); H4 histories query - edit - query with the real remove_op / insert_at in between (a memo that survives an edit is
     refuted); calculate_reg_depth for a SYMBOLIC number of registers (entry i = depth of `{t}{i}_out`, nothing else written);
     calculate_all_reg_depth / register_depth; reg_gate_history = the register's wire in order (unrolled + induction step);
     lemma: the recursion is level - 1 of refsem/metrics.py and register depth = level of the last operation on the wire.
[P]  contracts/metrics_emit.py: CircuitMaxEmitDepth / CircuitMaxEmitResetDepth / CircuitMaxEmitEffDepth .evaluate for 1-3 emitters = penalty of
     their definitions on remove_identity(unwrap_nodes(copy)); counter / log / frame as for the counting metrics; no emitter -> ValueError.
[P]  contracts/dag_rewrites.py: the rewrites the metrics apply to their copy - remove_identity leaves NO Identity node (symbolic number of
     identities: loop rule + induction step; the list is iterated live as CPython does), unwrap_nodes replaces wrappers by their gates in
     application order.
"""
from __future__ import annotations

from pyvc.driver import run_tasks, merge
from contracts import metrics as M, depth as DP, dag_rewrites as RW, metrics_emit as ME


def deductive(tier="quick", seed=0):
    tasks = [M.reads_defined_task(n) for n in M.metric_class_names()] + M.count_tasks()
    tasks += DP.tasks() + ME.tasks() + RW.remove_identity_tasks() + RW.unwrap_nodes_tasks() + [RW._uw_absent_task()]
    d = run_tasks(tasks)
    d.obligations.extend(M.unitary_label_lemma())
    d.obligations.extend(DP.depth_lemmas() + RW.wire_lemmas() + [o for o in RW.native_cross_check() if "group_one_qubit" not in o.name])
    can = run_tasks(M.count_canary_tasks() + DP.canary_tasks() + ME.canary_tasks() + [c for c in RW.canary_tasks() if "group_one_qubit" not in c.label])
    d.errors.extend(can.errors)
    d.canaries = M.canary_summary(can) + DP.lemma_canaries()
    for c in d.canaries:
        if c["refuted"] and not c["replayed"]:
            d.notes.append(f"canary {c['name']} refuted, counter-model not replayed")
    d.inlined = sorted(M.INLINE | RW.INLINE | {DP.Q_MD, DP.Q_CRD, DP.Q_CARD})
    d.trusted_base += [
        "[A-API] recorder contracts: CircuitDAG.depth (= nx.dag_longest_path_length-1), CircuitBase.n_emitters, "
        "CircuitDAG.get_node_by_labels (= |intersection of the label sets|), CircuitBase.copy (deepcopy: equal circuit, fresh "
        "object), unwrap_nodes / remove_identity (circuit versions unwrap(C), rmid(..)) - their own contracts are C12/C13/C20 "
        "and the bounded stand-in of C18",
        "[A-WF4] a label that is not a key of node_dict labels no node (count = 0)",
        "[A] explicit penalty functions are pure (uninterpreted pen: Int -> Int); `x % m` for m >= 1 is Euclidean mod",
        "[P, concrete number of emitters] CircuitMaxEmitDepth / CircuitMaxEmitResetDepth / CircuitMaxEmitEffDepth .evaluate "
        "(contracts/metrics_emit.py): 1-3 emitters; wires of symbolic length (max emitter depth) / every reset pattern of <= 3 "
        "operations per wire with symbolic node ids and depths (reset and effective depth); more emitters / longer wires: bounded/C18.py",
        "[B-only] Metrics.evaluate weighting, GraphMetric.evaluate (networkx): only their constructors are under contract here",
        "[WF] depth / rewrite tasks assume the representation invariant of C12 on the fragment (one incoming / outgoing edge per wire "
        "of an operation node, acyclic, node_dict[K] lists exactly the nodes labelled K); the depth recursion has a unique solution "
        "on an acyclic graph (induction over a topological rank)",
        "[A-init] attributes of CircuitDAG the harness does not model are initialised by executing the matching `self.X = ...` "
        "statements of the REAL CircuitDAG.__init__ on the harness object (depth histories, _max_depth tasks)",
        "[A] `for i in range(n)` with symbolic n in calculate_reg_depth: rule L-range-pointwise (contracts/depth.py: the body writes "
        "entry i only, nothing else, and does not read the list); `for x in <list>` = CPython's index-based list iterator",
        "[B-only] that circuit.depth / get_node_by_labels compute the longest path / the label intersection of the real DAG",
    ]
    d.not_applicable_clauses += ["floating-point penalties (penalty functions are abstract integer functions here)"]
    return d
