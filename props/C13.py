"""C13 - deductive part: frame clauses (contracts/frames.py, contracts/metrics.py, contracts/compile_loop.py).

[P]  metrics: every `evaluate` under contract writes only self._inc / appends to self.log; mutating circuit/state methods are
     only called on copies (write log of the interpreter + receivers of recorded calls).
[P]  CompilerBase.compile: op.noise restored after every loop iteration (trace induction; contracts/compile_loop.py).
[P]  CircuitDAG._noisy_gates / assign_noise, MonteCarloNoise._noisy_gates: fresh ops, original ops (noise fields) not written.
[P]  TimeReversedSolver.__init__: REFUTED for graph / density-matrix targets - converts the caller's target in place
     (known finding T1, replayed natively); discharged for stabilizer targets.
[P]  rewrite clauses on the wire view (contracts/dag_rewrites.py; REAL remove_identity / unwrap_nodes / group_one_qubit_gates on symbolic
     graph fragments): remove_identity unsplices every listed Identity node and leaves no Identity; unwrap_nodes replaces a wrapper
     [g1..gk] in place by gk, ..., g1 (application order); group_one_qubit_gates turns every maximal run of one-qubit gate nodes into ONE
     wrapper whose unwrap() is the application sequence of the run - per wire the elementary gates in application order are unchanged.
     Whole function for 0-3 listed nodes / runs of up to 4 nodes + induction steps of every loop (loop rule L-snapshot with its side
     condition "the iterated list is not written by the body" as an obligation; lists are iterated LIVE as CPython does).
[F]  the same three rewrites evaluated natively on the enumerated shapes (exact comparison of sequence(unwrapped=True) per wire).
[P]  StabilizerTableau.__init__ / CliffordTableau.__init__ (contracts/tableau_ctor.py): the stored table / phase / iphase buffers hold
     the given values and are FRESH (no argument buffer is kept or written), for int- and float-dtype arguments, [x, z] lists, tableau
     sources: the in-place row helpers of every later call can then not reach an array the caller still holds.
[B-only] that an unchanged gate sequence compiles to the same state (C01 + C20), copy, assign_noise(empty map), solver .solve() frames,
     interleavings.
"""
from __future__ import annotations

from pyvc.driver import run_tasks, merge
from contracts import frames as F, metrics as M, compile_loop as CL, dag_rewrites as RW, metrics_emit as ME, tableau_ctor as TCT


def deductive(tier="quick", seed=0):
    d = run_tasks(M.count_tasks() + F.noisy_gates_tasks() + F.mc_noisy_gates_tasks() + CL.tasks() + F.trs_tasks()
                  + F.assign_noise_tasks() + M.dispatch_tasks() + RW.tasks() + ME.tasks() + TCT.tasks())
    d.obligations.extend(RW.wire_lemmas() + RW.native_cross_check())
    can = run_tasks(F.canary_tasks() + M.frame_canary_tasks() + RW.canary_tasks() + TCT.canary_tasks())
    d.errors.extend(can.errors)
    d.canaries = M.canary_summary(can)
    d.inlined = sorted(M.INLINE | CL.CS.INLINE | RW.INLINE)
    d.trusted_base += [
        "[A] copy.deepcopy = fresh equal object graph (S7); CircuitDAG._slim_seq returns the circuit's own operation objects",
        "[A] frame checks see writes through attribute / item assignment and list, dict, set mutators of interpreted code; "
        "recorded (abstract) callees are classified as mutators / readers by name (contracts/metrics.py MUTATORS)",
        "[WF] rewrite tasks assume the representation invariant of C12 on the fragment: one incoming / outgoing edge per wire of an "
        "operation node, distinct node ids <= _node_id, node_dict[K] lists exactly the nodes labelled K once (remove_identity / "
        "unwrap_nodes FIND their nodes through node_dict)",
        "[A] networkx MultiDiGraph primitives on an explicit fragment (pyvc/symgraph.py); [S-fmt] f-string formatting of (type, register) "
        "is injective; `for x in <list>` = CPython's index-based list iterator (contracts/dag_rewrites.live_list_loop)",
        "[A-list] induction steps: index lists are R0 y1 R1 x R2 y2 R3 with two representative other members y1, y2 (possibly adjacent "
        "to x on its wire) and abstract segments R for any number of further members; list.remove(v) deletes the first element equal "
        "to v, skips / keeps all others in order",
        "[A] OneQubitGateWrapper built from a gate list with an abstract prefix (group step tasks only): holds the very list passed "
        "(C20's task on the real constructor); all other wrappers go through the REAL constructor and the REAL unwrap()",
        "[B-only] group_one_qubit_gates: the loop over node_dict['Output'] for more than 2 wires (each iteration touches its own wire "
        "only: 2-wire task); that an unchanged per-wire gate sequence compiles to the same state (C01 + C20); copy, "
        "assign_noise(empty map); solver.solve() frames; histories of <= 3 calls: bounded/C13.py",
        "[B-only] Metrics.evaluate, GraphMetric.evaluate frames; CircuitMaxEmit*Depth.evaluate frames for more than 3 emitters "
        "(1-3 emitters: contracts/metrics_emit.py)",
    ]
    d.not_applicable_clauses += ["'repeating a deterministic compile returns the same state' follows from the compile frame "
                                 "clause + C01 (mode 0/1); not a separate obligation"]
    return d


def replay_obligation(data):
    """./check C13 --replay FILE"""
    name = data["obligation"]
    if name.startswith("TimeReversedSolver.__init__[target.rep_type=") and ":frame." in name:
        rep = name.split("rep_type=")[1].split("]")[0]
        wit, bad = F.native_trs(rep)
        print(f"replay: {wit['call']}\n  expected: {wit['expected']}\n  actual:   {wit['actual']}")
        if bad:
            print(f"VIOLATION property=C13 obligation={name}")
        return 1 if bad else 0
    d = deductive()
    bad = [o for o in d.obligations if o.name == name and o.status == "refuted"]
    print(f"VIOLATION property=C13 obligation={name}" if bad else "replay: obligation is discharged on the current tree")
    return 1 if bad else 0
