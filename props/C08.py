"""C08 - deductive part (contracts/rep_conv.py).

[P] graph -> stabilizer tableau (get_stabilizer_tableau_from_graph, _graph_to_stabilizer_pure for nx.Graph and ndarray input
    through the REAL StabilizerTableau([I, adj]) constructor, graph_to_stabilizer single / mixture): X = I, Z = adjacency,
    signs 0, fresh objects, inputs untouched - symbolic n, every simple graph.
[P, trace] stabilizer_to_density: every accepted input form returns the matrix built by _stabilizer_to_density_pure
    (mixture: sum p_i rho_i), other inputs raise ValueError.
[F over the 9 ordered pairs, trace] QuantumState.convert_representation (mixed=False - the statement is about a graph state,
    which is pure; mixed=True holders are outside it and not driven): right converter, right payload (for s -> x: the stabilizer
    half of the held CliffordTableau, proved entry-wise; dm -> g: the networkx graph of the returned adjacency), result wrapped
    in the right class, _rep_type set.  History: dm -> g and s -> g failed before fix commit 8246b09 (props/C08.findings.md).
[P] stabilizer -> graph chain (contracts/graph_finder.py, contracts/row_reduction.py; symbolic n unless stated):
    _graph_finder: FRAME (int- and float-dtype arguments are not modified; the in-place callees sla.row_reduction /
      sla.hadamard_transform only ever see np.copy's whose contents equal the arguments') + gate BOOKKEEPING (the returned H
      positions are the very list the X/Z column exchange was done with, found on the row-reduced working X part; the returned
      P_dag positions are the increasing enumeration of the non-zero diagonal entries that are cleared; the graph is built from
      that matrix with zero diagonal) + result shape for get_ops_data True / False; abrupt exits: the three certificate asserts.
    sla.hadamard_transform: listed columns of X and Z exchanged in place, everything else untouched (0, 1, 2 positions).
    sla._row_red_one_step / sla.row_reduction: X and Z are written ONLY by row_swap / add_rows, the same operation with the same
      rows on both (add_rows source != target), argument objects returned, pivot characterised (while-loop: partial correctness).
    state_to_graph [trace], 4 input kinds: deep copy; _graph_finder on the copy's X / Z part (stabilizer half of a Clifford tableau);
      gates = H list + P_dag list (element-wise, symbolic lengths) + the result of _phase_correction, which is called on EVERY
      path with exactly that list; returns (graph, tableau, gates); graph / adjacency input: (graph, tableau(graph), []).
    _phase_correction [trace + arithmetic, precondition X(T) = I]: canonical forms of both arguments, circuit run forward on a COPY,
      Z on qubit i <=> sign of generator i differs (Z_i flips exactly K_i), ascending; afterwards all signs agree.
[F] _position_finder, exact over ALL echelon forms n <= 3 (real code evaluated): returns exactly the non-pivot columns - holds when column 0
    carries a pivot; the complementary class is REFUTED on the unchanged tree = recorded finding C08-F3 (props/C08.findings.md D08-4).
[P] stabilizer_to_graph, graph_to_density [trace]: dispatch (one _graph_finder per tableau on ITS X / Z views, weights in order,
      validation compares the input with the result's tableaux; mixture = sum p_i rho_i; other inputs raise).
[B-only]/[N]: _graph_to_density_pure, _stabilizer_to_density_pure (dense 2^n x 2^n operator algebra; the latter ignores the
    generator signs - bounded finding F08-2), density_to_graph/_density_to_graph_pure/density_to_stabilizer (negativity through
    np.linalg.eigh with a threshold: [N]), the float GF(2) inverse inside _graph_finder / _phase_correction (np.linalg.det/inv:
    [N] - modelled as an unspecified 0/1 matrix, exact only for the identity), hence "the graph found is LC-equivalent to the
    input" (certificate asserts + bounded), _position_finder for n > 3 (relies on IndexError control flow: outside the accepted subset),
    canonical_form / run_circuit as recorded calls here (C05, C07, C11), mixed_*_equivalency,
    get_clifford_tableau_from_graph / clifford_from_stabilizer (inverse_circuit: C11).
"""
from __future__ import annotations

from pyvc.driver import run_tasks
from contracts import rep_conv as RCV
from contracts import tasks_stab as TS


def _native(src, dst, mixed):
    """drive the REAL QuantumState.convert_representation for the 2-vertex path graph; -> (exception text | None)"""
    import networkx as nx
    import graphiq.backends.state_rep_conversion as rc
    from graphiq.state import QuantumState
    from graphiq.backends.graph.state import Graph, MixedGraph
    from graphiq.backends.stabilizer.functions.rep_conversion import get_clifford_tableau_from_graph

    g = nx.path_graph(2)
    try:
        if src == "g" and mixed:
            # QuantumState(..., mixed=True) cannot be built around a graph (validate_data reads .n_qubits of an nx.Graph), so
            # the holder is assembled by hand exactly as the dispatch expects it
            q = QuantumState(g, rep_type="g")
            q.mixed = True
            q._rep_data = MixedGraph([(0.5, Graph(nx.path_graph(2))), (0.5, Graph(nx.empty_graph(2)))])
        else:
            data = {"dm": rc.graph_to_density(g), "s": get_clifford_tableau_from_graph(g), "g": g}[src]
            q = QuantumState(data, rep_type=src, mixed=mixed)
        q.convert_representation(dst)
        return None
    except Exception as e:  # noqa: BLE001
        return f"{type(e).__name__}: {e}"


def _attach_native_witnesses(d):
    """the dispatch proofs are trace proofs (no counter-model replay); a refuted dispatch obligation gets its concrete failing
    input by driving the real code for that (src, dst, mixed) triple on the path graph 0-1"""
    import re

    for o in d.obligations:
        if o.status != "refuted" or o.replayed:
            continue
        m = re.match(r"convert_representation\[(\w+)->(\w+)\]", o.name)
        if not m:
            continue
        src, dst, mixed = m.group(1), m.group(2), False
        exc = _native(src, dst, mixed)
        if exc is not None:
            o.witness = {"function": "graphiq.state:QuantumState.convert_representation",
                         "args": {"held": f"graph state of the path 0-1 as '{src}'", "mixed": mixed, "new_rep_type": dst},
                         "actual": "raises " + exc, "expected": "the state is converted and still is the graph state of 0-1"}
            o.replayed = True


def deductive(tier="quick", seed=0):
    from contracts import graph_finder as GFM, row_reduction as RRM
    from lemmas import matsum, gateseq_checks

    d = run_tasks(RCV.tasks() + GFM.tasks() + RRM.tasks())
    d.obligations.extend(matsum.prove_sum_support2())  # L2 lemma behind the closed form of x_inv @ phase_diff (_phase_correction)
    d.obligations.extend(GFM.position_finder_obligations())  # [F] exact; the class "column 0 carries no pivot" is finding C08-F3
    _attach_native_witnesses(d)
    from lemmas import model_checks

    model_checks.attach(d, seed)
    gateseq_checks.attach(d, seed)
    can = run_tasks(RCV.canary_tasks() + GFM.canary_tasks() + RRM.canary_tasks())
    d.errors.extend(can.errors)
    d.canaries = TS.canary_summary(can) + [matsum.canary()]
    for c in d.canaries:
        if c["refuted"] and not c["replayed"]:
            d.notes.append(f"canary {c['name']} refuted, counter-model not replayed")
    d.inlined = sorted(RCV.CONV_INLINE)
    d.trusted_base += [
        "[T-stab] the n commuting independent generators K_i = X_i prod_{j~i} Z_j (X = I, Z = adjacency, signs +) determine |G>",
        "[A] networkx: to_numpy_array(G) is the adjacency matrix in node order 0..n-1; number_of_nodes() = n",
        "[A] np.sqrt(n*n) = n exactly",
        "[A-recorders] in the dispatch proofs the six converters of state_rep_conversion and the representation-class "
        "constructors are recorded calls whose preconditions are the payload types their own isinstance dispatch accepts",
        "[B-only] _graph_to_density_pure, _stabilizer_to_density_pure, density_to_graph (eigh/negativity [N]), the float GF(2) inverse "
        "inside _graph_finder / _phase_correction ([N]: which graph is found), _position_finder, clifford_from_stabilizer",
        "[T-canon] the canonical form of a stabilizer tableau whose X part is invertible has X = I (precondition X(T) = I of _phase_correction)",
    ] + GFM.TRUSTED + RRM.TRUSTED
    d.assumptions += [
        "_graph_finder: x_matrix, z_matrix are n x n bit matrices (int or float dtype), x_matrix is not the zero matrix in its last column at/below "
        "the pivot of row 0 - i.e. row_reduction returns rank >= 0 (for X = 0 the code indexes x_mat[-1], a negative index outside S6; that input "
        "class ends in the 'not independent' assert anyway: finding C08-F3)",
        "_phase_correction: X part of canonical(run(gates, canonical(tab1))) is the identity (both callers: the target is a graph state)",
    ]
    d.not_applicable_clauses += [
        "density-matrix -> graph recovery (negativity threshold via eigh): [N] floating-point spectral test",
        "stabilizer -> graph for any generating set: WHICH graph is found (float det/inv as GF(2) inverse) is [N] - certificate + bounded only; "
        "frame, gate bookkeeping and composition are [P] (contracts/graph_finder.py)",
        "state_to_graph gates map the input exactly, signs included: the composition (H list, P_dag list, sign repair always consulted, Z exactly "
        "where a sign differs) is [P]; that H / P_dag at the recorded positions turn the reduced tableau into the graph's is bounded only",
        "convert_representation with mixed=True: outside the statement (graph states are pure); not driven (findings D08-3)",
    ]
    return d
