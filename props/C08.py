"""C08 - deductive part (contracts/rep_conv.py).

[P] graph -> stabilizer tableau (get_stabilizer_tableau_from_graph, _graph_to_stabilizer_pure for nx.Graph and ndarray input
    through the REAL StabilizerTableau([I, adj]) constructor, graph_to_stabilizer single / mixture): X = I, Z = adjacency,
    signs 0, fresh objects, inputs untouched - symbolic n, every simple graph.
[P, trace] stabilizer_to_density: every accepted input form returns the matrix built by _stabilizer_to_density_pure
    (mixture: sum p_i rho_i), other inputs raise ValueError.
[F over the 9 ordered pairs, trace] QuantumState.convert_representation (mixed=False - the statement is about a graph state,
    which is pure; mixed=True holders are outside it and not driven): right converter, right payload (for s -> x: the stabilizer
    half of the held CliffordTableau, proved entry-wise; dm -> g: the networkx graph of the returned adjacency), result wrapped
    in the right class, _rep_type set.  History: dm -> g and s -> g failed before fix commit 8246b09 (props/C08.findings.md).
[B-only]/[N]: _graph_to_density_pure, _stabilizer_to_density_pure (dense 2^n x 2^n operator algebra; the latter ignores the
    generator signs - bounded finding F08-2), density_to_graph/_density_to_graph_pure/density_to_stabilizer (negativity through
    np.linalg.eigh with a threshold: [N]), stabilizer_to_graph/_graph_finder/_position_finder (np.linalg.det/inv in floating
    point as a GF(2) inverse: [N]; only its certificate asserts are checked at run time), state_to_graph, _phase_correction,
    mixed_*_equivalency, get_clifford_tableau_from_graph / clifford_from_stabilizer (inverse_circuit: C11).
"""
from __future__ import annotations

from pyvc.driver import run_tasks
from contracts import rep_conv as RCV
from contracts import tasks_stab as TS


def _native(src, dst, mixed):
    """drive the REAL QuantumState.convert_representation for the 2-vertex path graph; -> (exception text | None)"""
    import networkx as nx
    import graphiq.backends.state_rep_conversion as rc
    from graphiq.state import QuantumState
    from graphiq.backends.graph.state import Graph, MixedGraph
    from graphiq.backends.stabilizer.functions.rep_conversion import get_clifford_tableau_from_graph

    g = nx.path_graph(2)
    try:
        if src == "g" and mixed:
            # QuantumState(..., mixed=True) cannot be built around a graph (validate_data reads .n_qubits of an nx.Graph), so
            # the holder is assembled by hand exactly as the dispatch expects it
            q = QuantumState(g, rep_type="g")
            q.mixed = True
            q._rep_data = MixedGraph([(0.5, Graph(nx.path_graph(2))), (0.5, Graph(nx.empty_graph(2)))])
        else:
            data = {"dm": rc.graph_to_density(g), "s": get_clifford_tableau_from_graph(g), "g": g}[src]
            q = QuantumState(data, rep_type=src, mixed=mixed)
        q.convert_representation(dst)
        return None
    except Exception as e:  # noqa: BLE001
        return f"{type(e).__name__}: {e}"


def _attach_native_witnesses(d):
    """the dispatch proofs are trace proofs (no counter-model replay); a refuted dispatch obligation gets its concrete failing
    input by driving the real code for that (src, dst, mixed) triple on the path graph 0-1"""
    import re

    for o in d.obligations:
        if o.status != "refuted" or o.replayed:
            continue
        m = re.match(r"convert_representation\[(\w+)->(\w+)\]", o.name)
        if not m:
            continue
        src, dst, mixed = m.group(1), m.group(2), False
        exc = _native(src, dst, mixed)
        if exc is not None:
            o.witness = {"function": "graphiq.state:QuantumState.convert_representation",
                         "args": {"held": f"graph state of the path 0-1 as '{src}'", "mixed": mixed, "new_rep_type": dst},
                         "actual": "raises " + exc, "expected": "the state is converted and still is the graph state of 0-1"}
            o.replayed = True


def deductive(tier="quick", seed=0):
    d = run_tasks(RCV.tasks())
    _attach_native_witnesses(d)
    from lemmas import model_checks

    model_checks.attach(d, seed)
    can = run_tasks(RCV.canary_tasks())
    d.errors.extend(can.errors)
    d.canaries = TS.canary_summary(can)
    for c in d.canaries:
        if c["refuted"] and not c["replayed"]:
            d.notes.append(f"canary {c['name']} refuted, counter-model not replayed")
    d.inlined = sorted(RCV.CONV_INLINE)
    d.trusted_base += [
        "[T-stab] the n commuting independent generators K_i = X_i prod_{j~i} Z_j (X = I, Z = adjacency, signs +) determine |G>",
        "[A] networkx: to_numpy_array(G) is the adjacency matrix in node order 0..n-1; number_of_nodes() = n",
        "[A] np.sqrt(n*n) = n exactly",
        "[A-recorders] in the dispatch proofs the six converters of state_rep_conversion and the representation-class "
        "constructors are recorded calls whose preconditions are the payload types their own isinstance dispatch accepts",
        "[B-only] _graph_to_density_pure, _stabilizer_to_density_pure, density_to_graph (eigh/negativity [N]), stabilizer_to_graph "
        "/_graph_finder (float GF(2) inverse [N]), state_to_graph, _phase_correction, clifford_from_stabilizer",
    ]
    d.not_applicable_clauses += [
        "density-matrix -> graph recovery (negativity threshold via eigh): [N] floating-point spectral test",
        "stabilizer -> graph for any generating set (float det/inv as GF(2) inverse): [N]; certificate + bounded only",
        "state_to_graph gates map the input exactly, signs included: bounded only",
        "convert_representation with mixed=True: outside the statement (graph states are pure); not driven (findings D08-3)",
    ]
    return d
