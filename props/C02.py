"""C02 - deductive part (contracts/trs.py + contracts/trs_sync.py).

Under contract (REAL bodies of graphiq/solvers/time_reversed_solver.py):
  _change_pauli_type                  [P + F]  contracts/trs.py
  _add_emitter_photon_cnot, _add_one_emitter_cnot, _add_measurement_cnot_and_reset
                                      [P, graph fragment, real CircuitDAG.insert_at]  class, control/target registers and types, "Fixed" label
                                      for the emission / measurement (indexed in node_dict, i.e. the label is on the object BEFORE insertion),
                                      inserted on the FIRST edge of both wires
  _add_one_qubit_gate                 [P, trace]  index -> (type, register); merge order W.operations + gate_list; identity -> removed / nothing;
                                      else one wrapper first on the wire
  _transform_generator_emitters, _single_out_emitter, _add_photon_absorption, _time_reversed_measurement
                                      [P]  ghost invariant SYNC (every tableau gate is mirrored, in order, by its inverse circuit operation on
                                      the same qubit; loops of symbolic trip count by induction - pyvc/invloop.py trace rule) + functional
                                      postconditions on the selected generator (single Z on the chosen emitter; +Z_e with the sign repaired;
                                      +Z_photon after absorption; +X_e X_photon after the time-reversed measurement)
[B-only]: solve and _add_gates_from_str (composition of the helpers, rref / height bookkeeping, final inverse circuit), that solve ESTABLISHES
the helpers' protocol preconditions, totality (the protocol's completeness theorem), Sem() of a DAG as a channel (T-commute)."""
from __future__ import annotations

import time

from pyvc.driver import run_tasks
from vf.core import Obl
from contracts import tasks_stab as TS, trs, trs_sync as X


def deductive(tier="quick", seed=0):
    Call = TS.all_contracts()
    tasks = trs.contracts_and_tasks(Call) + X.leaf_tasks() + X.one_qubit_tasks() + X.sync_tasks(Call)
    d = run_tasks(tasks)
    d.obligations.extend(trs.finite_obligations())
    can = run_tasks(X.leaf_canaries() + X.one_qubit_canaries() + X.sync_canaries(Call))
    d.errors.extend(can.errors)
    d.canaries = TS.canary_summary(can)
    t0 = time.time()
    try:
        rep = X.native_cross_check()
        ok = rep["contract_post_holds"] and rep["contract_relation_holds"]
        for c in d.canaries:
            if "swapped-roles" in c["name"]:
                c["replayed"] = bool(rep["contract_relation_holds"] and not rep["canary_relation_holds"])
                c["native_replay"] = rep
            if "sign-untouched" in c["name"]:
                c["replayed"] = bool(rep["contract_post_holds"] and not rep["canary_sign_untouched_holds"])
                c["native_replay"] = {k: rep[k] for k in ("input", "contract_post_holds", "canary_sign_untouched_holds")}
        d.obligations.append(Obl(name="C02.F._single_out_emitter.native-cross-check", function=X.Q_SOE, kind="F", backend="exact",
                                 status="discharged" if ok else "refuted", ms=(time.time() - t0) * 1000, detail="" if ok else str(rep)[:2000],
                                 clause="one instrumented run of the real _single_out_emitter (1 photon, 3 emitters, generator -X Y Z): the generator "
                                        "ends as +Z on the chosen emitter and every tableau CNOT (n_photon+c, n_photon+t) follows the circuit CNOT "
                                        "(c, t) (sanity check of the recorder set-up and replay of two canaries; not part of the proof)",
                                 witness=None if ok else rep, replayed=not ok))
    except Exception as e:  # noqa: BLE001
        d.notes.append(f"native cross-check of the sync canaries failed: {type(e).__name__}: {e}")
    t0 = time.time()
    try:
        fails = X.native_sync_monitor()
        d.obligations.append(Obl(name="C02.F.solve.native-sync-monitor", function=f"{X.S}.solve", kind="F", backend="exact",
                                 status="discharged" if not fails else "refuted", ms=(time.time() - t0) * 1000, detail="" if not fails else str(fails)[:2000],
                                 clause="instrumented runs of the real solve() on 5 small targets (path4, star4, cycle5, K4, ladder): the SYNC relation "
                                        "holds on the whole construction incl. _add_gates_from_str and the final sign loop (cross-check of the "
                                        "relation and replay source for relaxed refutations; a bounded run, not part of the proof)",
                                 witness=None if not fails else dict(failures=fails), replayed=bool(fails)))
    except Exception as e:  # noqa: BLE001
        d.notes.append(f"native sync monitor failed to run: {type(e).__name__}: {e}")
    for c in d.canaries:
        if c["refuted"] and not c["replayed"]:
            d.notes.append(f"canary {c['name']} refuted (structural / trace contract: no input-dependent counter-model to replay)")
    d.inlined = sorted(set(X.LEAF_INLINE) | set(TS.TABLEAU_ACCESSORS if hasattr(TS, "TABLEAU_ACCESSORS") else []) | {X.Q_FEI})
    d.trusted_base += [
        "[T-stab], [T-commute] (DESIGN 4.3); Li-Economou-Barnes completeness of the time-reversed protocol (totality of solve)",
        "[C07] gate contracts of transformation.py, [C03/C05] leftmost_nontrivial_index / one_pauli_type_finder / tab_row_sum contracts, "
        "[C12] CircuitDAG edit primitives on fragments, [C20] simplify_local_clifford keeps the unitary up to phase: used through their contracts",
        "[A] SolverBase._identify_noise / _wrap_noise return noise values (which ones is irrelevant for the noise-free statement; default "
        "no-noise mapping in the leaf tasks); [A] OneQubitGateWrapper(...) holds operations / register / reg_type (constructor: C20)",
        "[A] np.setdiff1d(a, [c]) = sorted unique elements of a other than c; np.where(cond) = np.nonzero(cond); M.any(axis=1) per-row "
        "characterisation; ~ on that bool vector (models added in contracts/trs_sync.py, pyvc/models.py, pyvc/interp.py)",
        "[rule] pyvc/invloop.py trace rule (trace_check) + indexed havoc: the events of ONE arbitrary iteration satisfy SYNC on their own; by "
        "induction the loop's segment is a concatenation of SYNC segments (SYNC is closed under concatenation: matching is in order and "
        "consumes whole pairs); what the havoc builds in (generator row as a function of the iteration index, bits) is proved by the invariant",
        "[pre, protocol] _add_photon_absorption: the scan selects a generator that is non-trivial on photon_index and on some emitter and "
        "trivial on all other photons; _time_reversed_measurement: some generator acts on emitters only, no generator is the identity; "
        "_single_out_emitter / _transform_generator_emitters: their call-site preconditions are PROVED at the call sites inside the helpers, "
        "that solve establishes the two protocol preconditions is [B-only]",
        "[B-only] solve, _add_gates_from_str: composition of the helper contracts over the main loop, rref / height_func_list bookkeeping, "
        "final inverse circuit (C11 trace consistency) and the circuit.validate / compile / metric tail",
        "[B-only] Sem(C) of the DAG as a channel: 'first on both wires' => 'acts before everything already on those registers' (T-commute)",
    ]
    d.not_applicable_clauses += ["the solver never trips its own asserts (completeness of the protocol): algorithmic theorem, bounded only"]
    return d
