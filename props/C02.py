"""C02 - deductive part (see contracts/trs.py).  Everything else on C02's chain is either another property's proof
(C07 gate contracts, C05/C11 inverse_circuit trace consistency, C12 splice lemmas, C01 compile) or [B-only]:
the ghost invariant Sem(C) o G = id through _add_one_qubit_gate / _add_*_cnot / _time_reversed_measurement / solve, and totality
(the protocol's completeness theorem), are decided by the bounded stand-in only."""
from __future__ import annotations

from pyvc.driver import run_tasks
from contracts import tasks_stab as TS, trs


def deductive(tier="quick", seed=0):
    Call = TS.all_contracts()
    d = run_tasks(trs.contracts_and_tasks(Call))
    d.obligations.extend(trs.finite_obligations())
    d.trusted_base += [
        "[T-stab], [T-commute] (DESIGN 4.3); Li-Economou-Barnes completeness of the time-reversed protocol (totality of solve)",
        "[B-only] _add_one_qubit_gate, _add_one_emitter_cnot, _add_emitter_photon_cnot, _add_measurement_cnot_and_reset, "
        "_transform_generator_emitters, _single_out_emitter, _add_photon_absorption, _time_reversed_measurement, solve",
    ]
    d.not_applicable_clauses += ["the solver never trips its own asserts (completeness of the protocol): algorithmic theorem, bounded only"]
    return d
