"""C06 - deductive part.

[P, trace induction] CompilerBase.compile for both compilers, noise switched on and off (contracts/compile_loop.py):
  * switchability: noise_simulation False, or every noise object of the operation NoNoise  ->  exactly the noiseless call
    compile_one_gate (no additional-noise call, no noisy-gate call) for every operation class;
  * placement: additive noise before/after the gate as its "After gate" flag says, for one-qubit ops and for all four
    (control, target) combinations of controlled ops, with the noise carried by the op AT CALL TIME equal to the part that is
    due (catches a dropped after-gate noise); replacement noise -> compile_one_noisy_gate; mixed kinds -> ValueError;
  * frame: op.noise is the same object (same two items) after every iteration.
[P, real arithmetic] weights of the depolarizing channel: (1-p) + (k-1) * p/(k-1) = 1 and every weight in [0,1] for
  0 <= p <= 1, k = 4^m >= 4  (the Kraus weights / mixture weights graphiq builds in DepolarizingNoise.apply).
[P / F] WHAT each noise model's apply() does, per noise class x representation branch (contracts/noise_models.py - read its
  docstring): stabilizer / mixture branches state-level on symbolic tableaux (weights, sign flips by the anticommutation rule,
  copies, frame, reduce() once afterwards), density-matrix branches as dispatch traces with operator tokens whose numerical
  content is evaluated natively [F]; MixedStabilizer.reduce (<= 4 branches); constructors / noise_parameters; the last hop
  compile -> apply (_apply_additional_noise of both compilers: register index as the compiler computes it).
  DensityMatrix.apply_unitary / apply_channel: formulas proved as operator-algebra expressions (abstract operators).
[B-only] the float matrix arithmetic on 2^n x 2^n arrays underneath, positivity and trace of the computed matrix, backend
  agreement on whole circuits: bounded stand-in (bounded/C06.py); float positivity is [N] (S3).
"""
from __future__ import annotations

import time

import z3

from pyvc.driver import run_tasks, merge
from vf.core import Obl
from contracts import compile_loop as CL
from contracts import noise_models as NMC


def weight_lemma():
    p, k = z3.Real("p"), z3.Real("k")
    out = []
    for name, goal in [
        ("sum-to-one", (1 - p) + (k - 1) * (p / (k - 1)) == 1),
        ("in-range", z3.And(1 - p >= 0, 1 - p <= 1, p / (k - 1) >= 0, p / (k - 1) <= 1)),
    ]:
        s = z3.Solver()
        s.set("timeout", 10000)
        s.add(p >= 0, p <= 1, k >= 4)
        s.add(z3.Not(goal))
        t0 = time.time()
        r = s.check()
        out.append(Obl(name=f"L2.depolarizing-weights.{name}", function="graphiq.noise.noise_models:DepolarizingNoise.apply",
                       status="discharged" if r == z3.unsat else ("refuted" if r == z3.sat else "undecided"), kind="P",
                       backend="z3", ms=(time.time() - t0) * 1000, detail="" if r == z3.unsat else str(r),
                       clause="factors = [1-p] + (k-1)*[p/(k-1)]: total weight 1, each in [0,1] (real arithmetic, S3)"))
    return out


def deductive(tier="quick", seed=0):
    d = run_tasks(CL.tasks())
    d.obligations.extend(weight_lemma())
    d = merge(d, NMC.deductive_part())  # per-model contracts, [F] numerics, canaries (contracts/noise_models.py)
    d.trusted_base += [
        "[A] circuit.sequence(unwrapped=True) is an abstract sequence (C12/C20); recorder contracts for compile_one_gate, "
        "compile_one_noisy_gate, _apply_additional_noise (_apply_additional_noise of both compilers and the noise models' apply(): "
        "contracts/noise_models.py; compile_one_noisy_gate: its one-qubit branch there too, the rest - replacement noise on controlled / "
        "measuring operations, outside the statement - [B-only])",
        "[T-cptp] Kraus maps with sum K^dagger K = c I preserve positivity and scale the trace by c",
        "[B-only] float matrix arithmetic of the density-matrix backend, whole-circuit backend agreement, assign_noise map lookup",
    ]
    d.not_applicable_clauses += ["floating-point positivity of the computed density matrix (S3)",
                                 "backend agreement when noise precedes a measurement (known finding C06-F7: different conditioning semantics)"]
    return d
