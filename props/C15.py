"""C15 - deductive part: finite class table + structure of `direct` and one extracted walk step (contracts/moves_static.py); the walk as
a loop invariant robust to carried state, add_control_target_to_dag (contracts/cmp_walk.py), the redundancy filters and the dispatch
of compare_circuits / circuit_is_isomorphic over an uninterpreted verdict (contracts/cmp_filters.py), the matcher callbacks on finite
tables (contracts/cmp_callbacks.py).  networkx's matcher itself and the GED methods are [B-only]/[N]."""
from __future__ import annotations

from vf.core import Deductive
from contracts import moves_static as MS


def deductive(tier="quick", seed=0):
    from pyvc.driver import run_tasks

    d = run_tasks(MS.c15_tasks())
    d.obligations.extend(MS.c15_obligations())
    for o in d.obligations:
        f = d.functions.setdefault(o.function, {"sha256": _sha(o.function), "tasks": ["static"], "obligations": 0, "discharged": 0,
                                                "solver_ms": 0.0, "paths": 0, "status": "F"})
        f["obligations"] += 1
        f["discharged"] += o.status == "discharged"
    d.trusted_base += [
        "[T-wire] a circuit DAG is determined by its per-register operation sequences",
        "[B-only] the wire walk of direct() over the two DAGs, circuit_is_isomorphic node/edge matching, remove_redundant_circuits, "
        "check_redundant_circuit, CircuitStorage",
    ]
    d.not_applicable_clauses += ["GED-based comparison methods (networkx optimisers with wall-clock timeouts)"]
    # walk of direct() as a loop invariant, add_control_target_to_dag, redundancy filters, dispatch, matcher callbacks:
    # contracts/cmp_walk.py, cmp_filters.py, cmp_callbacks.py (refuted obligations = recorded findings #1, #2: props/C15.findings.md)
    from contracts import cmp_walk

    d = cmp_walk.extend_deductive(d)
    return d


def _sha(q):
    from pyvc import source

    try:
        return source.sha_of(q)
    except Exception:  # noqa: BLE001
        return "unavailable"
