"""C17 - deductive part.

[F]  partial_trace: the einsum subscripts built by the REAL code for every ndim <= 8 and every non-empty subset keep
     (interpreted by pyvc with recorder contracts for reshape / np.einsum, cross-checked with a native capture) repeat the letter
     of traced subsystems and keep distinct row/column letters, in order, for kept ones (contracts/ptrace.py).
[P]  Infidelity.evaluate / TraceDistance.evaluate: dispatch on (target.rep_type, state.rep_type) for all 4 x 6 representation
     combinations x {default, symbolic log_steps}: right fidelity function on the right data, state converted on a COPY,
     returns 1-F (resp. T), log / counter, ValueError for unsupported targets (contracts/metrics.py).
[B-only]/[N]  spectral floating-point code: dmf.fidelity (pure shortcut and mixed Uhlmann branch), sqrtm_psd, trace_distance,
     is_psd / is_pure / is_density_matrix, negativity; sfm.fidelity (T-overlap); representation independence of the value.
"""
from __future__ import annotations

from pyvc.driver import run_tasks, merge
from contracts import ptrace as P, metrics as M


def deductive(tier="quick", seed=0):
    d1 = run_tasks(P.tasks(), kind="F")
    d2 = run_tasks(M.dispatch_tasks())
    d = merge(d1, d2)
    can = run_tasks(P.canary_tasks() + M.dispatch_canary_tasks())
    d.errors.extend(can.errors)
    d.canaries = M.canary_summary(can)
    d.inlined = sorted(M.INLINE)
    d.trusted_base += [
        "[A] np.einsum letter semantics (a letter repeated on one operand takes the diagonal; letters absent on the right are "
        "summed) and C-order reshape: with them the proved subscripts ARE Tr_{not keep}; the numerical contraction is [B]",
        "[A] QuantumState.copy = deepcopy; convert_representation converts the receiver in place, producing MixedStabilizer iff "
        "state.mixed (C08 contracts); sfm.fidelity / dmf.fidelity / dmf.trace_distance are abstract real-valued functions here",
        "[B-only]/[N] dmf.fidelity (pure shortcut + mixed branch), sqrtm_psd, hermitianize, trace_distance, is_psd, is_pure, "
        "is_density_matrix, negativity, bipartite_partial_transpose: LAPACK eigen-decompositions and float tolerances - no "
        "deductive contract can decide them; bounded/C17.py (T-uhl as specification)",
        "[B-only] partial_trace for keep=[] (python list): raises IndexError natively (float index array) - outside the "
        "contract's domain, see props/C17.findings.md",
    ]
    d.not_applicable_clauses += ["symmetry / range / Uhlmann value / Fuchs-van de Graaf for floating-point spectra (S3, [N])"]
    return d
