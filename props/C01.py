"""C01 - deductive part: index map + per-operation dispatch of both compilers (trace contracts), Stabilizer wrappers,
the tableau functions they call (C07 contracts) and the L3 bridge to textbook matrices."""
from __future__ import annotations

from pyvc.driver import run_tasks, merge
from contracts import tasks_stab as TS, compile_stab as CS, compile_dm as CD, stab_state as SS
from contracts.common import TABLEAU_ACCESSORS
from lemmas import pauli_tables, sums


def deductive(tier="quick", seed=0):
    Cs = CS.recorder_contracts()
    Cd = CD.contracts()
    Call = TS.all_contracts()
    d1 = run_tasks(CS.tasks(Cs))
    d2 = run_tasks(CD.tasks(Cd))
    from contracts import tasks_clifford as TC

    stab_tasks = SS.tasks(Call) + TS.gate_tasks(Call) + [t for t in TC.tasks(Call) if "z_measurement" in t.label or "reset_z" in t.label] \
        + [t for t in TS.linalg_tasks(Call)]
    d3 = run_tasks(stab_tasks)
    from contracts import compile_loop as CL

    d4 = run_tasks(CL.tasks())
    d = merge(d1, d2, d3, d4)
    d.obligations.extend(pauli_tables.obligations())
    d.obligations.extend(sums.prove_sum_ext())
    can = run_tasks(TS.canary_tasks(Call))
    d.errors.extend(can.errors)
    d.canaries = TS.canary_summary(can)
    d.inlined = sorted(TABLEAU_ACCESSORS | CS.INLINE)
    d.trusted_base += [
        "[T-stab] stabilizer generators determine the state; U g U^dagger stabilises U psi",
        "[T-meas] Aaronson-Gottesman measurement update",
        "[T-commute] operations on disjoint registers commute: every topological order of the circuit DAG denotes the same map",
        "[B-only] density_matrix/functions.py builders (get_one_qubit_gate, get_two_qubit_controlled_gate, projectors_zbasis, "
        "get_reset_qubit_kraus, create_n_product_state) and DensityMatrix.apply_unitary/apply_channel/apply_measurement denote the "
        "textbook operators: decided by the bounded stand-in only (tokens in the dispatch proof)",
        "[A] CircuitDAG.sequence(unwrapped=True) returns the operations in a topological order with wrappers expanded "
        "(its contract; C12/C20) - an abstract sequence in the proof of CompilerBase.compile; compile with an initial_state "
        "argument: bounded stand-in only",
    ]
    d.not_applicable_clauses += ["floating-point accuracy of the computed density matrix (S3)"]
    return d
