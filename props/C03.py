"""C03 - deductive part: height.py (leftmost_nontrivial_index, height_func_list, height_dict, height_max),
TimeReversedSolver.determine_n_emitters, and the FRAME contracts of stabilizer.rref / one_step_rref / _process_*_pauli
(what rref's output IS - same group, echelon shape - stays bounded-only, see trusted_base)."""
from __future__ import annotations

import time

from pyvc.driver import run_tasks
from vf.core import Obl
from contracts import tasks_stab as TS, stab_height as SH, stab_rref as SR, stab_tableau as ST
from contracts.common import TABLEAU_ACCESSORS
from lemmas import sums, filters


def _native_height_canary():
    """the off-by-one canary of height_func_list has no replayable counter-model (the echelon tableau is internal): its
    formula is evaluated natively, with the REAL rref and leftmost_nontrivial_index, against the real height_func_list"""
    import numpy as np
    import graphiq.backends.stabilizer.functions.height as H
    from graphiq.backends.stabilizer.functions.stabilizer import rref
    from graphiq.backends.stabilizer.tableau import StabilizerTableau

    n = 3
    x, z = np.eye(n, dtype=int), np.array([[0, 1, 0], [1, 0, 1], [0, 1, 0]])  # path graph 0-1-2
    real = H.height_func_list(x, z)
    E = rref(StabilizerTableau([x, z]))
    lm = [int(H.leftmost_nontrivial_index(E, i)) for i in range(n)]
    contract = [n - (k + 1) - sum(1 for v in lm if v > k) for k in range(n)]
    canary = [n - k - sum(1 for v in lm if v > k) for k in range(n)]
    hd = H.height_dict(x_matrix=x, z_matrix=z)
    hm = H.height_max(x_matrix=x, z_matrix=z)
    from graphiq.solvers.time_reversed_solver import TimeReversedSolver

    ne = TimeReversedSolver.determine_n_emitters(StabilizerTableau([x, z]))
    return dict(input="path graph 0-1-2", real=[int(v) for v in real], contract=contract, canary=canary,
                height_dict={int(k): int(v) for k, v in hd.items()}, height_dict_contract={**{-1: 0}, **{k: contract[k] for k in range(n)}},
                height_max=int(hm), height_max_contract=max([0] + contract), height_max_canary=min([0] + contract),
                n_emitters=int(ne), n_emitters_contract=max(contract), n_emitters_canary=contract[-1])


def deductive(tier="quick", seed=0):
    C = TS.all_contracts()
    d = run_tasks(SH.tasks(C) + SR.tasks(C) + [t for t in ST.tasks(C) if 'insert' not in t.label])
    d.obligations.extend(filters.prove_filter())
    d.obligations.extend(sums.prove_sum_ext())
    can = run_tasks(SH.canary_tasks(C) + SR.canary_tasks(C) + [t for t in ST.canary_tasks(C) if 'insert' not in t.label])
    d.errors.extend(can.errors)
    d.canaries = TS.canary_summary(can)
    t0 = time.time()
    try:
        rep = _native_height_canary()
        good = rep["real"] == rep["contract"] and rep["height_dict"] == rep["height_dict_contract"] \
            and rep["height_max"] == rep["height_max_contract"] and rep["n_emitters"] == rep["n_emitters_contract"]
        for c in d.canaries:
            if "height_func_list" in c["name"]:
                c["replayed"] = bool(good and rep["real"] != rep["canary"])
                c["native_replay"] = rep
            elif "height_dict" in c["name"]:
                c["replayed"] = bool(good and rep["height_dict"][-1] != 1)
            elif "height_max" in c["name"]:
                c["replayed"] = bool(good and rep["height_max"] != rep["height_max_canary"])
            elif "determine_n_emitters" in c["name"]:
                c["replayed"] = bool(good and rep["n_emitters"] != rep["n_emitters_canary"])
        d.obligations.append(Obl(name="height_func_list.native-formula-cross-check", function=SH.HFL, kind="F", backend="exact",
                                 status="discharged" if good else "refuted", ms=(time.time() - t0) * 1000, detail="" if good else str(rep),
                                 clause="one native evaluation (path graph, n=3): real height_func_list / height_dict / height_max / "
                                        "determine_n_emitters == the contract formulas over the real rref / leftmost indices (sanity check "
                                        "of the spec functions and replay of the canaries whose echelon tableau is internal; not a proof)",
                                 witness=None if good else rep, replayed=not good))
    except Exception as e:  # noqa: BLE001
        d.notes.append(f"native replay of the height canary failed: {type(e).__name__}: {e}")
    for c in d.canaries:
        if c["refuted"] and not c["replayed"]:
            d.notes.append(f"canary {c['name']} refuted (frame contract over havoc'd contents: no input-dependent counter-model to replay)")
    d.inlined = sorted(set(TABLEAU_ACCESSORS) | {"graphiq.backends.stabilizer.tableau:StabilizerTableau.__init__"})
    d.trusted_base += [
        "[T-entropy] for a tableau in echelon gauge, n - (k+1) - #{i : leftmost(i) > k} is the entanglement entropy of the cut after "
        "qubit k (and the graph-state rank corollary)",
        "[P, frame only] stabilizer.rref / one_step_rref / _process_one_pauli / _process_two_pauli (contracts/stab_rref.py): argument "
        "object returned, n x 2n bits, pivot arithmetic, every row operation / finder call within its precondition, the internal "
        "assert 'row operations failed' cannot fire; the while loop by havoc + invariant (partial correctness)",
        "[B-only] rref / one_step_rref: (a) group preservation, (b) echelon shape, (c) termination (DESIGN C03); gauge independence of "
        "the height function; height_dict(graph=...) (networkx conversion, node order); relabel_module.emitter_sorted; 'each photon is "
        "emitted exactly once' in TimeReversedSolver.solve",
        "[A] Python list comprehension with a filter over a symbolic-length list = filtered enumeration (pyvc/symlist.py, lemma "
        "FILTER); max() of a symbolic-length list / dict = first maximal entry; np.nonzero (pyvc/nzseq.py)",
        "[L2] FILTER, SUM_EXT proved in this run",
    ]
    d.not_applicable_clauses += [
        "the height function equals the bipartite entanglement entropy, independently of the generating set: T-entropy + rref (a),(b) "
        "[bounded stand-in]",
        "the deterministic solver emits each photon exactly once [bounded stand-in]",
    ]
    d.notes.append("determine_n_emitters overwrites the caller's tableau (rref works in place) - frame clause of its contract")
    return d
