"""C20 - deductive part: the single-qubit Clifford library (graphiq/circuit/ops.py) is complete, closed and consistently ordered.

[P] (pyvc, REAL bodies): OneQubitGateWrapper.unwrap (+ the constructors it runs through) for every gate list of length 1..3
    over the seven one-qubit classes x both register types, a stride sample of length-4 lists (all of them at tier thorough)
    and every library list in all four noise variants - symbolic register number;
    local_clifford_to_matrix_map: loop invariant by induction for a word of symbolic length; find_local_clifford_by_matrix:
    first-accepted-candidate dispatch over the 24 library pairs; simplify_local_clifford; the enumeration functions.
[F] (lemmas/clifford_group.py): complete finite domains evaluated on the real code, exact arithmetic in Q(i, sqrt2) -
    see that module's docstring for what is exact and where float tolerance enters.
Chain of the property statement:
    any word w over {I,H,P,X,Y,Z}  --[P loop invariant]-->  M(w) = g1 @ ... @ gk  --[F G192 invariance, induction]-->  in G192
    --[F find.all-192 + gap]-->  find returns the library list L with M(L) ~ M(w); non-Clifford input: [P] raises iff all 24
    candidates are rejected + [F] rejection on the exact double coset C.T.C.
    wrapper: [P] unwrap = reversed list on the same register; both compilers consume sequence(unwrapped=True) (C01) and
    L3.dm.matrices / L3.conj.* (lemmas/pauli_tables.py) tie each base gate to the same 2x2 matrix in both backends.
"""
from __future__ import annotations

from pyvc.driver import run_tasks
from contracts import ops_clifford as OC
from lemmas import clifford_group, pauli_tables


def deductive(tier="quick", seed=0):
    d = run_tasks(OC.all_tasks(tier))
    for o in clifford_group.obligations(tier):
        d.obligations.append(o)
    # the base gates denote the same matrices in both backends (shared with C01/C07)
    d.obligations.extend(o for o in pauli_tables.obligations() if o.name.startswith("L3.conj.") and o.name.split(".")[-1] in
                         ("hadamard_gate", "phase_gate", "x_gate", "y_gate", "z_gate") or o.name == "L3.dm.matrices")
    can = run_tasks(OC.canary_tasks())
    d.errors.extend(can.errors)
    d.canaries = OC.canary_summary(can)
    for c in d.canaries:
        if c["refuted"] and not c["replayed"]:
            d.notes.append(f"canary {c['name']} refuted, counter-model not replayed")
    d.inlined = sorted(OC.INLINE_OPS)
    d.trusted_base += [
        "[T-matmul] numpy `@` on 2x2 complex arrays is the associative matrix product with unit eye(2) (abstract sort in the [P] part)",
        "[T-clifford-24] the single-qubit Clifford group modulo phase has exactly 24 elements (used only to read "
        "'24 pairwise inequivalent Cliffords' as 'complete')",
        "[F-lift] the five dmf generator matrices are read once as floats and lifted to Q(i,sqrt2) (2 ulp, obligation C20.F.generators)",
        "[S3-float] find_local_clifford_by_matrix/check_equivalent_unitaries on float inputs: evaluated on the complete finite "
        "domains; for other float inputs within 1e-3 of G192 the verdict follows from the exact gap lemma assuming IEEE error "
        "< 1e-3 on a 2x2 product/quotient",
        "[A] CircuitDAG.sequence(unwrapped=True) expands wrappers with unwrap() (C12/C01); both compilers consume that sequence",
        "[B-only] check_equivalent_unitaries / is_unitary on general (non-G192) matrices; compiled states of the 24 wrappers "
        "in both backends (bounded stand-in /verif/bounded/C20.py)",
    ]
    d.not_applicable_clauses += [
        "np.allclose / np.nonzero / complex division inside check_equivalent_unitaries are not interpreted symbolically "
        "(no complex-float theory in pyvc): [F] on complete finite domains + exact gap lemma instead",
        "unwrap for gate lists longer than 5 and parameterised rotation classes inside wrappers: not enumerated (the body is "
        "uniform in the list: one comprehension over range(len(operations)))",
    ]
    return d
