"""C09 - deductive part (contracts/lc_equiv.py, lemmas/lc_tables.py, lemmas/matsum.py).

[P] local_comp_graph: adj'[j,k] = adj[j,k] xor (adj[j,v] and adj[v,k]) for j != k, diagonal 0 (symbolic n, every simple graph,
    every vertex); corollaries of the contract: involution, "an entry changes iff j != k are both neighbours of v", result
    is a simple graph.  _is_valid_clifford: True iff every 2x2 block has odd a d + b c (symbolic n).  _coeff_maker: row n j + k
    encodes equation (j,k) (three nested loop invariants, symbolic n).
    Graph.local_complementation (contracts/graph_lc.py): the networkx edge-set implementation realises the SAME rule, for
    copy=False (in place, returns self) and copy=True (copy changed, self untouched); the loop over
    itertools.combinations(neighbours, 2) of a symbolic-length neighbour list by a pair-loop invariant (init/step/wrap/exit).
[F] local_clifford_ops: name <-> matrix table over all 16 binary 2x2 blocks against the textbook H, P (exact).
[B-only]/[N] - NOT covered by any obligation here:
    is_lc_equivalent as a whole: soundness of "yes" needs row_reduction's null-space preservation and the assert in
      _solution_basis_finder (certificate) - not brought under contract in this round; completeness ("never a false no") is a
      theorem about the b+b' search shortcut, known to FAIL on the unchanged tree for disconnected graphs (DESIGN §7 item 13);
    _solution_basis_finder / _vec_solution_finder / _random_checker: np.linalg.inv in floating point then `% 2` - [N] for
      deduction (float GF(2) inverse);
    _col_finder (pivot walk with break), lc_graph_operations / _R_matrix / _apply_f / _singles / _doubles / _condition
      (R-matrix reduction: algorithmic theorem of Van den Nest et al., while-loops without a known variant);
    Graph.lc_equivalent / Graph.is_graph_state's LC bookkeeping (the Graph is assumed to hold a graph state);
    local_cliff_equi_check.py: that the assembled gates map state 1 onto state 2 (needs the three facts above) - bounded only.
[P] gate-list assembly of local_cliff_equi_check.py (contracts/lc_gate_lists.py, pyvc/gateseq.py):
    lc_check: returned list == gates1 + converter gates + inverse(gates2) with inverse = REVERSED order and every gate inverted
      (H, Z, X, I self-inverse, P_dag <-> P) for gate lists of symbolic length over the whole six-letter alphabet (MAP rule: complete
      case split per element, induction over the length) - any re-ordering (sort), missing reversal, wrong inverse table or segment
      order fails `post.total.*` and is replayed on the real code; (False, []) when the converter raises; validate=True validates the
      returned list on a copy of tab1 against canonical(tab2).
    converter_gate_list [F: 36 word pairs x 4 corrections, n = 2]: per qubit the local-Clifford word in reversed word order, then the
      sign repair computed for exactly that list; is_lc_equivalent(adj(g1), adj(g2)) in this order.
    str_to_op [F: 6 names], state_converter_circuit [trace, validate=False]: one operation per gate of lc_check's list, in order.
    linalg._row_red_one_step / row_reduction (contracts/row_reduction.py): X and the companion matrix are transformed in lockstep by
      row_swap / add_rows only (same rows, add_rows source != target) - the null space / row space is preserved step by step.
"""
from __future__ import annotations

from pyvc.driver import run_tasks
from contracts import lc_equiv as L
from contracts import graph_lc as GL
from contracts import tasks_stab as TS
from lemmas import matsum, lc_tables


def deductive(tier="quick", seed=0):
    from contracts import lc_rmatrix as RMX
    from contracts import lc_gate_lists as LGL, row_reduction as RRM
    from lemmas import gateseq_checks

    d = run_tasks(L.tasks() + GL.tasks() + RMX.tasks() + LGL.tasks() + RRM.tasks())
    gateseq_checks.attach(d, seed)
    d.obligations.extend(matsum.prove_sum_support2())
    d.obligations.extend(lc_tables.obligations())
    from lemmas import model_checks

    model_checks.attach(d, seed)
    can = run_tasks(L.canary_tasks() + GL.canary_tasks() + LGL.canary_tasks() + RRM.canary_tasks()[1:])
    d.errors.extend(can.errors)
    d.canaries = TS.canary_summary(can) + [matsum.canary()]
    for c in d.canaries:
        if c["refuted"] and not c["replayed"]:
            d.notes.append(f"canary {c['name']} refuted, counter-model not replayed")
    d.inlined = sorted(GL.INLINE)
    d.trusted_base += [
        "[T-lc] LC-equivalence of graph states <=> solvability of S^T Q^T P S' = 0 with invertible blocks; LC orbit = orbit under "
        "local complementation (Van den Nest, Dehaene, De Moor)",
        "[A] networkx <-> numpy conversions (contracts/nxmodel.py): to_numpy_array gives the adjacency in node order 0..n-1, "
        "to_networkx_graph of a square symmetric 0/1 zero-diagonal matrix is the simple graph with that adjacency (the four "
        "conditions are proved for the matrix local_comp_graph hands over)",
        "[A] matrix-product reading of numpy `@`; closed forms by L2 SUM_SUPPORT2 (proved every run)",
        "[B-only] is_lc_equivalent (soundness chain and completeness), _solution_basis_finder, _vec_solution_finder, "
        "_random_checker, _col_finder, lc_graph_operations and helpers; local_cliff_equi_check.py: only the gate-list ASSEMBLY is [P] "
        "(contracts/lc_gate_lists.py), that the gates map state 1 onto state 2 is bounded",
        "[A] networkx edge-level API on the abstract graph (has_node, has_edge, add_edge, remove_edge, neighbors as a duplicate-free "
        "enumeration of the adjacent nodes) and itertools.combinations(l, 2) in lexicographic position order",
    ]
    d.trusted_base += LGL.TRUSTED + RRM.TRUSTED
    d.assumptions += [
        "_R_matrix: adjacency n x n, solution n x 2 x 2 (shapes from its only call site); dtype of the adjacency input int or float "
        "(both checked: np.asarray / in-place arithmetic alias differently)",
        "local_comp_graph: the input is a simple graph on nodes 0..n-1 (symmetric 0/1 adjacency, zero diagonal) and 0 <= v < n",
        "_coeff_maker: both arguments are n x n integer matrices; decoding of a row number uses z3's Euclidean div/mod",
        "Graph.local_complementation: the Graph holds a graph state on nodes 0..n-1 (is_graph_state returns True), 0 <= node_id < n",
    ]
    d.not_applicable_clauses += [
        "completeness of the LC test (never a false 'no'): theorem about the search, bounded only - known finding on the unchanged tree",
        "float GF(2) inverse (np.linalg.inv ... % 2) in _solution_basis_finder/_vec_solution_finder: [N]",
        "the returned local-complementation sequence transforms graph 1 into graph 2 (lc_graph_operations): bounded only",
    ]
    return d
