"""C11 - deductive part: trace consistency of stabilizer.inverse_circuit (clause (a)), transformation.run_circuit (every gate
name x reverse, and the general list by trace induction), the row operations / finders it uses, canonical_form's frame
contract and the dispatch of rep_conversion.clifford_from_stabilizer.  Clause (b) - the synthesised circuit maps the state
to |0..0> - is NOT proved: it is false on the unchanged tree for some states with n >= 5 (bounded/C11.findings.md F1)."""
from __future__ import annotations

import time

from pyvc.driver import run_tasks, merge
from vf.core import Obl
from contracts import tasks_stab as TS, stab_tableau as ST, stab_circuit as SC, stab_inverse as SI
from contracts.common import TABLEAU_ACCESSORS
from lemmas import sums, filters


def deductive(tier="quick", seed=0):
    C = TS.all_contracts()
    tasks = ST.tasks(C) + SC.concrete_tasks(C) + SC.trace_tasks() + SI.canon_tasks(C) + SI.invc_tasks(C) + SI.cfs_tasks()
    d = run_tasks(tasks)
    d.obligations.extend(filters.prove_filter())
    d.obligations.extend(sums.prove_sum_ext())
    can = run_tasks(ST.canary_tasks(C) + SC.canary_tasks(C) + SC.trace_canaries() + SI.canary_tasks(C) + SI.canon_canaries(C) + SI.cfs_canaries())
    d.errors.extend(can.errors)
    d.canaries = TS.canary_summary(can)
    # the lockstep canary has no counter-MODEL to replay (a trace property): its wrong relation is contradicted by an
    # instrumented run of the real function instead
    t0 = time.time()
    try:
        rep = SI.canary_native_replay()
        ok = rep["contract_relation_holds"] and not rep["canary_relation_holds"]
        for c in d.canaries:
            if c["name"].startswith("canary.inverse_circuit"):
                c["replayed"] = bool(ok)
                c["native_replay"] = rep
        d.obligations.append(Obl(name="inverse_circuit.native-trace-cross-check", function=SI.INVC, kind="F", backend="exact",
                                 status="discharged" if rep["contract_relation_holds"] else "refuted", ms=(time.time() - t0) * 1000,
                                 detail="" if rep["contract_relation_holds"] else str(rep),
                                 clause="one instrumented run of the real inverse_circuit (path graph state, n=3): circuit_list equals the "
                                        "recorded top-level gate calls (sanity check of the recorder set-up; not part of the proof)",
                                 witness=None if rep["contract_relation_holds"] else rep, replayed=not rep["contract_relation_holds"]))
    except Exception as e:  # noqa: BLE001
        d.notes.append(f"native replay of the lockstep canary failed: {type(e).__name__}: {e}")
    for c in d.canaries:
        if c["refuted"] and not c["replayed"]:
            d.notes.append(f"canary {c['name']} refuted" + (" (dispatch/trace contract: no input-dependent counter-model to replay)"
                                                            if "any-list" in c["name"] or "clifford_from" in c["name"] else ", counter-model not replayed"))
    d.inlined = sorted(TABLEAU_ACCESSORS)
    d.trusted_base += [
        "[T-stab] n independent commuting Pauli generators stabilise a unique state; U g U^dagger stabilises U psi",
        "[C07] the gate contracts of transformation.py (hadamard/phase/phase_dagger/x/y/z/cnot/control_z: per-row conjugation rules, "
        "frame, 'returns its argument') are proved in C07 and used here through their contracts",
        "[L2] lemma FILTER (lemmas/filters.py) and SUM_EXT (lemmas/sums.py): proved by explicit induction in this run; applied by the "
        "harness (premises are obligations)",
        "[rule] pyvc/invloop.py: Hoare rule havoc+invariant with syntactic heap frame check, and its lockstep extension (induction "
        "over the trip count; nested loops as matched markers) - the soundness argument is in the module docstring",
        "[B-only] clause (b): inverse_circuit's output tableau is |0..0> (X = 0, Z = I, signs 0).  FALSE on the unchanged tree for "
        "some states with n >= 5 (first Hadamard block advances its pivot row on every column): bounded/C11.findings.md F1; no "
        "deductive obligation depends on it",
        "[B-only] canonical_form: group preservation, canonical shape, dependence on the state only (DESIGN C05 (a)-(c)); here only its "
        "frame contract (returns its argument, n x 2n bits, in-bounds row operations, only abrupt exit = independence assert)",
        "[B-only] get_clifford_tableau_from_graph / get_stabilizer_tableau_from_graph (networkx), CliffordTableau.__init__ on a "
        "StabilizerTableau (delegates to clifford_from_stabilizer, whose dispatch is proved)",
    ]
    d.not_applicable_clauses += [
        "clause (b) 'the returned circuit maps the state to |0...0> with all signs positive' and hence 'running it backwards "
        "reproduces the state': decided by the bounded stand-in only (known finding C11-F1 for n >= 5)",
    ]
    d.notes.append("frame facts proved: inverse_circuit works IN PLACE on its argument (the argument object is returned, overwritten); "
                   "run_circuit(reverse=True) reverses the caller's list in place (bounded/C11.findings.md O1, O2)")
    # group preservation step by step (inverse_circuit, canonical_form), first Hadamard block (last Z candidate), per-step contracts of
    # the later blocks, exhaustive n <= 3 with the circuit replayed gate by gate: contracts/stab_group.py.  Clause (b) stays unproved.
    from contracts import stab_group

    d = stab_group.extend_deductive(d, C)
    return d
