"""C05 - deductive part: the row operations and Pauli finders of stabilizer.py, row_sum / g_function (linalg.py), tableau
and state equality, the metric.py wrappers, canonical_form's frame contract, and the dispatch + loop safety of
metric.inner_product.  What stays bounded-only is listed in trusted_base / not_applicable_clauses."""
from __future__ import annotations

from pyvc.driver import run_tasks
from contracts import tasks_stab as TS, stab_tableau as ST, stab_inverse as SI, stab_metric as SM
from contracts.common import TABLEAU_ACCESSORS, LINALG
from lemmas import sums, filters, pauli_tables


def deductive(tier="quick", seed=0):
    C = TS.all_contracts()
    lin = [t for t in TS.linalg_tasks(C) if t.qual in (f"{LINALG}:row_sum", f"{LINALG}:g_function", f"{LINALG}:row_swap")]
    tasks = lin + ST.tasks(C) + SI.canon_tasks(C) + SM.eq_tasks(C) + SM.tostab_tasks(C) + SM.dispatch_tasks() + SM.ip_tasks(C)
    d = run_tasks(tasks)
    d.obligations.extend(o for o in pauli_tables.obligations() if o.name == "L3.g.table")
    d.obligations.extend(sums.prove_sum_ext())
    d.obligations.extend(filters.prove_filter())
    can = run_tasks(ST.canary_tasks(C) + SM.eq_canaries(C) + SM.tostab_canaries(C) + SI.canon_canaries(C) + SM.dispatch_canaries(C))
    d.errors.extend(can.errors)
    d.canaries = TS.canary_summary(can)
    for c in d.canaries:
        if c["refuted"] and not c["replayed"]:
            d.notes.append(f"canary {c['name']} refuted (dispatch/trace contract: no input-dependent counter-model to replay)")
    d.inlined = sorted(set(TABLEAU_ACCESSORS) | SM.INLINE_STATE | {"graphiq.backends.stabilizer.tableau:StabilizerTableau.__init__"})
    d.trusted_base += [
        "[T-overlap] |<a|b>|^2 of two stabilizer states from the canonical form of U_a^-1 |b> (2^-k or 0); symmetry and '=1 iff same "
        "state' follow from the theorem, not from the code",
        "[T-rref] the canonical form is a function of the stabilizer group (and its signs) only",
        "[T] commuting generators => the g-exponent of their product is even, so tab_row_sum (which drops the iphase) yields the signed "
        "Pauli product; the contract states exactly what the code computes: ((2 r_t + 2 r_a + sum g) mod 4) div 2",
        "[L2] FILTER (lemmas/filters.py), SUM_EXT (lemmas/sums.py); [L3] g table (lemmas/pauli_tables.py)",
        "[rule] pyvc/invloop.py (havoc + invariant, early return from an arbitrary iteration)",
        "[B-only] canonical_form: (a) group preservation, (b) canonical shape, (c) uniqueness - only its frame contract is proved "
        "(returns its argument; n x 2n bits; every tab_row_swap / tab_row_sum / finder call within its precondition; only abrupt "
        "exit = the independence assert)",
        "[B-only] the VALUE of metric.inner_product / fidelity (counter of X rows, sign test): it presupposes clause (b) of C11 "
        "(inverse_circuit yields |0..0>), which is false for some states with n >= 5 (bounded/C11.findings.md F1, bounded/C05.findings.md "
        "F1); proved here: the dispatch (which circuit is run on which copy, forward), in-bounds row_sum calls with their "
        "precondition, the result is 0 (sign test) or 2**(-counter/2) with 0 <= counter <= n",
        "[B-only] Stabilizer.__eq__ / canonical-form equality <=> same state (needs canonical_form (a)-(c)); proved: it IS the tableau "
        "equality of the two canonical forms, and tableau equality is exact in both directions (signs included)",
        "[B-only] graphiq.metrics.Infidelity.evaluate",
    ]
    d.not_applicable_clauses += [
        "fidelity equals |<a|b>|^2, is symmetric, equals 1 exactly for equal states: T-overlap + C11 (b) [bounded stand-in; known "
        "finding for n >= 5]",
        "the canonical form depends only on the state: T-rref + canonical_form (a),(b) [bounded stand-in]",
    ]
    # canonical_form (a) group preservation, step by step: contracts/stab_group.py (G)
    from contracts import stab_group

    d = stab_group.extend_deductive(d, C, with_inverse=False)
    return d
