"""C14 - deductive part: exporting a circuit and importing it back (JSON path and token-level openQASM emission).

[P] (pyvc, REAL bodies, symbolic register numbers; contracts/export.py):
    OpenQASMInfo.use_gate + every usage closure (statement = standard gate name on the right registers, token level);
    single_qubit_wrapper_info (definition read with openQASM 2.0 reference semantics vs. the wrapper's unitary - C20);
    CircuitDAG.to_json per operation kind; CircuitDAG.from_json o to_json per operation kind x register-type mix;
    CircuitBase.to_openqasm emission loop by induction over an abstract sequence();
    CircuitDAG.replace_op on graph fragments (contracts/dag.py): `_openqasm_update(new_operation)` is called exactly once for the NEW
    operation whatever the classes of old and new operation (a wrapper replaced by a wrapper with other gates needs a new definition).
[F] JSON name tables over all op classes; gate definitions denote the standard matrices (exact); statements on a grid of
    concrete register numbers (differential check of the f-string token model).
[N] CircuitDAG.from_openqasm (regex / slicing / int() text parser) - bounded stand-in only.
Refuted obligations on the unchanged tree are genuine defects: props/C14.findings.md.
"""
from __future__ import annotations

from pyvc.driver import run_tasks
from contracts import export as EX


def deductive(tier="quick", seed=0):
    from contracts import dag as D

    # replace_op keeps the header tables (openqasm_imports / defs / symbols) in step with the operations: the emission-loop contract
    # below ASSUMES every operation in sequence() went through _openqasm_update (add / insert_at: C12's tasks; replace_op: here)
    tasks = (EX.usage_tasks() + EX.wrapper_tasks() + EX.to_json_tasks() + EX.roundtrip_tasks() + EX.emission_tasks()
             + D.replace_tasks())
    d = run_tasks(tasks)
    d.obligations.extend(EX.finite_obligations())
    can = run_tasks(EX.canary_tasks())
    d.errors.extend(can.errors)
    from contracts.ops_clifford import canary_summary

    d.canaries = canary_summary(can)
    for c in d.canaries:
        if c["refuted"] and not c["replayed"]:
            d.notes.append(f"canary {c['name']} refuted, counter-model not replayed")
    d.inlined = sorted(EX.INLINE)
    d.trusted_base += [
        "[A-fstring] f\"{n}\" renders an int as its decimal numeral; token strings compare structurally (pyvc/tokstr.py); "
        "differentially checked against native text on a grid of register numbers (C14.F.openqasm.statements-on-a-grid...)",
        "[T-qasm2] openQASM 2.0 semantics of gate bodies (statements top to bottom, U(theta,phi,lambda), CX) as written in "
        "lemmas/qasm_exact.py from the language specification",
        "[A] CircuitDAG.__init__/add/sequence and the register-count properties are abstract (recorders / ghost fields) in the "
        "JSON and emission tasks: their contracts belong to C12 (every wire sees the operations in add order)",
        "[B-only] from_openqasm(to_openqasm(C)) textual round trip; compiled-state equality after a round trip; whole-circuit "
        "JSON round trip through the real CircuitDAG (bounded stand-in /verif/bounded/C14.py)",
    ]
    d.not_applicable_clauses += [
        "[N] CircuitDAG.from_openqasm: regex / string slicing / int() decoding of text is outside the accepted subset "
        "(SMT string-to-int reasoning undecided in z3 and cvc5): no deductive obligation is claimed for it",
        "parameterised rotations (RX/RY/RZ/U3/CU3) are outside the property's quantifier",
        "to_openqasm header: register declarations are checked for fixed small register counts (2 photons, 1 emitter, 1 classical)",
    ]
    return d
