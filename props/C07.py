"""C07 - deductive part: contracts on linalg.py / transformation.py / clifford.py, L3 conjugation tables."""
from __future__ import annotations

from pyvc.driver import run_tasks, merge
from vf.core import Deductive
from contracts import tasks_stab as TS
from contracts.common import TABLEAU_ACCESSORS
from lemmas import pauli_tables


def deductive(tier="quick", seed=0):
    C = TS.all_contracts()
    tasks = TS.linalg_tasks(C) + TS.gate_tasks(C)
    try:
        from contracts import tasks_clifford as TC

        tasks += TC.tasks(C)
    except ImportError:
        pass
    d = run_tasks(tasks)
    d.obligations.extend(pauli_tables.obligations())
    from lemmas import sums

    d.obligations.extend(sums.prove_sum_ext())
    from lemmas import symplectic

    d.obligations.extend(symplectic.obligations())
    can = run_tasks(TS.canary_tasks(C))
    d.errors.extend(can.errors)
    d.canaries = TS.canary_summary(can)
    for c in d.canaries:
        if c["refuted"] and not c["replayed"]:
            d.notes.append(f"canary {c['name']} refuted, counter-model not replayed")
    d.inlined = sorted(TABLEAU_ACCESSORS)
    d.trusted_base += [
        "[T-stab] n independent commuting Pauli generators stabilise a unique state; U g U^dagger stabilises U psi",
        "[T-meas] Aaronson-Gottesman Z-measurement update (quant-ph/0406196 sec. III)",
    ]
    return d
