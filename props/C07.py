"""C07 - deductive part: contracts on linalg.py / transformation.py / clifford.py, L3 conjugation tables."""
from __future__ import annotations

from pyvc.driver import run_tasks, merge
from vf.core import Deductive
from contracts import tasks_stab as TS
from contracts.common import TABLEAU_ACCESSORS
from lemmas import pauli_tables


def deductive(tier="quick", seed=0):
    C = TS.all_contracts()
    tasks = TS.linalg_tasks(C) + TS.gate_tasks(C)
    try:
        from contracts import tasks_clifford as TC

        tasks += TC.tasks(C)
        tasks += TC.shrink_grow_tasks(C, tier)
        from contracts import stab_state as SS

        tasks += SS.shrink_tasks(C)
    except ImportError:
        pass
    from contracts import tableau_ctor as TCT

    tasks += TCT.tasks()  # constructors: values stored in fresh buffers (a tableau never shares storage with the arrays it was built from)
    d = run_tasks(tasks)
    d.obligations.extend(pauli_tables.obligations())
    from lemmas import sums

    d.obligations.extend(sums.prove_sum_ext())
    from lemmas import symplectic

    d.obligations.extend(symplectic.obligations())
    can = run_tasks(TS.canary_tasks(C) + TCT.canary_tasks())
    d.errors.extend(can.errors)
    d.canaries = TS.canary_summary(can)
    for c in d.canaries:
        if c["refuted"] and not c["replayed"]:
            d.notes.append(f"canary {c['name']} refuted, counter-model not replayed")
    d.inlined = sorted(TABLEAU_ACCESSORS)
    d.trusted_base += [
        "[T-stab] n independent commuting Pauli generators stabilise a unique state; U g U^dagger stabilises U psi",
        "[T-meas] Aaronson-Gottesman Z-measurement update (quant-ph/0406196 sec. III)",
        "[T-basis] in a valid tableau, if no stabilizer row has X on qubit q then some destabilizer row has (rows form a symplectic "
        "basis; linear algebra not derived here) - input assumption of remove_qubit's task; makes `omit` well defined",
        "[T-discard] measuring qubit q in Z and dropping it leaves, on the other qubits, the generators restricted to them with the "
        "sign flipped where they carried Z on a qubit left in |1>",
    ]
    return d
