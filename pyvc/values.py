"""Symbolic values of the pyvc executor.

Object references are concrete Python objects (allocation sites are finite per path); numeric contents are z3 terms.
numpy arrays are `NDArr` views over a mutable `Store` whose contents are an index -> term *closure* (DESIGN §2.2 bitmat):
reads through a view are lazy (they see later writes to the base, like numpy views); arithmetic / astype / fancy-get
results snapshot the current closures into a fresh Store (like numpy copies).
"""
from __future__ import annotations

import z3

IntS = z3.IntSort()


def is_sym(v):
    return isinstance(v, z3.ExprRef)


def to_z3(v):
    if isinstance(v, z3.ExprRef):
        return v
    if isinstance(v, bool):
        return z3.BoolVal(v)
    if isinstance(v, int):
        return z3.IntVal(v)
    if isinstance(v, float):
        if v == int(v):
            return z3.RealVal(int(v))
        return z3.RealVal(repr(v))
    import numbers

    if isinstance(v, numbers.Integral):
        return z3.IntVal(int(v))
    if isinstance(v, numbers.Real):
        return to_z3(float(v))
    raise TypeError(f"to_z3: {type(v)}")


def as_int_term(v):
    """numeric z3 term (Bool -> 0/1)"""
    t = to_z3(v)
    if z3.is_bool(t):
        return z3.If(t, z3.IntVal(1), z3.IntVal(0))
    return t


def simp(t):
    return z3.simplify(t) if isinstance(t, z3.ExprRef) else t


def concrete_int(v):
    """python int if the value is (or simplifies to) a literal integer, else None"""
    if isinstance(v, bool):
        return int(v)
    if isinstance(v, int):
        return v
    if isinstance(v, float) and v == int(v):
        return int(v)
    if isinstance(v, z3.ExprRef):
        s = z3.simplify(v)
        if z3.is_int_value(s):
            return s.as_long()
        if z3.is_rational_value(s) and s.denominator_as_long() == 1:
            return s.numerator_as_long()
    return None


class Store:
    """mutable buffer: ndim, shape (tuple of python ints / z3 Int terms), f(*idx) -> z3 term"""

    _n = 0

    def __init__(self, ndim, shape, f, label="arr", bits=False):
        self.ndim = ndim
        self.shape = tuple(shape)
        self.f = f
        self.label = label
        Store._n += 1
        self.id = Store._n
        self.dtype = None  # "int" | "float" | None (unknown): only schema inputs carry one; decides np.asarray(x, dtype=..) aliasing


class NDArr:
    """A view: per store axis either ('fix', idx) or ('var', local_axis, offset); local shape."""

    def __init__(self, store, axes=None, shape=None):
        self.store = store
        if axes is None:
            axes = tuple(("var", k, 0) for k in range(store.ndim))
            shape = store.shape
        self.axes = tuple(axes)
        self.shape = tuple(shape)
        self.ndim = len(self.shape)

    # -- element access -------------------------------------------------------------------
    def _store_index(self, idx):
        out = []
        for ax in self.axes:
            if ax[0] == "fix":
                out.append(ax[1])
            else:
                out.append(idx[ax[1]] + ax[2] if not _is_zero(ax[2]) else idx[ax[1]])
        return tuple(out)

    def get(self, *idx):
        assert len(idx) == self.ndim, (idx, self.ndim)
        return self.store.f(*self._store_index(idx))

    def reader(self):
        """snapshot reader: closure over the *current* contents (numpy copy semantics)"""
        f0 = self.store.f
        axes = self.axes

        def rd(*idx):
            out = []
            for ax in axes:
                if ax[0] == "fix":
                    out.append(ax[1])
                else:
                    out.append(idx[ax[1]] + ax[2] if not _is_zero(ax[2]) else idx[ax[1]])
            return f0(*out)

        return rd

    def snapshot(self, label=None):
        return NDArr(Store(self.ndim, self.shape, self.reader(), label or self.store.label + "'"))

    # -- writes ---------------------------------------------------------------------------
    def region_and_inverse(self, sidx):
        """for a store index tuple: (condition 'lies in this view', local index tuple)"""
        conds = []
        local = [None] * self.ndim
        for s, ax in zip(sidx, self.axes):
            if ax[0] == "fix":
                conds.append(s == ax[1])
            else:
                k, off = ax[1], ax[2]
                ln = self.shape[k]
                conds.append(z3.And(s >= off, s < off + ln))
                local[k] = s - off if not _is_zero(off) else s
        return z3.And(*conds) if conds else z3.BoolVal(True), tuple(local)

    def assign_from(self, valfn):
        """self[...] = value where valfn(*local_idx) gives the new element (already snapshotted)"""
        old = self.store.f
        me = self

        def f(*sidx):
            c, loc = me.region_and_inverse(sidx)
            return z3.If(c, as_int_term(valfn(*loc)), old(*sidx))

        self.store.f = f


def _is_zero(v):
    return isinstance(v, int) and v == 0


def full_view(store):
    return NDArr(store)


def new_array(shape, f, label="tmp"):
    return NDArr(Store(len(shape), tuple(shape), f, label))


def const_array(shape, val, label="const"):
    t = as_int_term(val)
    return new_array(shape, lambda *idx: t, label)


class Obj:
    """instance of a class defined in the repository (fields are concrete references / symbolic values)"""

    _n = 0  # creation counter (loop frame checks tell objects that existed at loop entry from those made in the body)

    def __init__(self, cls):
        self.cls = cls
        self.fields = {}
        Obj._n += 1
        self.serial = Obj._n
        # partial: the object was put together by a schema / contract / harness and may not carry every attribute of a real
        # instance: reading a missing attribute is then a limit of the model (Undecided), not an AttributeError of the code.
        # Objects built by interpreting the class' own __init__ are complete (Interp.instantiate clears the flag).
        self.partial = True

    def __repr__(self):
        return f"<Obj {self.cls.name} {list(self.fields)}>"


class ClsRef:
    def __init__(self, name, module, node, bases):
        self.name = name
        self.module = module
        self.node = node
        self.bases = bases  # list[ClsRef | str (external)]
        self.methods = {}  # name -> FunctionDef (plain / static / class)
        self.props = {}  # name -> [getter, setter]
        self.attrs = {}  # class-level simple assignments (ast)
        self.kind = {}  # name -> 'method' | 'static' | 'class'

    def mro(self):
        out = [self]
        for b in self.bases:
            if isinstance(b, ClsRef):
                for c in b.mro():
                    if c not in out:
                        out.append(c)
        return out

    def lookup(self, name, start_after=None):
        mro = self.mro()
        if start_after is not None:
            mro = mro[mro.index(start_after) + 1:]
        for c in mro:
            if name in c.props:
                g, st = c.props[name]
                if g is None or st is None:  # `@Base.x.setter` in a subclass: the other accessor is inherited
                    for b in mro[mro.index(c) + 1:]:
                        if name in b.props:
                            g = g or b.props[name][0]
                            st = st or b.props[name][1]
                return ("prop", c, [g, st])
            if name in c.methods:
                return ("method", c, c.methods[name])
            if name in c.attrs:
                return ("attr", c, c.attrs[name])
        return None

    def __repr__(self):
        return f"<class {self.name}>"


class FuncRef:
    def __init__(self, module, node, qual, cls=None):
        self.module = module
        self.node = node
        self.qual = qual
        self.cls = cls

    def __repr__(self):
        return f"<func {self.qual}>"


class Bound:
    def __init__(self, func, self_obj):
        self.func = func
        self.self_obj = self_obj


class Closure:
    def __init__(self, node, env, module):
        self.node = node  # ast.Lambda or FunctionDef
        self.env = env
        self.module = module


class ModRef:
    def __init__(self, name):
        self.name = name

    def __repr__(self):
        return f"<module {self.name}>"


class Builtin:
    def __init__(self, name, fn):
        self.name = name
        self.fn = fn

    def __repr__(self):
        return f"<builtin {self.name}>"


class Opaque:
    """an abstract value the executor only passes around (e.g. a recorder result)"""

    def __init__(self, tag, payload=None):
        self.tag = tag
        self.payload = payload

    def __repr__(self):
        return f"<opaque {self.tag}>"
