"""Locate functions / classes of the repository under verification by qualified name and hand out their AST.

Nothing is copied or translated: every run re-reads the files under $VERIF_REPO/graphiq, so the verified text is the
text that runs.  What extraction drops is stated in DROPPED (and repeated in every evidence file).
"""
from __future__ import annotations

import ast
import hashlib
import os

from vf.core import REPO

DROPPED = [
    "docstrings and comments",
    "type annotations",
    "print(...), warnings.warn(...), logging.* calls (treated as no-ops)",
    "matplotlib drawing code",
]


class Module:
    def __init__(self, name):
        self.name = name
        rel = name.replace(".", "/")
        p = os.path.join(REPO, rel + ".py")
        if not os.path.exists(p):
            p = os.path.join(REPO, rel, "__init__.py")
        self.path = p
        self.text = open(p).read()
        self.tree = ast.parse(self.text)
        self.funcs = {}
        self.classes = {}
        self.imports = {}  # local name -> ("module", modname) | ("from", modname, attr)
        self.globals_ast = {}  # simple module-level assignments  name -> ast expr
        for node in self.tree.body:
            if isinstance(node, ast.FunctionDef):
                self.funcs[node.name] = node
            elif isinstance(node, ast.ClassDef):
                self.classes[node.name] = node
            elif isinstance(node, ast.Import):
                for a in node.names:
                    if a.asname:
                        self.imports[a.asname] = ("module", a.name)
                    else:
                        self.imports[a.name.split(".")[0]] = ("module", a.name.split(".")[0])
            elif isinstance(node, ast.ImportFrom):
                for a in node.names:
                    self.imports[a.asname or a.name] = ("from", node.module, a.name)
            elif isinstance(node, ast.Assign) and len(node.targets) == 1 and isinstance(node.targets[0], ast.Name):
                self.globals_ast[node.targets[0].id] = node.value

    def segment(self, node):
        return ast.get_source_segment(self.text, node) or ""


_cache = {}


def module(name) -> Module:
    if name not in _cache:
        _cache[name] = Module(name)
    return _cache[name]


def reset_cache():
    _cache.clear()


def find(qual):
    """qual = 'pkg.mod:func' or 'pkg.mod:Class.method' -> (Module, FunctionDef, ClassDef|None)"""
    modname, q = qual.split(":")
    m = module(modname)
    parts = q.split(".")
    if len(parts) == 1:
        if parts[0] not in m.funcs:
            raise KeyError(f"{qual}: no such function in {m.path}")
        return m, m.funcs[parts[0]], None
    cls = m.classes.get(parts[0])
    if cls is None:
        raise KeyError(f"{qual}: no such class")
    for node in cls.body:
        if isinstance(node, ast.FunctionDef) and node.name == parts[1]:
            return m, node, cls
    raise KeyError(f"{qual}: no such method")


def _strip_doc(node):
    import copy

    n = copy.deepcopy(node)
    for f in ast.walk(n):
        if isinstance(f, (ast.FunctionDef, ast.ClassDef)) and f.body and isinstance(f.body[0], ast.Expr) \
                and isinstance(getattr(f.body[0], "value", None), ast.Constant) and isinstance(f.body[0].value.value, str):
            f.body = f.body[1:] or [ast.Pass()]
    return n


def sha_of(qual) -> str:
    """sha256 of the function's AST with docstrings stripped (comments/formatting do not change it; any code edit does)"""
    m, node, _ = find(qual)
    return hashlib.sha256(ast.dump(_strip_doc(node)).encode()).hexdigest()


def region(qual, first_prefix, last_prefix, params, name=None):
    """Mechanical extraction of a code REGION of a real function: the consecutive top-level statements of `qual` from the
    first one whose source starts with `first_prefix` to the first later one whose source starts with `last_prefix`
    (inclusive), wrapped as a function of `params` that returns nothing.  Nothing inside the region is changed; what is
    dropped is the rest of the enclosing function (stated by the caller in its evidence).  Returns (Module, FunctionDef, sha)."""
    m, node, cls = find(qual)
    body = node.body
    texts = [ast.unparse(s) for s in body]
    i0 = next((i for i, t in enumerate(texts) if t.startswith(first_prefix)), None)
    if i0 is None:
        raise KeyError(f"{qual}: no statement starts with {first_prefix!r}")
    i1 = next((i for i in range(i0, len(texts)) if texts[i].startswith(last_prefix)), None)
    if i1 is None:
        raise KeyError(f"{qual}: no statement after the first starts with {last_prefix!r}")
    stmts = body[i0:i1 + 1]
    fn = ast.FunctionDef(name=name or (node.name + "__region"), args=ast.arguments(posonlyargs=[], args=[ast.arg(arg=p) for p in params],
                         kwonlyargs=[], kw_defaults=[], defaults=[]), body=list(stmts), decorator_list=[], type_params=[])
    ast.fix_missing_locations(fn)
    sha = hashlib.sha256("\n".join(ast.dump(s) for s in stmts).encode()).hexdigest()
    return m, fn, sha
