"""Python lists of SYMBOLIC length (engine value `SymList`) and the theory of filtered index enumerations.

A `SymList` is a mutable Python-list value whose length is a z3 Int term and whose elements are given by a closure
`elem(k) -> term` (the same index->term representation as arrays).  Supported list operations (everything else is
`Undecided`):  truthiness (`if l:` / `not l` = length > 0, forks the path), `len(l)`, `l[c]` for a constant or symbolic
index (index-bounds OBLIGATION, negative constants count from the end), `l[c:]` for a constant c >= 0, `l.append(x)`
(in place), iteration under a loop contract (`loops.trip_count`), equality of two list values in postconditions
(`Equiv.eq`: equal lengths and equal elements at a skolem position).

Filter theory (used by the contracts of stabilizer.pauli_type_finder / one_pauli_type_finder and by counting specs):
for a predicate p over 0 <= k the recursive spec functions
        CNT(0) = 0,   CNT(k+1) = CNT(k) + [p(k)],        p(k)  ->  SEL(CNT(k)) = k                      (D)
define the number of hits below k and the increasing enumeration of the hits.  (D) is a definitional (conservative)
extension: CNT is defined by primitive recursion, and SEL is well defined on the positions CNT(k) of hits because CNT is
strictly increasing across a hit.  The L2 lemma FILTER (lemmas/filters.py, proved by explicit induction in z3 with p, CNT,
SEL uninterpreted) gives for every N >= 0 the characterisation INV(N) returned by `filter_facts`.
"""
from __future__ import annotations

import z3

from .values import to_z3, as_int_term, concrete_int, is_sym


class SymList:
    def __init__(self, length, elem, label="list"):
        self.length = length
        self.elem = elem
        self.label = label

    def get(self, k):
        return self.elem(k)

    def append(self, x):
        n0, old = to_z3(self.length), self.elem
        xv = x

        def elem(k, _n0=n0, _old=old, _x=xv):
            return z3.If(to_z3(k) == _n0, as_int_term(_x), as_int_term(_old(k)))

        self.elem = elem
        self.length = z3.simplify(n0 + 1)

    def tail(self, c):
        n0, old = to_z3(self.length), self.elem
        return SymList(z3.simplify(z3.If(n0 >= c, n0 - c, z3.IntVal(0))), lambda k, _old=old: _old(to_z3(k) + c), self.label + f"[{c}:]")

    def copy(self):
        return SymList(self.length, self.elem, self.label)

    def __repr__(self):
        return f"<SymList {self.label} len={self.length}>"


def from_list(xs):
    vals = list(xs)

    def elem(k):
        t = z3.IntVal(0)
        for m in range(len(vals) - 1, -1, -1):
            t = z3.If(to_z3(k) == m, as_int_term(vals[m]), t)
        return t

    return SymList(z3.IntVal(len(vals)), elem, "concrete")


def index(interp, lst: SymList, key):
    """l[key]: bounds obligation (an IndexError of the real code would be a contract violation of the caller)"""
    n = to_z3(lst.length)
    c = concrete_int(key)
    k = (n + c) if (c is not None and c < 0) else to_z3(key)
    g = z3.And(k >= 0, k < n)
    nm = interp.ob_name("index")
    interp.path.oblige(nm, g)
    interp.path.assume(g)
    return lst.elem(z3.simplify(k))


# ------------------------------------------------------------------------------------------------------------------
# filter theory
# ------------------------------------------------------------------------------------------------------------------

def filter_symbols(tag):
    return (z3.Function(f"CNT_{tag}", z3.IntSort(), z3.IntSort()), z3.Function(f"SEL_{tag}", z3.IntSort(), z3.IntSort()))


def filter_defs(CNT, SEL, p, k):
    """instances of (D) at index k (k None: the base equation)"""
    if k is None:
        return [CNT(0) == 0]
    return [CNT(k + 1) == CNT(k) + z3.If(p(k), 1, 0), z3.Implies(p(k), SEL(CNT(k)) == k)]


def filter_facts(CNT, SEL, p, N, tag):
    """INV(N): conclusion of the L2 lemma FILTER for the enumeration (CNT(N), SEL) of {k in [0,N): p(k)}"""
    m, m2, i = z3.Int(f"fm_{tag}"), z3.Int(f"fm2_{tag}"), z3.Int(f"fi_{tag}")
    L = CNT(N)
    return [
        z3.And(L >= 0, L <= N),
        z3.ForAll([m], z3.Implies(z3.And(m >= 0, m < L), z3.And(SEL(m) >= 0, SEL(m) < N, p(SEL(m)))), patterns=[SEL(m)]),
        z3.ForAll([m, m2], z3.Implies(z3.And(m >= 0, m < m2, m2 < L), SEL(m) < SEL(m2)), patterns=[z3.MultiPattern(SEL(m), SEL(m2))]),
        z3.ForAll([i], z3.Implies(z3.And(i >= 0, i < N, p(i)), z3.And(CNT(i) >= 0, CNT(i) < L, SEL(CNT(i)) == i)), patterns=[CNT(i)]),
        z3.ForAll([i], z3.Implies(z3.And(i >= 0, i <= N), z3.And(CNT(i) >= 0, CNT(i) <= L)), patterns=[CNT(i)]),
    ]


def filtered_range(interp, lo, hi, pred, tag, own_task=False):
    """the Python list [i for i in range(lo, hi) if pred(i)]:
       concrete bounds and a predicate that evaluates -> a concrete Python list (used when a spec is evaluated on a replayed
       counter-model); otherwise a SymList (CNT(N), k -> lo + SEL(k)) with fresh spec functions for this call; unless
       `own_task` (the function's own verification task, where the loop invariant supplies (D) and nothing may be assumed)
       the lemma's conclusion INV(N) is assumed.
       -> (list value, dict(CNT, SEL, p, N, lo))"""
    clo, chi = concrete_int(lo), concrete_int(hi)
    if clo is not None and chi is not None:
        vals, ok = [], True
        for i in range(clo, chi):
            b = z3.simplify(to_z3(pred(z3.IntVal(i))))
            if z3.is_true(b):
                vals.append(i)
            elif not z3.is_false(b):
                ok = False
                break
        if ok:
            return vals, None
    lo_t, hi_t = to_z3(lo), to_z3(hi)
    N = z3.If(hi_t - lo_t < 0, z3.IntVal(0), hi_t - lo_t)
    CNT, SEL = filter_symbols(tag)

    def p(k):
        return to_z3(pred(lo_t + k))

    if not own_task:
        for f in filter_facts(CNT, SEL, p, N, tag):
            interp.path.assume(f)
    lst = SymList(CNT(N), lambda k: lo_t + SEL(to_z3(k)), tag)
    return lst, dict(CNT=CNT, SEL=SEL, p=p, N=N, lo=lo_t)
