"""Python lists of SYMBOLIC length (engine value `SymList`) and the theory of filtered index enumerations.

A `SymList` is a mutable Python-list value whose length is a z3 Int term and whose elements are given by a closure
`elem(k) -> term` (the same index->term representation as arrays).  Supported list operations (everything else is
`Undecided`):  truthiness (`if l:` / `not l` = length > 0, forks the path), `len(l)`, `l[c]` for a constant or symbolic
index (index-bounds OBLIGATION, negative constants count from the end), `l[c:]` for a constant c >= 0, `l.append(x)`
(in place), iteration under a loop contract (`loops.trip_count`), equality of two list values in postconditions
(`Equiv.eq`: equal lengths and equal elements at a skolem position).

Filter theory (used by the contracts of stabilizer.pauli_type_finder / one_pauli_type_finder and by counting specs):
for a predicate p over 0 <= k the recursive spec functions
        CNT(0) = 0,   CNT(k+1) = CNT(k) + [p(k)],        p(k)  ->  SEL(CNT(k)) = k                      (D)
define the number of hits below k and the increasing enumeration of the hits.  (D) is a definitional (conservative)
extension: CNT is defined by primitive recursion, and SEL is well defined on the positions CNT(k) of hits because CNT is
strictly increasing across a hit.  The L2 lemma FILTER (lemmas/filters.py, proved by explicit induction in z3 with p, CNT,
SEL uninterpreted) gives for every N >= 0 the characterisation INV(N) returned by `filter_facts`.
"""
from __future__ import annotations

import z3

from .values import to_z3, as_int_term, concrete_int, is_sym


class SymList:
    def __init__(self, length, elem, label="list"):
        self.length = length
        self.elem = elem
        self.label = label

    def get(self, k):
        return self.elem(k)

    def append(self, x):
        n0, old = to_z3(self.length), self.elem
        xv = x

        def elem(k, _n0=n0, _old=old, _x=xv):
            return z3.If(to_z3(k) == _n0, as_int_term(_x), as_int_term(_old(k)))

        self.elem = elem
        self.length = z3.simplify(n0 + 1)

    def tail(self, c):
        n0, old = to_z3(self.length), self.elem
        return SymList(z3.simplify(z3.If(n0 >= c, n0 - c, z3.IntVal(0))), lambda k, _old=old: _old(to_z3(k) + c), self.label + f"[{c}:]")

    def copy(self):
        return SymList(self.length, self.elem, self.label)

    def __repr__(self):
        return f"<SymList {self.label} len={self.length}>"


def from_list(xs):
    vals = list(xs)

    def elem(k):
        t = z3.IntVal(0)
        for m in range(len(vals) - 1, -1, -1):
            t = z3.If(to_z3(k) == m, as_int_term(vals[m]), t)
        return t

    return SymList(z3.IntVal(len(vals)), elem, "concrete")


def index(interp, lst: SymList, key):
    """l[key]: bounds obligation (an IndexError of the real code would be a contract violation of the caller)"""
    n = to_z3(lst.length)
    c = concrete_int(key)
    k = (n + c) if (c is not None and c < 0) else to_z3(key)
    g = z3.And(k >= 0, k < n)
    nm = interp.ob_name("index")
    interp.path.oblige(nm, g)
    interp.path.assume(g)
    return lst.elem(z3.simplify(k))


# ------------------------------------------------------------------------------------------------------------------
# filter theory
# ------------------------------------------------------------------------------------------------------------------

def filter_symbols(tag):
    return (z3.Function(f"CNT_{tag}", z3.IntSort(), z3.IntSort()), z3.Function(f"SEL_{tag}", z3.IntSort(), z3.IntSort()))


def filter_defs(CNT, SEL, p, k):
    """instances of (D) at index k (k None: the base equation)"""
    if k is None:
        return [CNT(0) == 0]
    return [CNT(k + 1) == CNT(k) + z3.If(p(k), 1, 0), z3.Implies(p(k), SEL(CNT(k)) == k)]


def filter_facts(CNT, SEL, p, N, tag):
    """INV(N): conclusion of the L2 lemma FILTER for the enumeration (CNT(N), SEL) of {k in [0,N): p(k)}"""
    m, m2, i = z3.Int(f"fm_{tag}"), z3.Int(f"fm2_{tag}"), z3.Int(f"fi_{tag}")
    L = CNT(N)
    return [
        z3.And(L >= 0, L <= N),
        z3.ForAll([m], z3.Implies(z3.And(m >= 0, m < L), z3.And(SEL(m) >= 0, SEL(m) < N, p(SEL(m)))), patterns=[SEL(m)]),
        z3.ForAll([m, m2], z3.Implies(z3.And(m >= 0, m < m2, m2 < L), SEL(m) < SEL(m2)), patterns=[z3.MultiPattern(SEL(m), SEL(m2))]),
        z3.ForAll([i], z3.Implies(z3.And(i >= 0, i < N, p(i)), z3.And(CNT(i) >= 0, CNT(i) < L, SEL(CNT(i)) == i)), patterns=[CNT(i)]),
        z3.ForAll([i], z3.Implies(z3.And(i >= 0, i <= N), z3.And(CNT(i) >= 0, CNT(i) <= L)), patterns=[CNT(i)]),
    ]


def filtered_range(interp, lo, hi, pred, tag, own_task=False):
    """the Python list [i for i in range(lo, hi) if pred(i)]:
       concrete bounds and a predicate that evaluates -> a concrete Python list (used when a spec is evaluated on a replayed
       counter-model); otherwise a SymList (CNT(N), k -> lo + SEL(k)) with fresh spec functions for this call; unless
       `own_task` (the function's own verification task, where the loop invariant supplies (D) and nothing may be assumed)
       the lemma's conclusion INV(N) is assumed.
       -> (list value, dict(CNT, SEL, p, N, lo))"""
    clo, chi = concrete_int(lo), concrete_int(hi)
    if clo is not None and chi is not None:
        vals, ok = [], True
        for i in range(clo, chi):
            b = z3.simplify(to_z3(pred(z3.IntVal(i))))
            if z3.is_true(b):
                vals.append(i)
            elif not z3.is_false(b):
                ok = False
                break
        if ok:
            return vals, None
    lo_t, hi_t = to_z3(lo), to_z3(hi)
    N = z3.If(hi_t - lo_t < 0, z3.IntVal(0), hi_t - lo_t)
    CNT, SEL = filter_symbols(tag)

    def p(k):
        return to_z3(pred(lo_t + k))

    if not own_task:
        for f in filter_facts(CNT, SEL, p, N, tag):
            interp.path.assume(f)
        # instances of the defining equations (D) at k = 0, 1: what the FIRST entries of the list are
        for f in filter_defs(CNT, SEL, p, None) + filter_defs(CNT, SEL, p, z3.IntVal(0)) + filter_defs(CNT, SEL, p, z3.IntVal(1)):
            interp.path.assume(f)
    lst = SymList(CNT(N), lambda k: lo_t + SEL(to_z3(k)), tag)
    return lst, dict(CNT=CNT, SEL=SEL, p=p, N=N, lo=lo_t)


# ------------------------------------------------------------------------------------------------------------------
# list comprehension  [x for x in L if c(x)]  over a list of symbolic length
# ------------------------------------------------------------------------------------------------------------------

def comprehension_hook(interp, elt, gens, pure_calls=(), any_iter=False):
    """[A] Python semantics of a filtering list comprehension `[x for x in L if c(x)]` where L is a SymList: the sub-list of
    the elements that satisfy c, in order = (CNT(N), m -> L[SEL(m)]) of the filter theory with p(k) = c(L[k]), N = len(L)
    (the comprehension IS the loop `for x in L: if c(x): out.append(x)`, whose invariant is proved once for
    stabilizer.pauli_type_finder; here the characterisation INV(N) of lemma FILTER is assumed).  The test must be pure and
    branch free: it is evaluated once at a skolem position (its own obligations are generated there) and re-evaluated
    quietly for other positions.  Records dict(CNT, SEL, p, N) in path.ghost['comp_filters'].  Other forms -> None."""
    import ast as _ast

    if len(gens) == 1 and not gens[0].ifs and not gens[0].is_async and isinstance(gens[0].target, _ast.Name) \
            and isinstance(elt, _ast.Name) and elt.id == gens[0].target.id and isinstance(gens[0].iter, _ast.Name):
        src0 = interp.eval(gens[0].iter)
        if isinstance(src0, SymList) and concrete_int(src0.length) is None:  # [x for x in L]: a new list with the same elements
            return src0.copy()
        return None
    if len(gens) != 1 or len(gens[0].ifs) != 1 or gens[0].is_async:
        return None
    g = gens[0]
    if not (isinstance(g.target, _ast.Name) and isinstance(elt, _ast.Name) and elt.id == g.target.id):
        return None
    is_range = isinstance(g.iter, _ast.Call) and _ast.unparse(g.iter.func) == "range" and len(g.iter.args) == 1 \
        and isinstance(g.iter.args[0], _ast.Name)
    if not (isinstance(g.iter, _ast.Name) or is_range or any_iter):
        return None  # any_iter: the contract module vouches that the iterable expression is a pure read (evaluated once, as Python does)
    src = interp.eval(g.iter)
    if is_range:
        src = from_iterable(interp, src)  # [j for j in range(n) if c(j)] with symbolic n
    if not isinstance(src, SymList):
        return None
    for n in _ast.walk(g.ifs[0]):
        # BoolOp is accepted: on symbolic operands `and`/`or` are evaluated without branching (all operands), and a
        # concretely decided operand only removes later operands whose value cannot matter
        if isinstance(n, _ast.Call) and not n.keywords and _ast.unparse(n.func) in pure_calls:
            continue  # a call the contract module declares pure and branch free under its hooks (e.g. `type(<abstract op>)`)
        if isinstance(n, (_ast.Call, _ast.NamedExpr, _ast.Lambda, _ast.ListComp, _ast.IfExp)):
            return None
    from . import models

    models.used("[x for x in L if c(x)] over a symbolic-length list = filtered enumeration (lemma FILTER)")
    path = interp.path
    fr = interp.stack[-1]
    tname = g.target.id
    N = to_z3(src.length)
    elem = src.elem
    saved = len(path.pc)
    k0 = path.fresh("ck")
    path.assume(z3.And(k0 >= 0, k0 < N))
    old = fr.env.get(tname)
    fr.env[tname] = elem(k0)
    interp.truth_term(interp.eval(g.ifs[0]))
    del path.pc[saved:]

    def p(k):
        prev = fr.env.get(tname)
        fr.env[tname] = elem(k)
        path.quiet += 1
        try:
            return interp.truth_term(interp.eval(g.ifs[0]))
        finally:
            path.quiet -= 1
            if prev is None:
                fr.env.pop(tname, None)
            else:
                fr.env[tname] = prev

    # freeze the predicate over the current environment (the comprehension's scope does not leak / is not re-entered)
    env_now = dict(fr.env)

    def p_frozen(k, _env=env_now):
        cur = dict(fr.env)
        fr.env.clear()
        fr.env.update(_env)
        interp.stack.append(fr)
        try:
            return p(k)
        finally:
            interp.stack.pop()
            fr.env.clear()
            fr.env.update(cur)

    if old is None:
        fr.env.pop(tname, None)
    else:
        fr.env[tname] = old
    c = path.counter.get("compf", 0)
    path.counter["compf"] = c + 1
    tag = f"comp@{c}"
    CNT, SEL = filter_symbols(tag)
    for f in filter_facts(CNT, SEL, p_frozen, N, tag):
        path.assume(f)
    path.ghost.setdefault("comp_filters", []).append(dict(CNT=CNT, SEL=SEL, p=p_frozen, N=N))
    return SymList(CNT(N), lambda m: elem(SEL(to_z3(m))), tag)


# ------------------------------------------------------------------------------------------------------------------
# more list operations on symbolic-length lists;  dicts of symbolic size;  max / min
# ------------------------------------------------------------------------------------------------------------------

def from_iterable(interp, v):
    """[*v] for v a symbolic range / SymList -> SymList (None: not a symbolic-length iterable)"""
    from .values import Opaque

    if isinstance(v, SymList):
        return v.copy()
    if isinstance(v, Opaque) and v.tag == "range":
        a = v.payload
        if len(a) > 2:
            return None
        lo, hi = (0, a[0]) if len(a) == 1 else (a[0], a[1])
        lo_t, hi_t = to_z3(lo), to_z3(hi)
        n = z3.simplify(z3.If(hi_t - lo_t < 0, z3.IntVal(0), hi_t - lo_t))
        return SymList(n, lambda k, _lo=lo_t: z3.simplify(_lo + to_z3(k)), "range")
    return None


def concat(a, b):
    """list + list where at least one side has symbolic length"""
    la = a if isinstance(a, SymList) else from_list(a)
    lb = b if isinstance(b, SymList) else from_list(b)
    na, ea, eb = to_z3(la.length), la.elem, lb.elem
    return SymList(z3.simplify(na + to_z3(lb.length)),
                   lambda k: z3.If(to_z3(k) < na, as_int_term(ea(to_z3(k))), as_int_term(eb(z3.simplify(to_z3(k) - na)))), "concat")


class SymDict:
    """a dict with `length` entries  key(i) -> val(i), i = 0..length-1 in insertion order; the keys are pairwise distinct
    (obligation when it is built).  `known` remembers which key terms were handed out for which entry index."""

    def __init__(self, length, key, val, label="dict"):
        self.length = length
        self.key = key
        self.val = val
        self.label = label
        self.known = {}

    def __repr__(self):
        return f"<SymDict {self.label} len={self.length}>"


def dictcomp_hook(interp, node):
    """{K(i): V(i) for i in range(M)} with symbolic M -> SymDict(M, K, V); obligation: K is injective on range(M)
    (otherwise later entries would overwrite earlier ones and the entry count would differ).  K and V must be pure and
    branch free (evaluated once at a skolem index for their own obligations, then quietly)."""
    import ast as _ast
    from .values import Opaque

    if len(node.generators) != 1 or node.generators[0].ifs or not isinstance(node.generators[0].target, _ast.Name):
        return None
    g = node.generators[0]
    it = interp.eval(g.iter)
    if not (isinstance(it, Opaque) and it.tag == "range" and len(it.payload) == 1):
        return None
    for part in (node.key, node.value):
        for n in _ast.walk(part):
            if isinstance(n, (_ast.Call, _ast.NamedExpr, _ast.Lambda, _ast.ListComp, _ast.IfExp, _ast.BoolOp)):
                return None
    from . import models

    models.used("{K(i): V(i) for i in range(M)} with symbolic M = M entries K(i)->V(i) (K proved injective)")
    path, fr = interp.path, interp.stack[-1]
    M = to_z3(it.payload[0])
    tname = g.target.id
    env_now = dict(fr.env)

    def at(expr, k, quiet=True):
        cur = dict(fr.env)
        fr.env.clear()
        fr.env.update(env_now)
        fr.env[tname] = k
        if quiet:
            path.quiet += 1
        interp.stack.append(fr)  # the closure may be called after the function has returned: evaluate in ITS frame
        try:
            return interp.eval(expr)
        finally:
            interp.stack.pop()
            if quiet:
                path.quiet -= 1
            fr.env.clear()
            fr.env.update(cur)

    saved = len(path.pc)
    k0 = path.fresh("dk")
    path.assume(z3.And(k0 >= 0, k0 < M))
    at(node.key, k0, quiet=False)
    at(node.value, k0, quiet=False)
    del path.pc[saved:]
    i1, i2 = path.fresh("dk"), path.fresh("dk")
    path.oblige(interp.ob_name("dict-keys-distinct"), to_z3(at(node.key, i1)) != to_z3(at(node.key, i2)),
                extra=[i1 >= 0, i1 < i2, i2 < M])
    return SymDict(z3.simplify(z3.If(M < 0, z3.IntVal(0), M)), lambda k: at(node.key, to_z3(k)), lambda k: at(node.value, to_z3(k)), "dictcomp")


def seq_extreme(interp, length, measure, which="max", what="list"):
    """[A] max / min over a sequence of symbolic length by its measure (the values themselves, or `key=`): the index `a` of
    the FIRST extreme entry:  0 <= a < len,  forall i: measure(i) <= measure(a),  forall i < a: measure(i) < measure(a)
    (dually for min).  Empty sequence: ValueError.  -> index term a"""
    from .interp import RaiseEx
    from . import models

    models.used(f"{which}() over a symbolic-length {what}: index of the first extreme entry (quantified characterisation)")
    path = interp.path
    L = to_z3(length)
    if not path.decide(L > 0):
        raise RaiseEx("ValueError", f"{which}() arg is an empty sequence")
    c = path.counter.get("argx", 0)
    path.counter["argx"] = c + 1
    a, q = z3.Int(f"arg{which}!{c}"), z3.Int(f"argq!{c}")
    le = (lambda x, y: x <= y) if which == "max" else (lambda x, y: x >= y)
    lt = (lambda x, y: x < y) if which == "max" else (lambda x, y: x > y)
    ma = as_int_term(measure(a))
    path.assume(z3.And(a >= 0, a < L))
    path.assume(z3.ForAll([q], z3.Implies(z3.And(q >= 0, q < L), le(as_int_term(measure(q)), ma))))
    path.assume(z3.ForAll([q], z3.Implies(z3.And(q >= 0, q < a), lt(as_int_term(measure(q)), ma))))
    path.ghost.setdefault("extremes", []).append(dict(index=a, which=which, length=L, measure=measure))
    return a


def dict_lookup(interp, d: SymDict, key):
    from .interp import Undecided

    kid = to_z3(key).get_id()
    if kid in d.known:
        return d.val(d.known[kid])
    raise Undecided("lookup in a dict of symbolic size with a key that was not obtained from it")
