"""dagwire theory, part 1: a symbolic *fragment* model of networkx.MultiDiGraph for the circuit-DAG code (DESIGN §2.2).

[A] contracts of the networkx calls used by graphiq/circuit/circuit_dag.py, on a graph that consists of
   * an EXPLICIT fragment: nodes and edges listed here, with symbolic node ids / keys (z3 Int terms, template strings), and
   * an untouched REST, about which only this is known: it has no edge incident to a node marked `closed`, and no node equal
     to a node created by add_node during the run (fresh ids: the circuit's `_node_id` counter bounds all existing ids).
Queries (in_edges / out_edges / edges[e] / nodes[n]) are answered from the explicit fragment and are only accepted for closed
nodes; equality of symbolic ids is decided by the path (fork) - never guessed.  Every verification task sets up the fragment
its edit touches; the WF invariant of the whole circuit (C12) is what licenses the fragment (each wire is a single path, so
the queried node has exactly the listed incident edges).

Strings built by f-strings with symbolic holes are `Templ` values; formatting of (one-letter type, non-negative decimal
register) pairs is injective, so two templates are equal iff their skeletons and arguments are equal [assumption S-fmt].
"""
from __future__ import annotations

import ast
import re

import z3

from .values import Builtin, Opaque, Obj, is_sym, to_z3, concrete_int
from . import models


# ---------------------------------------------------------------------------------------------- template strings
class Templ:
    def __init__(self, lits, args):
        self.lits = tuple(lits)  # len(args)+1 literal pieces
        self.args = tuple(args)

    def __repr__(self):
        s = self.lits[0]
        for a, l in zip(self.args, self.lits[1:]):
            s += "{" + str(a) + "}" + l
        return f"T'{s}'"

    def __hash__(self):
        return hash((self.lits, tuple(str(a) for a in self.args)))

    def __eq__(self, other):
        return isinstance(other, Templ) and self.lits == other.lits and all(
            (a is b) or (not is_sym(a) and not is_sym(b) and a == b) or (is_sym(a) and is_sym(b) and a.eq(b))
            for a, b in zip(self.args, other.args))


def mk_templ(lits, args):
    """canonical form: concrete arguments are folded into the literal skeleton"""
    out_l, out_a, cur = [], [], lits[0]
    for a, l in zip(args, lits[1:]):
        if is_sym(a):
            out_l.append(cur)
            out_a.append(a)
            cur = l
        else:
            cur += str(a) + l
    out_l.append(cur)
    if not out_a:
        return out_l[0]
    return Templ(out_l, out_a)


def joined_str(interp, node):
    lits, args, cur = [], [], ""
    for v in node.values:
        if isinstance(v, ast.Constant):
            cur += str(v.value)
        else:
            val = interp.eval(v.value)
            if isinstance(val, Templ):
                cur += val.lits[0]
                for a, l in zip(val.args, val.lits[1:]):
                    lits.append(cur)
                    args.append(a)
                    cur = l
            elif is_sym(val):
                lits.append(cur)
                args.append(val)
                cur = ""
            else:
                cur += str(val)
    lits.append(cur)
    if not args:
        return lits[0]
    return Templ(lits, args)


def eq_term(interp, a, b):
    """equality of two node ids / keys / labels -> python bool or z3 Bool"""
    if isinstance(a, Templ) and isinstance(b, Templ):
        if a.lits != b.lits:
            # different skeletons: e.g. '{}{}_in' vs '{}{}_out' or '{}{}' - never equal under S-fmt when the literal
            # suffixes differ; if one skeleton could embed the other we refuse to guess
            if a.lits[-1] != b.lits[-1] or len(a.args) == len(b.args):
                return False
            from .interp import Undecided

            raise Undecided(f"comparison of template strings {a} and {b}")
        parts = [eq_term(interp, x, y) for x, y in zip(a.args, b.args)]
        if all(isinstance(p, bool) for p in parts):
            return all(parts)
        return z3.And(*[to_z3(p) if not isinstance(p, bool) else z3.BoolVal(p) for p in parts])
    if isinstance(a, Templ) or isinstance(b, Templ):
        t, o = (a, b) if isinstance(a, Templ) else (b, a)
        if not isinstance(o, str):
            return False
        pat = re.escape(t.lits[0])
        for arg, l in zip(t.args, t.lits[1:]):
            pat += (r"(\d+)" if (is_sym(arg) and z3.is_int(arg)) or isinstance(arg, int) else r"(.+?)") + re.escape(l)
        m = re.fullmatch(pat, o)
        if not m:
            return False
        parts = []
        for arg, g in zip(t.args, m.groups()):
            if (is_sym(arg) and z3.is_int(arg)) or isinstance(arg, int):
                parts.append(eq_term(interp, arg, int(g)))
            else:
                parts.append(eq_term(interp, arg, g))
        if all(isinstance(p, bool) for p in parts):
            return all(parts)
        return z3.And(*[to_z3(p) if not isinstance(p, bool) else z3.BoolVal(p) for p in parts])
    if is_sym(a) or is_sym(b):
        if isinstance(a, str) or isinstance(b, str):
            return False
        return to_z3(a) == to_z3(b)
    if isinstance(a, tuple) and isinstance(b, tuple):
        if len(a) != len(b):
            return False
        parts = [eq_term(interp, x, y) for x, y in zip(a, b)]
        if all(isinstance(p, bool) for p in parts):
            return all(parts)
        return z3.And(*[to_z3(p) if not isinstance(p, bool) else z3.BoolVal(p) for p in parts])
    return a == b


def decide_eq(interp, a, b):
    r = eq_term(interp, a, b)
    if isinstance(r, bool):
        return r
    return interp.path.decide(r)


# ---------------------------------------------------------------------------------------------- symbolic-length lists
class SymList:
    """a Python list of which only the length matters (register size lists)"""

    def __init__(self, length, label="list"):
        self.length = length
        self.label = label


# ---------------------------------------------------------------------------------------------- the graph fragment
def _remove_identical(lst, entry):
    """remove THE entry object (list.remove compares with ==, which on entries mixing z3 ids and template names is not a bool)"""
    for k, x in enumerate(lst):
        if x is entry:
            del lst[k]
            return
    raise ValueError("entry not in list")


class SymGraph:
    def __init__(self):
        self.nodes = []  # [node, attrs]
        self.edges = []  # [u, v, key, attrs]
        self.closed = []  # nodes all of whose incident edges are explicit
        self.absent = []  # node names known not to exist anywhere in the graph
        self.log = []  # primitive updates, in order (layer-1 trace)

    # -- helpers
    def _find_node(self, interp, n):
        for ent in self.nodes:
            if decide_eq(interp, ent[0], n):
                return ent
        return None

    def _require_closed(self, interp, n, what):
        from .interp import Undecided

        for c in self.closed:
            if decide_eq(interp, c, n):
                return
        raise Undecided(f"{what} on a node whose incident edges are not all explicit in the fragment: {n}")

    def incident(self, interp, n, direction):
        self._require_closed(interp, n, direction + "_edges")
        out = []
        for e in self.edges:
            if decide_eq(interp, e[1] if direction == "in" else e[0], n):
                out.append(e)
        return out

    def find_edge(self, interp, edge):
        u, v, k = edge[0], edge[1], edge[2]
        for e in self.edges:
            if decide_eq(interp, e[0], u) and decide_eq(interp, e[1], v) and decide_eq(interp, e[2], k):
                return e
        return None


def _attr(interp, g: SymGraph, attr):
    from .interp import Undecided, RaiseEx

    def add_node(i, n, **attrs):
        models.used("nx.MultiDiGraph.add_node / add_edge / remove_edges_from / remove_node / in_edges / out_edges / "
                    "nodes[n] / edges[e] on an explicit fragment (symgraph)")
        ent = g._find_node(i, n)
        if ent is not None:
            ent[1].update(attrs)
        else:
            g.nodes.append([n, dict(attrs)])
            g.closed.append(n)  # a new node has no incident edges in the untouched rest
        g.log.append(("add_node", n))

    def add_edge(i, u, v, key=None, **attrs):
        for n in (u, v):
            if g._find_node(i, n) is None:
                raise Undecided(f"add_edge to a node outside the explicit fragment: {n}")
        if key is None:
            raise Undecided("add_edge without key")
        ex = g.find_edge(i, (u, v, key))
        if ex is not None:
            ex[3].update(attrs)
        else:
            g.edges.append([u, v, key, dict(attrs)])
        g.log.append(("add_edge", u, v, key))
        return key

    def remove_edges_from(i, ebunch):
        for e in i.iterate(ebunch):
            ex = g.find_edge(i, e)
            if ex is not None:
                _remove_identical(g.edges, ex)
                g.log.append(("remove_edge", e[0], e[1], e[2]))
            # networkx silently ignores absent edges

    def remove_node(i, n):
        ent = g._find_node(i, n)
        if ent is None:
            raise RaiseEx("NetworkXError", "node not in graph")
        g._require_closed(i, n, "remove_node")
        for e in list(g.edges):
            if decide_eq(i, e[0], n) or decide_eq(i, e[1], n):
                _remove_identical(g.edges, e)
                g.log.append(("remove_edge", e[0], e[1], e[2]))
        _remove_identical(g.nodes, ent)
        g.log.append(("remove_node", n))

    def in_edges(i, nbunch=None, keys=False, data=False):
        es = g.incident(i, nbunch, "in")
        return [_edge_tuple(e, keys, data) for e in es]

    def out_edges(i, nbunch=None, keys=False, data=False):
        es = g.incident(i, nbunch, "out")
        return [_edge_tuple(e, keys, data) for e in es]

    table = dict(add_node=add_node, add_edge=add_edge, remove_edges_from=remove_edges_from, remove_node=remove_node,
                 in_edges=in_edges, out_edges=out_edges)
    if attr in table:
        return Builtin("nx." + attr, table[attr])
    if attr == "nodes":
        return Opaque("nx.nodes", g)
    if attr == "edges":
        return Opaque("nx.edges", g)
    raise Undecided(f"networkx graph attribute {attr} has no model")


def _edge_tuple(e, keys, data):
    t = (e[0], e[1])
    if keys:
        t = t + (e[2],)
    if data:
        t = t + (e[3],)
    return t


# ---------------------------------------------------------------------------------------------- interpreter hooks
def h_getattr(interp, obj, attr):
    from .interp import Undecided

    if isinstance(obj, SymGraph):
        return _attr(interp, obj, attr)
    if isinstance(obj, SymList):
        if attr == "append":
            def app(i, x):
                obj.length = z3.simplify(to_z3(obj.length) + 1)
            return Builtin("append", app)
        if attr == "copy":
            return Builtin("copy", lambda i: SymList(obj.length, obj.label))
        raise Undecided(f"SymList.{attr}")
    if isinstance(obj, Templ):
        raise Undecided(f"string method {attr} on a template string")
    return NotImplemented


def h_getitem(interp, obj, key):
    from .interp import RaiseEx

    if isinstance(obj, Opaque) and obj.tag == "nx.nodes":
        ent = obj.payload._find_node(interp, key)
        if ent is None:
            raise RaiseEx("KeyError", f"node {key}")
        return ent[1]
    if isinstance(obj, Opaque) and obj.tag == "nx.edges":
        ex = obj.payload.find_edge(interp, key)
        if ex is None:
            raise RaiseEx("KeyError", f"edge {key}")
        return ex[3]
    return None


def h_contains(interp, container, item):
    if isinstance(container, Opaque) and container.tag == "nx.nodes":
        g = container.payload
        ent = g._find_node(interp, item)
        if ent is not None:
            return True
        # not explicit: it may exist in the rest unless the fragment says which names are absent
        for n in g.absent:
            if decide_eq(interp, n, item):
                return False
        from .interp import Undecided

        raise Undecided(f"membership of {item} in the graph's node set is not determined by the fragment")
    return None


def h_len(interp, x):
    if isinstance(x, SymList):
        return x.length
    return None


def h_compare(interp, op, a, b):
    if isinstance(a, (Templ,)) or isinstance(b, (Templ,)):
        r = eq_term(interp, a, b)
        if isinstance(op, ast.Eq):
            return r
        if isinstance(op, ast.NotEq):
            return z3.Not(r) if not isinstance(r, bool) else (not r)
    return NotImplemented


def install(hooks):
    hooks.update({"getattr": h_getattr, "getitem": h_getitem, "contains": h_contains, "len": h_len, "compare": h_compare})
    return hooks
