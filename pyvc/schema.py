"""Declarative input schemas: one description gives (a) fresh symbolic inputs for the proof, (b) concrete inputs from a
solver counter-model, (c) the real graphiq objects for replaying the counter-model on the real code, (d) constant
symbolic inputs on which the contract's spec is evaluated concretely (the expected result of the replay)."""
from __future__ import annotations

import importlib

import numpy as np
import z3

from .values import NDArr, Obj, new_array, to_z3, as_int_term, concrete_int
from .symlist import SymList, SymDict

MAXDIM = 12  # replayed arrays larger than this are not built (witness stays unreplayed)


def _ev(model, t):
    v = model.eval(to_z3(t), model_completion=True)
    if z3.is_int_value(v):
        return v.as_long()
    if z3.is_true(v):
        return 1
    if z3.is_false(v):
        return 0
    if z3.is_rational_value(v):
        return float(v.numerator_as_long()) / float(v.denominator_as_long())
    raise ValueError(f"cannot evaluate {t} -> {v}")


def _consts(e):
    out, todo, seen = [], [to_z3(e)], set()
    while todo:
        t = todo.pop()
        if t.get_id() in seen:
            continue
        seen.add(t.get_id())
        if z3.is_const(t) and t.decl().kind() == z3.Z3_OP_UNINTERPRETED:
            out.append(t)
        todo.extend(t.children())
    return out


def _rand_eval(expr, rng, env, lo=1, hi=3):
    """evaluate a size expression with random small values for its free symbols (remembered in env)"""
    if isinstance(expr, int):
        return expr
    e = to_z3(expr)
    subs = []
    for c in _consts(e):
        nm = c.decl().name()
        if nm not in env:
            env[nm] = int(rng.integers(lo, hi + 1))
        subs.append((c, z3.IntVal(env[nm])))
    v = z3.simplify(z3.substitute(e, *subs)) if subs else z3.simplify(e)
    return v.as_long()


class Item:
    name = "?"
    skip = False

    def random(self, rng, env):
        raise NotImplementedError

    def symbolic(self, I):
        raise NotImplementedError

    def concrete(self, model, env):
        raise NotImplementedError

    def real(self, conc):
        return conc

    def const(self, I, conc):
        return conc

    def jsonable(self, conc):
        return conc


class IntArg(Item):
    def __init__(self, name, lo=None, hi=None):
        self.name, self.lo, self.hi = name, lo, hi

    def symbolic(self, I):
        v = z3.Int(self.name)
        if self.lo is not None:
            I.path.assume(v >= to_z3(self.lo))
        if self.hi is not None:
            I.path.assume(v < to_z3(self.hi))
        return v

    def concrete(self, model, env):
        env[self.name] = _ev(model, z3.Int(self.name))
        return env[self.name]

    def random(self, rng, env):
        if self.name not in env:
            env[self.name] = int(rng.integers(-1, 5))
        return env[self.name]


class Assume(Item):
    """not an argument: a constraint on size symbols etc. (part of the harness precondition)"""

    skip = True

    def __init__(self, formula, name="assume", check=None):
        self.formula, self.name = formula, name
        self.check = check  # optional python predicate over {item name: concrete value}: does a concrete input satisfy it?

    def symbolic(self, I):
        I.path.assume(self.formula)
        return None

    def concrete(self, model, env):
        return None

    def random(self, rng, env):
        return None


class Const(Item):
    def __init__(self, name, value):
        self.name, self.value = name, value

    def symbolic(self, I):
        return self.value

    def concrete(self, model, env):
        return self.value

    def random(self, rng, env):
        return self.value


def _dim(expr_fn, env_syms):
    return expr_fn(env_syms) if callable(expr_fn) else expr_fn


class Matrix(Item):
    """integer (bits=False) or bit matrix with symbolic shape given by functions of earlier size symbols"""

    def __init__(self, name, rows, cols=None, bits=False):
        self.name, self.rows, self.cols, self.bits = name, rows, cols, bits

    def _fn(self):
        k = 2 if self.cols is not None else 1
        return z3.Function(self.name, *([z3.IntSort()] * k), z3.BoolSort() if self.bits else z3.IntSort())

    def symbolic(self, I):
        F = self._fn()
        shape = (self.rows,) if self.cols is None else (self.rows, self.cols)
        if self.bits:
            return new_array(shape, lambda *i: z3.If(F(*i), z3.IntVal(1), z3.IntVal(0)), self.name)
        return new_array(shape, lambda *i: F(*i), self.name)

    def concrete(self, model, env):
        F = self._fn()
        r = _ev(model, self.rows)
        if self.cols is None:
            if r > MAXDIM * 4:
                raise ValueError("witness too large")
            return np.array([_ev(model, F(i)) for i in range(r)], dtype=int)
        c = _ev(model, self.cols)
        if r > MAXDIM * 2 or c > MAXDIM * 2:
            raise ValueError("witness too large")
        return np.array([[_ev(model, F(i, j)) for j in range(c)] for i in range(r)], dtype=int).reshape(r, c)

    def const(self, I, conc):
        return const_nd(conc)

    def jsonable(self, conc):
        return np.asarray(conc).tolist()

    def random(self, rng, env):
        r = _rand_eval(self.rows, rng, env)
        hi = 2 if self.bits else 3
        lo = 0 if self.bits else -1
        if self.cols is None:
            return rng.integers(lo, hi, size=(r,))
        c = _rand_eval(self.cols, rng, env)
        return rng.integers(lo, hi, size=(r, c))


class NDInput(Item):
    """an integer-valued numpy input of rank 1-3 with a stated dtype ("int" / "float"): the dtype decides whether
    np.asarray(x, dtype=...) aliases x (numpy semantics), so frame contracts are checked for both"""

    def __init__(self, name, shape, dtype="int", bits=False):
        self.name, self.shape, self.dtype, self.bits = name, tuple(shape), dtype, bits

    def _fn(self):
        return z3.Function(self.name, *([z3.IntSort()] * len(self.shape)), z3.BoolSort() if self.bits else z3.IntSort())

    def symbolic(self, I):
        F = self._fn()
        if self.bits:
            a = new_array(self.shape, lambda *i: z3.If(F(*i), z3.IntVal(1), z3.IntVal(0)), self.name)
        else:
            a = new_array(self.shape, lambda *i: F(*i), self.name)
        a.store.dtype = self.dtype
        return a

    def _np(self, vals):
        return np.array(vals, dtype=int).astype(float if self.dtype == "float" else int)

    def concrete(self, model, env):
        import itertools

        F = self._fn()
        dims = [_ev(model, d) if not isinstance(d, int) else d for d in self.shape]
        if any(d > MAXDIM * 2 for d in dims):
            raise ValueError("witness too large")
        out = np.zeros(dims, dtype=int)
        for idx in itertools.product(*[range(d) for d in dims]):
            v = _ev(model, F(*idx))
            out[idx] = (1 if v else 0) if self.bits else v
        return self._np(out)

    def random(self, rng, env):
        dims = [d if isinstance(d, int) else _rand_eval(d, rng, env) for d in self.shape]
        return self._np(rng.integers(0, 2, size=dims) if self.bits else rng.integers(-1, 3, size=dims))

    def const(self, I, conc):
        a = const_nd(np.asarray(conc).astype(int))
        a.store.dtype = self.dtype
        return a

    def jsonable(self, conc):
        return {"dtype": self.dtype, "values": np.asarray(conc).tolist()}


def const_nd(a):
    a = np.asarray(a)
    if a.ndim == 1:
        vals = [int(x) for x in a]

        def f1(i):
            t = z3.IntVal(0)
            for k in range(len(vals) - 1, -1, -1):
                t = z3.If(to_z3(i) == k, z3.IntVal(vals[k]), t)
            return t

        return new_array((len(vals),), f1, "c1")
    if a.ndim >= 3:  # general rank: nested If-chain over the flattened index
        flat = {idx: int(a[idx]) for idx in np.ndindex(*a.shape)}

        def fn(*ix):
            t = z3.IntVal(0)
            for idx, v in reversed(list(flat.items())):
                t = z3.If(z3.And(*[to_z3(i) == k for i, k in zip(ix, idx)]), z3.IntVal(v), t)
            return t

        return new_array(tuple(a.shape), fn, f"c{a.ndim}")
    rows = [[int(x) for x in r] for r in a]

    def f2(i, j):
        t = z3.IntVal(0)
        for r in range(len(rows) - 1, -1, -1):
            rt = z3.IntVal(0)
            for c in range(len(rows[r]) - 1, -1, -1):
                rt = z3.If(to_z3(j) == c, z3.IntVal(rows[r][c]), rt)
            t = z3.If(to_z3(i) == r, rt, t)
        return t

    return new_array((a.shape[0], a.shape[1]), f2, "c2")


def random_symplectic(rng, n, steps=None):
    """table (2n x 2n, rows = destabilizers then stabilizers, columns = X part then Z part) of a random Clifford applied to
    |0..0>: column operations of H / P / CNOT on the identity tableau (independent of the repository's gate code)"""
    t = np.eye(2 * n, dtype=int)
    for _ in range(steps if steps is not None else 4 * n + 2):
        g = rng.integers(0, 3)
        a = int(rng.integers(0, n))
        if g == 0:  # H on a: swap x_a, z_a
            t[:, [a, n + a]] = t[:, [n + a, a]]
        elif g == 1:  # P on a: z_a ^= x_a
            t[:, n + a] ^= t[:, a]
        elif n > 1:  # CNOT a -> b: x_b ^= x_a, z_a ^= z_b
            b = int(rng.integers(0, n - 1))
            b = b if b < a else b + 1
            t[:, b] ^= t[:, a]
            t[:, n + a] ^= t[:, n + b]
    return t


def is_symplectic_tableau(conc):
    """rows pairwise commute except destabilizer i with stabilizer i (which anticommute): M Omega M^T = Omega over GF(2)"""
    n = conc["n"]
    t = np.asarray(conc["table"]).astype(int) % 2
    if t.shape != (2 * n, 2 * n):
        return False
    x, z = t[:, :n], t[:, n:]
    prod = (x @ z.T + z @ x.T) % 2
    om = np.zeros((2 * n, 2 * n), dtype=int)
    om[:n, n:] = np.eye(n, dtype=int)
    om[n:, :n] = np.eye(n, dtype=int)
    return bool(np.array_equal(prod, om))


class Clifford(Item):
    MOD = "graphiq.backends.stabilizer.clifford_tableau"

    def __init__(self, tag="T", n=None):
        self.name = tag
        self.tag = tag
        self.n = n  # z3 term or None (fresh n_<tag> >= 1)

    def nsym(self):
        return self.n if self.n is not None else z3.Int(f"n_{self.tag}")

    def symbolic(self, I):
        from contracts.common import mk_clifford

        return mk_clifford(I, self.tag, self.n)

    def concrete(self, model, env):
        n = _ev(model, self.nsym())
        if n > MAXDIM:
            raise ValueError("witness too large")
        B = z3.Function(f"{self.tag}_tab", z3.IntSort(), z3.IntSort(), z3.BoolSort())
        R = z3.Function(f"{self.tag}_r", z3.IntSort(), z3.BoolSort())
        Ip = z3.Function(f"{self.tag}_i", z3.IntSort(), z3.BoolSort())
        table = np.array([[_ev(model, B(i, j)) for j in range(2 * n)] for i in range(2 * n)], dtype=int).reshape(2 * n, 2 * n)
        phase = np.array([_ev(model, R(i)) for i in range(2 * n)], dtype=int)
        iphase = np.array([_ev(model, Ip(i)) for i in range(2 * n)], dtype=int)
        return {"n": n, "table": table, "phase": phase, "iphase": iphase}

    def random(self, rng, env):
        n = _rand_eval(self.nsym(), rng, env)
        if rng.integers(0, 2):  # half of the samples are VALID tableaux (random Clifford circuit on |0..0>, own numpy code)
            return {"n": n, "table": random_symplectic(rng, n), "phase": rng.integers(0, 2, size=(2 * n,)),
                    "iphase": np.zeros(2 * n, dtype=int)}
        return {"n": n, "table": rng.integers(0, 2, size=(2 * n, 2 * n)), "phase": rng.integers(0, 2, size=(2 * n,)),
                "iphase": rng.integers(0, 2, size=(2 * n,))}

    def real(self, conc):
        m = importlib.import_module(self.MOD)
        t = m.CliffordTableau(conc["table"].copy(), conc["phase"].copy())
        t._iphase = conc["iphase"].copy()
        return t

    def const(self, I, conc):
        cls = I.get_class(self.MOD, "CliffordTableau")
        o = Obj(cls)
        n = conc["n"]
        o.fields["_table"] = const_nd(conc["table"])
        o.fields["_phase"] = const_nd(conc["phase"])
        o.fields["_iphase"] = const_nd(conc["iphase"])
        o.fields["n_qubits"] = n
        o.fields["shape"] = (2 * n, 2 * n)
        return o

    def jsonable(self, conc):
        return {k: (np.asarray(v).tolist() if k != "n" else v) for k, v in conc.items()}


class Stabilizer(Item):
    MOD = "graphiq.backends.stabilizer.tableau"

    def __init__(self, tag="S", n=None):
        self.name = tag
        self.tag = tag
        self.n = n

    def nsym(self):
        return self.n if self.n is not None else z3.Int(f"n_{self.tag}")

    def symbolic(self, I):
        from contracts.common import mk_stabilizer

        return mk_stabilizer(I, self.tag, self.n)

    def concrete(self, model, env):
        n = _ev(model, self.nsym())
        if n > MAXDIM:
            raise ValueError("witness too large")
        B = z3.Function(f"{self.tag}_tab", z3.IntSort(), z3.IntSort(), z3.BoolSort())
        R = z3.Function(f"{self.tag}_r", z3.IntSort(), z3.BoolSort())
        table = np.array([[_ev(model, B(i, j)) for j in range(2 * n)] for i in range(n)], dtype=int).reshape(n, 2 * n)
        phase = np.array([_ev(model, R(i)) for i in range(n)], dtype=int)
        return {"n": n, "table": table, "phase": phase}

    def random(self, rng, env):
        n = _rand_eval(self.nsym(), rng, env)
        return {"n": n, "table": rng.integers(0, 2, size=(n, 2 * n)), "phase": rng.integers(0, 2, size=(n,))}

    def real(self, conc):
        m = importlib.import_module(self.MOD)
        return m.StabilizerTableau(conc["table"].copy(), conc["phase"].copy())

    def const(self, I, conc):
        cls = I.get_class(self.MOD, "StabilizerTableau")
        o = Obj(cls)
        n = conc["n"]
        o.fields["_table"] = const_nd(conc["table"])
        o.fields["_phase"] = const_nd(conc["phase"])
        o.fields["n_qubits"] = n
        o.fields["shape"] = (n, 2 * n)
        return o

    def jsonable(self, conc):
        return {k: (np.asarray(v).tolist() if k != "n" else v) for k, v in conc.items()}


# ------------------------------------------------------------------------------------------
# concrete comparison of a real result with an evaluated spec result
# ------------------------------------------------------------------------------------------

def eval_nd(a: NDArr):
    shp = [concrete_int(s) for s in a.shape]
    if None in shp:
        raise ValueError("symbolic shape in evaluated spec")
    out = np.zeros(shp, dtype=float)
    for idx in np.ndindex(*shp):
        v = z3.simplify(as_int_term(a.get(*[z3.IntVal(int(k)) for k in idx])))
        if z3.is_int_value(v):
            out[idx] = v.as_long()
        elif z3.is_rational_value(v):
            out[idx] = float(v.numerator_as_long()) / float(v.denominator_as_long())
        else:
            raise ValueError(f"spec element did not evaluate: {v}")
    return out


def diff(real, spec, path="result"):
    """-> None if equal else a text describing the first difference"""
    if isinstance(spec, NDArr):
        if not isinstance(real, np.ndarray):
            return f"{path}: expected an array, got {type(real).__name__}"
        try:
            e = eval_nd(spec)
        except ValueError as ex:
            return None if getattr(spec.store, "havoc", False) else f"{path}: {ex}"
        if e.shape != real.shape:
            return f"{path}: shape {real.shape}, contract says {e.shape}"
        if not np.array_equal(e, np.asarray(real, dtype=float)):
            return f"{path}: got {np.asarray(real).tolist()}, contract says {e.astype(int).tolist()}"
        return None
    from .values import Opaque as _Opq

    if isinstance(spec, _Opq) and isinstance(spec.payload, dict) and "n" in spec.payload and "adj" in spec.payload:
        # abstract networkx graph: compare the real graph's adjacency matrix (node order 0..n-1) with the contract's
        import networkx as nx

        if not isinstance(real, nx.Graph):
            return f"{path}: expected a networkx graph, got {type(real).__name__}"
        return diff(nx.to_numpy_array(real, nodelist=sorted(real.nodes())), new_array((spec.payload["n"], spec.payload["n"]), spec.payload["adj"], "adj"),
                    f"{path}.adjacency")
    if isinstance(spec, Obj):
        for f, v in spec.fields.items():
            if not hasattr(real, f):
                return f"{path}.{f}: missing on the real object"
            d = diff(getattr(real, f), v, f"{path}.{f}")
            if d:
                return d
        return None
    if isinstance(spec, SymDict):
        n = concrete_int(spec.length)
        if n is None:
            return None
        if not isinstance(real, dict):
            return f"{path}: expected a dict"
        return diff([[k, v] for k, v in real.items()], [[spec.key(z3.IntVal(k)), spec.val(z3.IntVal(k))] for k in range(n)], path)
    if isinstance(spec, SymList):
        n = concrete_int(spec.length)
        if n is None:
            return None  # unspecified length (spec did not evaluate)
        return diff(list(real) if isinstance(real, (list, tuple)) else real, [spec.get(z3.IntVal(k)) for k in range(n)], path)
    if isinstance(spec, (list, tuple)):
        if not isinstance(real, (list, tuple)) or len(real) != len(spec):
            return f"{path}: expected a sequence of length {len(spec)}, got {real!r}"
        for k, (r, s) in enumerate(zip(real, spec)):
            d = diff(r, s, f"{path}[{k}]")
            if d:
                return d
        return None
    if isinstance(spec, z3.ExprRef):
        v = z3.simplify(spec)
        if z3.is_int_value(v):
            sv = v.as_long()
        elif z3.is_true(v) or z3.is_false(v):
            sv = z3.is_true(v)
        else:
            return None  # unspecified (havoc) value
        if int(real) != int(sv):
            return f"{path}: got {real!r}, contract says {sv}"
        return None
    if spec is None:
        return None if real is None else f"{path}: expected None"
    try:
        if real != spec:
            return f"{path}: got {real!r}, contract says {spec!r}"
    except Exception:  # noqa: BLE001
        return None
    return None


def real_callable(qual):
    modname, q = qual.split(":")
    obj = importlib.import_module(modname)
    for part in q.split("."):
        obj = getattr(obj, part)
    return obj


class StabState(Item):
    """graphiq.backends.stabilizer.state.Stabilizer wrapping a symbolic CliffordTableau"""

    MOD = "graphiq.backends.stabilizer.state"

    def __init__(self, tag="T"):
        self.name = "state"
        self.inner = Clifford(tag)

    def symbolic(self, I):
        o = Obj(I.get_class(self.MOD, "Stabilizer"))
        o.fields["_tableau"] = self.inner.symbolic(I)
        return o

    def concrete(self, model, env):
        return self.inner.concrete(model, env)

    def random(self, rng, env):
        return self.inner.random(rng, env)

    def real(self, conc):
        m = importlib.import_module(self.MOD)
        return m.Stabilizer(self.inner.real(conc))

    def const(self, I, conc):
        o = Obj(I.get_class(self.MOD, "Stabilizer"))
        o.fields["_tableau"] = self.inner.const(I, conc)
        return o

    def jsonable(self, conc):
        return self.inner.jsonable(conc)


class ListOf(Item):
    """a Python list of fixed length whose elements are described by other items (e.g. a list of tableaux)"""

    def __init__(self, name, items):
        self.name, self.items = name, list(items)

    def symbolic(self, I):
        return [it.symbolic(I) for it in self.items]

    def concrete(self, model, env):
        return [it.concrete(model, env) for it in self.items]

    def random(self, rng, env):
        return [it.random(rng, env) for it in self.items]

    def real(self, conc):
        return [it.real(c) for it, c in zip(self.items, conc)]

    def const(self, I, conc):
        return [it.const(I, c) for it, c in zip(self.items, conc)]

    def jsonable(self, conc):
        return [it.jsonable(c) for it, c in zip(self.items, conc)]
