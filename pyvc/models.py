"""Assumed contracts [A] for Python builtins and the numpy/scipy calls that the verified graphiq code uses (DESIGN §2.2
npapi).  Each model is a `defines`-style spec on the index->term representation of arrays.  tests of these models against
the real libraries live in pyvc/npapi_check.py and run with every check.
"""
from __future__ import annotations

import ast

import z3

from .values import (NDArr, Store, Obj, ClsRef, FuncRef, Bound, Closure, ModRef, Builtin, Opaque, is_sym, to_z3,
                     as_int_term, concrete_int, new_array, const_array)

from .symlist import SymList as _SymList  # noqa: E402
from . import symlist as _symlist  # noqa: E402

USED = set()  # names of the [A] models exercised by the current run (reported in the evidence)


def _U(interp):
    from .interp import Undecided

    return Undecided


def _R(interp):
    from .interp import RaiseEx

    return RaiseEx


def used(name):
    USED.add(name)


# ------------------------------------------------------------------------------------------
# arithmetic / comparison
# ------------------------------------------------------------------------------------------

def _num(v):
    return isinstance(v, (int, float)) and not isinstance(v, bool) or isinstance(v, bool)


def _is_real(t):
    return isinstance(t, float) or (is_sym(t) and z3.is_real(t))


def scalar_binop(interp, op, a, b):
    from .interp import Undecided

    sym = is_sym(a) or is_sym(b)
    if not sym:
        try:
            if isinstance(op, ast.Add):
                return a + b
            if isinstance(op, ast.Sub):
                return a - b
            if isinstance(op, ast.Mult):
                return a * b
            if isinstance(op, ast.Div):
                return a / b
            if isinstance(op, ast.FloorDiv):
                return a // b
            if isinstance(op, ast.Mod):
                return a % b
            if isinstance(op, ast.Pow):
                return a**b
            if isinstance(op, ast.BitXor):
                return a ^ b
            if isinstance(op, ast.BitAnd):
                return a & b
            if isinstance(op, ast.BitOr):
                return a | b
        except ZeroDivisionError:
            raise interp_raise(interp, "ZeroDivisionError")
        raise Undecided("binop " + type(op).__name__)
    if isinstance(a, (str, list, tuple)) or isinstance(b, (str, list, tuple)):
        raise Undecided("symbolic op with sequence")
    x, y = as_int_term(a), as_int_term(b)
    if isinstance(op, ast.Add):
        return x + y
    if isinstance(op, ast.Sub):
        return x - y
    if isinstance(op, ast.Mult):
        return x * y
    if isinstance(op, ast.Div):
        return z3.ToReal(x) / z3.ToReal(y) if not (z3.is_real(x) and z3.is_real(y)) else x / y
    if isinstance(op, ast.Mod):
        m = concrete_int(b)
        if m is None or m <= 0:
            raise Undecided("% with non-constant or non-positive modulus")
        if z3.is_real(x):
            x = z3.ToInt(x)  # S2: float arrays hold integers
        return x % m
    if isinstance(op, ast.FloorDiv):
        m = concrete_int(b)
        if m is None or m <= 0:
            raise Undecided("// with non-constant or non-positive divisor")
        return x / m  # z3 integer division is floor for positive divisor
    if isinstance(op, ast.Pow):
        e = concrete_int(b)
        if e is not None and 0 <= e <= 4:
            r = z3.IntVal(1)
            for _ in range(e):
                r = r * x
            return r
        base = concrete_int(a)
        if base == 2:
            used("pow2 (uninterpreted, with 2**a * 2**b = 2**(a+b) only via localop)")
            return z3.Function("pow2", z3.IntSort(), z3.IntSort())(y)
        raise Undecided("** with symbolic operands")
    if isinstance(op, (ast.BitXor, ast.BitAnd, ast.BitOr)):
        # only accepted on operands proved to be bits (obligation), DESIGN §2.2
        name = interp.ob_name("bitop")
        ok = z3.And(x >= 0, x <= 1, y >= 0, y <= 1)
        interp.path.oblige(name, ok)
        interp.path.assume(ok)
        if isinstance(op, ast.BitXor):
            return (x + y) % 2
        if isinstance(op, ast.BitAnd):
            return x * y
        return z3.If(x + y >= 1, z3.IntVal(1), z3.IntVal(0))
    raise Undecided("binop " + type(op).__name__)


def interp_raise(interp, name, msg=""):
    from .interp import RaiseEx

    return RaiseEx(name, msg)


def binop(interp, op, a, b):
    from .interp import Undecided

    if isinstance(op, ast.MatMult):
        # a task may supply an abstract matrix algebra for `@` (opt-in hook; without it the array model below applies)
        h = interp.hooks.get("matmul")
        if h:
            r = h(interp, a, b)
            if r is not NotImplemented:
                return r
    if isinstance(a, NDArr) or isinstance(b, NDArr):
        return array_binop(interp, op, a, b)
    if isinstance(a, list) and isinstance(b, list) and isinstance(op, ast.Add):
        return a + b
    if isinstance(op, ast.Add) and (isinstance(a, _SymList) or isinstance(b, _SymList)) and \
            isinstance(a, (list, _SymList)) and isinstance(b, (list, _SymList)):
        return _symlist.concat(a, b)
    if isinstance(a, tuple) and isinstance(b, tuple) and isinstance(op, ast.Add):
        return a + b
    if isinstance(a, list) and isinstance(op, ast.Mult):
        k = concrete_int(b)
        if k is None:
            raise Undecided("list * symbolic")
        return a * k
    if isinstance(b, list) and isinstance(op, ast.Mult):
        k = concrete_int(a)
        if k is None:
            raise Undecided("symbolic * list")
        return k * b
    if isinstance(a, (set, frozenset)) and isinstance(b, (set, frozenset)):
        if isinstance(op, ast.Sub):
            return a - b
        if isinstance(op, ast.BitOr):
            return a | b
        if isinstance(op, ast.BitAnd):
            return a & b
    if isinstance(a, str) and isinstance(b, str) and isinstance(op, ast.Add):
        return a + b
    if isinstance(a, dict) and isinstance(b, dict) and isinstance(op, ast.BitOr):
        return {**a, **b}
    h = interp.hooks.get("binop")
    if h:
        r = h(interp, op, a, b)
        if r is not NotImplemented:
            return r
    return scalar_binop(interp, op, a, b)


def _bshape(interp, a, b):
    if isinstance(a, NDArr) and isinstance(b, NDArr):
        if a.ndim != b.ndim:
            if a.ndim == 2 and b.ndim == 1:
                return a.shape, (lambda rd: rd), (lambda rd: (lambda i, j: rd(j)))
            if a.ndim == 1 and b.ndim == 2:
                return b.shape, (lambda rd: (lambda i, j: rd(j))), (lambda rd: rd)
            raise _U(interp)("broadcast of arrays with ranks %d/%d" % (a.ndim, b.ndim))
        # same rank: shapes must agree (obligation) - no size-1 broadcasting in the accepted subset
        for k, (s, t) in enumerate(zip(a.shape, b.shape)):
            eq = to_z3(s) == to_z3(t) if (is_sym(s) or is_sym(t)) else (s == t)
            if isinstance(eq, bool):
                if not eq:
                    raise interp_raise(interp, "ValueError", "operands could not be broadcast together")
            else:
                nm = interp.ob_name("shape")
                interp.path.oblige(nm, eq)
                interp.path.assume(eq)
        return a.shape, (lambda rd: rd), (lambda rd: rd)
    arr = a if isinstance(a, NDArr) else b
    return arr.shape, (lambda rd: rd), (lambda rd: rd)


def array_binop(interp, op, a, b):
    if isinstance(op, ast.MatMult):
        return matmul(interp, a, b)
    shape, wa, wb = _bshape(interp, a, b)
    ra = wa(a.reader()) if isinstance(a, NDArr) else (lambda *i: a)
    rb = wb(b.reader()) if isinstance(b, NDArr) else (lambda *i: b)
    if isinstance(op, (ast.BitXor, ast.BitAnd, ast.BitOr)):
        # bit-operand obligation for a skolem index
        idx = [interp.path.fresh("k") for _ in shape]
        rng = [z3.And(i >= 0, i < to_z3(s)) for i, s in zip(idx, shape)]
        x, y = as_int_term(ra(*idx)), as_int_term(rb(*idx))
        nm = interp.ob_name("bitop")
        interp.path.oblige(nm, z3.And(x >= 0, x <= 1, y >= 0, y <= 1), extra=rng)
        # (assumed afterwards for every index through the definition below)

        if isinstance(op, ast.BitXor):
            return new_array(shape, lambda *i: (as_int_term(ra(*i)) + as_int_term(rb(*i))) % 2, "xor")
        if isinstance(op, ast.BitAnd):
            return new_array(shape, lambda *i: as_int_term(ra(*i)) * as_int_term(rb(*i)), "and")
        return new_array(shape, lambda *i: z3.If(as_int_term(ra(*i)) + as_int_term(rb(*i)) >= 1, z3.IntVal(1), z3.IntVal(0)), "or")

    class _Q:  # quiet interp for scalar ops inside closures: no obligations there
        pass

    def mk(*i):
        return scalar_binop(interp, op, ra(*i), rb(*i))

    if isinstance(op, ast.Mod):
        m = concrete_int(b)
        if m is None or m <= 0:
            raise _U(interp)("array % non-constant")
    return new_array(shape, mk, "arith")


MATMUL_UNROLL = 8  # inner dimensions up to this concrete size are summed explicitly


def matmul(interp, a, b):
    """[A] numpy matrix product of 2-D arrays (and 2-D @ 1-D): (A@B)[i,k] = sum_{j<N} A[i,j]*B[j,k]  (S2: exact arithmetic).
    Concrete inner dimension N <= MATMUL_UNROLL: the explicit sum.  Symbolic N: only when the contract author supplies, via
    the hook `matmul_support`, for every (i,k) at most two index terms outside of which the summand vanishes; this premise is
    PROVED at a skolem (i,k,j) (obligation `<func>:matmul.support#n`) and the product is then the closed form given by the
    L2 lemma SUM_SUPPORT2 (lemmas/matsum.py).  No hint -> undecided."""
    from .interp import Undecided

    if not (isinstance(a, NDArr) and isinstance(b, NDArr)) or a.ndim != 2 or b.ndim not in (1, 2):
        raise Undecided("matrix product of operands other than 2-D @ 2-D / 2-D @ 1-D arrays")
    used("ndarray @ ndarray: (A@B)[i,k] = sum_j A[i,j]*B[j,k] (exact arithmetic, S2)")
    N, M = a.shape[1], b.shape[0]
    eq = to_z3(N) == to_z3(M) if (is_sym(N) or is_sym(M)) else (N == M)
    if isinstance(eq, bool):
        if not eq:
            raise interp_raise(interp, "ValueError", "matmul: inner dimensions differ")
    else:
        nm = interp.ob_name("shape")
        interp.path.oblige(nm, eq)
        interp.path.assume(eq)
    ra, rb0 = a.reader(), b.reader()
    vec = b.ndim == 1
    rb = (lambda j, k: rb0(j)) if vec else rb0
    out_shape = (a.shape[0],) if vec else (a.shape[0], b.shape[1])

    def term(i, j, k):
        return as_int_term(ra(i, j)) * as_int_term(rb(j, k))

    n = concrete_int(N)
    if n is not None and n <= MATMUL_UNROLL:
        def elem(i, k):
            t = z3.IntVal(0)
            for j in range(n):
                t = t + term(i, z3.IntVal(j), k)
            return t
    else:
        h = interp.hooks.get("matmul_support")
        sup = h(interp, a, b) if h else None
        if sup is None:
            raise Undecided("matrix product with a symbolic inner dimension and no support hint (hook matmul_support)")
        from lemmas.matsum import closed_form

        used("matrix-product closed form via L2 SUM_SUPPORT2 (NOT assumed: proved by induction every run, obligations L2.sum_support2.*; its premise is the obligation matmul.support#k of the calling task)")
        path = interp.path
        i, k, j = path.fresh("mi"), path.fresh("mk"), path.fresh("mj")
        pts = list(sup(i, k))
        if len(pts) > 2:
            raise Undecided("matmul support hint with more than two points")
        rng = [i >= 0, i < to_z3(a.shape[0]), j >= 0, j < to_z3(N)] + [j != to_z3(p) for p in pts]
        if not vec:
            rng += [k >= 0, k < to_z3(b.shape[1])]
        path.oblige(interp.ob_name("matmul.support"), term(i, j, k) == 0, extra=rng)
        Nt = to_z3(N)

        def elem(i, k):
            return closed_form(lambda p: term(i, p, k), [to_z3(p) for p in sup(i, k)], Nt)

    if vec:
        return new_array(out_shape, lambda i: elem(i, z3.IntVal(0)), "matmul")
    return new_array(out_shape, elem, "matmul")


def compare(interp, op, a, b):
    from .interp import Undecided

    if isinstance(op, (ast.Is, ast.IsNot)):
        h = interp.hooks.get("is")  # identity tests on abstract values (e.g. `type(<abstract op>) is ops.CNOT` -> class-tag term)
        if h and (isinstance(a, Opaque) or isinstance(b, Opaque)):
            r = h(interp, a, b)
            if r is not NotImplemented:
                if isinstance(op, ast.Is):
                    return r
                return z3.Not(r) if is_sym(r) else (not r)
        r = (a is b) if not (is_sym(a) or is_sym(b)) else None
        if r is None:
            if a is None or b is None:
                r = False
            else:
                raise Undecided("`is` on symbolic values")
        if isinstance(a, (int, str)) and isinstance(b, (int, str)) and not isinstance(a, bool):
            r = a == b
        return r if isinstance(op, ast.Is) else not r
    from .symgraph import Templ, eq_term

    if (isinstance(a, Templ) or isinstance(b, Templ)) and isinstance(op, (ast.Eq, ast.NotEq)):
        r = eq_term(interp, a, b)
        if isinstance(op, ast.NotEq):
            return z3.Not(r) if not isinstance(r, bool) else (not r)
        return r
    if isinstance(op, (ast.In, ast.NotIn)):
        r = contains(interp, b, a)
        if isinstance(op, ast.NotIn):
            return z3.Not(r) if is_sym(r) else (not r)
        return r
    if isinstance(a, _SymList) and isinstance(b, _SymList) and isinstance(op, (ast.Eq, ast.NotEq)):
        # list equality: same length and equal elements position by position
        la, lb = to_z3(a.length), to_z3(b.length)
        if getattr(a, "sorted_nodes_of", None) is not None and getattr(b, "sorted_nodes_of", None) is not None:
            r = la == lb  # both are the sorted label lists [0..n-1] of abstract graphs
        else:
            kq = z3.Int(f"leq!{interp.path.counter.get('leq', 0)}")
            interp.path.counter["leq"] = interp.path.counter.get("leq", 0) + 1
            r = z3.And(la == lb, z3.ForAll([kq], z3.Implies(z3.And(kq >= 0, kq < la), as_int_term(a.get(kq)) == as_int_term(b.get(kq)))))
        used("== / != of two lists of symbolic length (length and elementwise)")
        return z3.Not(r) if isinstance(op, ast.NotEq) else r
    if isinstance(a, NDArr) or isinstance(b, NDArr):
        shape, wa, wb = _bshape(interp, a, b)
        ra = wa(a.reader()) if isinstance(a, NDArr) else (lambda *i: a)
        rb = wb(b.reader()) if isinstance(b, NDArr) else (lambda *i: b)
        return new_array(shape, lambda *i: as_int_term(compare(interp, op, ra(*i), rb(*i))), "cmp")
    if isinstance(a, tuple) and isinstance(b, tuple) and isinstance(op, (ast.Eq, ast.NotEq)):
        if len(a) != len(b):
            r = False
        else:
            parts = [compare(interp, ast.Eq(), x, y) for x, y in zip(a, b)]
            if all(isinstance(p, bool) for p in parts):
                r = all(parts)
            else:
                r = z3.And(*[to_z3(p) for p in parts])
        if isinstance(op, ast.NotEq):
            return z3.Not(r) if is_sym(r) else (not r)
        return r
    if is_sym(a) or is_sym(b):
        if isinstance(a, (str, type(None), list, dict, Obj, ClsRef)) or isinstance(b, (str, type(None), list, dict, Obj, ClsRef)):
            if isinstance(op, ast.Eq):
                return False
            if isinstance(op, ast.NotEq):
                return True
            raise Undecided("ordering between symbolic number and non-number")
        for u, v, flip in ((a, b, False), (b, a, True)):
            # a symbolic (finite, S3) number against +-inf
            if isinstance(v, float) and v in (float("inf"), float("-inf")) and is_sym(u):
                pos = v > 0
                if isinstance(op, ast.Eq):
                    return False
                if isinstance(op, ast.NotEq):
                    return True
                less = isinstance(op, (ast.Lt, ast.LtE))  # u < v ?
                if isinstance(op, (ast.Lt, ast.LtE, ast.Gt, ast.GtE)):
                    return (less == pos) if not flip else (less != pos)
        x, y = to_z3(a), to_z3(b)
        if z3.is_bool(x) != z3.is_bool(y):
            x, y = as_int_term(x), as_int_term(y)
        if isinstance(op, ast.Eq):
            return x == y
        if isinstance(op, ast.NotEq):
            return x != y
        x, y = as_int_term(x), as_int_term(y)
        if isinstance(op, ast.Lt):
            return x < y
        if isinstance(op, ast.LtE):
            return x <= y
        if isinstance(op, ast.Gt):
            return x > y
        if isinstance(op, ast.GtE):
            return x >= y
        raise Undecided("compare " + type(op).__name__)
    if isinstance(a, (Obj, Opaque)) or isinstance(b, (Obj, Opaque)):
        h = interp.hooks.get("compare")
        if h:
            r = h(interp, op, a, b)
            if r is not NotImplemented:
                return r
        if isinstance(op, ast.Eq):
            return a is b
        if isinstance(op, ast.NotEq):
            return a is not b
    try:
        if isinstance(op, ast.Eq):
            return a == b
        if isinstance(op, ast.NotEq):
            return a != b
        if isinstance(op, ast.Lt):
            return a < b
        if isinstance(op, ast.LtE):
            return a <= b
        if isinstance(op, ast.Gt):
            return a > b
        if isinstance(op, ast.GtE):
            return a >= b
    except TypeError:
        raise interp_raise(interp, "TypeError", "comparison")
    raise Undecided("compare " + type(op).__name__)


def _has_sym(v):
    from .symgraph import Templ

    if is_sym(v) or isinstance(v, Templ):
        return True
    if isinstance(v, (tuple, list)):
        return any(_has_sym(x) for x in v)
    return False


def _less_term(interp, a, b):
    """a < b for ints / strings / tuples (lexicographic) -> bool or z3 Bool"""
    from .interp import Undecided

    if isinstance(a, tuple) and isinstance(b, tuple):
        if not a:
            return bool(b)
        if not b:
            return False
        lt = _less_term(interp, a[0], b[0])
        eq = compare(interp, ast.Eq(), a[0], b[0])
        rest = _less_term(interp, a[1:], b[1:])
        if all(isinstance(x, bool) for x in (lt, eq, rest)):
            return lt or (eq and rest)
        tz = lambda x: z3.BoolVal(x) if isinstance(x, bool) else x
        return z3.Or(tz(lt), z3.And(tz(eq), tz(rest)))
    if is_sym(a) or is_sym(b):
        return compare(interp, ast.Lt(), a, b)
    if type(a) is type(b) or (isinstance(a, (int, float)) and isinstance(b, (int, float))):
        return a < b
    raise Undecided("ordering of mixed values")


def _decide_less(interp, a, b):
    r = _less_term(interp, a, b)
    return r if isinstance(r, bool) else interp.path.decide(r)


def contains(interp, container, item):
    from .interp import Undecided

    if isinstance(container, NDArr):
        n = concrete_int(container.shape[0])
        if container.ndim == 1 and n is not None:
            parts = [compare(interp, ast.Eq(), item, container.get(k)) for k in range(n)]
            if all(isinstance(p, bool) for p in parts):
                return any(parts)
            return z3.Or(*[to_z3(p) for p in parts])
        h = interp.hooks.get("contains")
        if h:
            r = h(interp, container, item)
            if r is not None:
                return r
        raise Undecided("`in` on symbolic-length array")
    if isinstance(container, (list, tuple, set, frozenset)):
        if not _has_sym(item) and not any(_has_sym(c) for c in container):
            return item in container
        parts = [compare(interp, ast.Eq(), item, c) for c in container]
        if all(isinstance(p, bool) for p in parts):
            return any(parts)
        return z3.Or(*[to_z3(p) for p in parts]) if parts else False
    if isinstance(container, dict):
        if is_sym(item):
            raise Undecided("symbolic key in dict")
        return item in container
    if isinstance(container, str):
        return item in container
    h = interp.hooks.get("contains")
    if h:
        r = h(interp, container, item)
        if r is not None:
            return r
    raise Undecided(f"`in` on {type(container).__name__}")


# ------------------------------------------------------------------------------------------
# numpy indexing
# ------------------------------------------------------------------------------------------

def _index_parts(interp, arr, slice_node):
    """-> list of per-axis index descriptors: ('int', term) | ('slice', lo, hi) | ('list', [terms]) | ('arr', NDArr)"""
    from .interp import Undecided

    if isinstance(slice_node, ast.Tuple):
        nodes = list(slice_node.elts)
    else:
        nodes = [slice_node]
    parts = []
    for nd in nodes:
        if isinstance(nd, ast.Slice):
            if nd.step is not None:
                raise Undecided("strided slice of an array")
            lo = interp.eval(nd.lower) if nd.lower is not None else None
            hi = interp.eval(nd.upper) if nd.upper is not None else None
            parts.append(("slice", lo, hi))
        else:
            v = interp.eval(nd)
            if isinstance(v, Opaque) and v.tag == "ix" and len(nodes) == 1:
                return [("ix", v.payload)]
            if isinstance(v, tuple) and v and v[0] == "slice":
                parts.append(("slice", v[1], v[2]))
            elif isinstance(v, (list, tuple)):
                parts.append(("list", list(v)))
            elif isinstance(v, NDArr):
                parts.append(("arr", v))
            elif isinstance(v, range):
                parts.append(("list", list(v)))
            else:
                parts.append(("int", v))
    while len(parts) < arr.ndim:
        parts.append(("slice", None, None))
    if len(parts) > arr.ndim:
        raise interp_raise(interp, "IndexError", "too many indices for array")
    return parts


def _norm_index(interp, term, length, what="index"):
    """index-bounds obligation: 0 <= idx < length.  (S6: negative indices are rejected, call sites must establish >= 0)"""
    t = to_z3(term) if not isinstance(term, int) else term
    L = length
    if isinstance(t, int) and isinstance(L, int):
        if t < 0:
            t += L
        if not (0 <= t < L):
            raise interp_raise(interp, "IndexError", f"{what} {term} out of bounds for axis of size {L}")
        return t
    if isinstance(t, int) and t < 0:
        return to_z3(L) + t
    g = z3.And(to_z3(t) >= 0, to_z3(t) < to_z3(L))
    nm = interp.ob_name("index")
    interp.path.oblige(nm, g)
    interp.path.assume(g)
    return t


def _slice_bounds(interp, lo, hi, length):
    from .interp import Undecided

    lo = 0 if lo is None else lo
    hi = length if hi is None else hi
    if isinstance(lo, int) and lo < 0:
        lo = length + lo
    if isinstance(hi, int) and hi < 0:
        hi = length + hi
    # numpy clips slices; the accepted subset requires 0 <= lo <= hi <= length (obligation)
    if all(isinstance(x, int) for x in (lo, hi, length)):
        lo = max(0, min(lo, length))
        hi = max(lo, min(hi, length))
        return lo, hi - lo
    g = z3.And(to_z3(lo) >= 0, to_z3(lo) <= to_z3(hi), to_z3(hi) <= to_z3(length))
    nm = interp.ob_name("slice")
    interp.path.oblige(nm, g)
    interp.path.assume(g)
    return lo, z3.simplify(to_z3(hi) - to_z3(lo)) if (is_sym(hi) or is_sym(lo)) else hi - lo


def nd_row(arr, k):
    axes = list(arr.axes)
    # local axis 0 becomes fixed
    new_axes = []
    for ax in axes:
        if ax[0] == "var" and ax[1] == 0:
            new_axes.append(("fix", k + ax[2] if not (isinstance(ax[2], int) and ax[2] == 0) else k))
        elif ax[0] == "var":
            new_axes.append(("var", ax[1] - 1, ax[2]))
        else:
            new_axes.append(ax)
    return NDArr(arr.store, new_axes, arr.shape[1:])


def nd_getitem(interp, arr, slice_node):
    from .interp import Undecided

    used("ndarray basic/fancy indexing")
    parts = _index_parts(interp, arr, slice_node)
    if parts and parts[0][0] == "ix":
        return _ix_get(interp, arr, parts[0][1])
    # boolean-mask indexing: 1-D only, handled by hook (symbolic length result)
    if any(p[0] in ("list", "arr") for p in parts):
        return _fancy_get(interp, arr, parts)
    new_axes = list(arr.axes)
    new_shape = []
    # map local axis k -> descriptor
    fix = {}
    var = {}
    for k, p in enumerate(parts):
        L = arr.shape[k]
        if p[0] == "int":
            fix[k] = _norm_index(interp, p[1], L)
        else:
            off, ln = _slice_bounds(interp, p[1], p[2], L)
            var[k] = (off, ln)
    out_axes = []
    newk = {}
    nk = 0
    for k in range(arr.ndim):
        if k in var:
            newk[k] = nk
            nk += 1
            new_shape.append(var[k][1])
    for ax in arr.axes:
        if ax[0] == "fix":
            out_axes.append(ax)
        else:
            k, off = ax[1], ax[2]
            if k in fix:
                out_axes.append(("fix", _add(fix[k], off)))
            else:
                out_axes.append(("var", newk[k], _add(var[k][0], off)))
    if not new_shape:
        # scalar element
        return arr.store.f(*[ax[1] for ax in out_axes])
    return NDArr(arr.store, out_axes, new_shape)


def _np_ix(interp, *seqs):
    """[A] np.ix_(s0, s1): open mesh; only its use as the complete index of a 2-D array is modelled (a[np.ix_(r, c)][i, j] =
    a[r[i], c[j]], a fresh array)"""
    used("np.ix_ (open mesh used as a gather index)")
    return Opaque("ix", list(seqs))


def _ix_get(interp, arr, seqs):
    from .interp import Undecided

    if arr.ndim != 2 or len(seqs) != 2:
        raise Undecided("np.ix_ gather on a non 2-D array")
    rd = arr.reader()
    getters, lens = [], []
    for s_, L in zip(seqs, arr.shape):
        if isinstance(s_, NDArr) and s_.ndim == 1:
            g, ln = s_.reader(), s_.shape[0]
        elif isinstance(s_, (list, tuple)):
            vals = list(s_)
            g, ln = (lambda k, _v=vals: _select(_v, k)), len(vals)
        elif isinstance(s_, _SymList):
            g, ln = s_.elem, s_.length
        else:
            raise Undecided("np.ix_ of an unsupported sequence")
        k = interp.path.fresh("ixk")
        rng = z3.And(k >= 0, k < to_z3(ln))
        ok = z3.And(to_z3(g(k)) >= 0, to_z3(g(k)) < to_z3(L))
        interp.path.oblige(interp.ob_name("index"), ok, extra=[rng])
        kq = z3.Int(f"ixq!{interp.path.counter.get('ixq', 0)}")
        interp.path.counter["ixq"] = interp.path.counter.get("ixq", 0) + 1
        interp.path.assume(z3.ForAll([kq], z3.Implies(z3.And(kq >= 0, kq < to_z3(ln)),
                                                      z3.And(to_z3(g(kq)) >= 0, to_z3(g(kq)) < to_z3(L)))))
        getters.append(g)
        lens.append(ln)
    return new_array((lens[0], lens[1]), lambda i, j: rd(to_z3(getters[0](i)), to_z3(getters[1](j))), "gather")


def _select(vals, k):
    t = as_int_term(vals[-1])
    for m in range(len(vals) - 2, -1, -1):
        t = z3.If(to_z3(k) == m, as_int_term(vals[m]), t)
    return t


def _add(a, b):
    if isinstance(a, int) and isinstance(b, int):
        return a + b
    if isinstance(b, int) and b == 0:
        return a
    if isinstance(a, int) and a == 0:
        return b
    return to_z3(a) + to_z3(b)


def _fancy_get(interp, arr, parts):
    """a[[i,j]] , a[:, [i,j]], a[idx_array] -> fresh copy"""
    from .interp import Undecided

    if sum(1 for p in parts if p[0] in ("list", "arr")) != 1:
        raise Undecided("more than one fancy index")
    rd = arr.reader()
    ax = [k for k, p in enumerate(parts) if p[0] in ("list", "arr")][0]
    p = parts[ax]
    if p[0] == "arr":
        ia = p[1]
        if ia.ndim != 1:
            raise Undecided("fancy index by a 2-D array")
        h = interp.hooks.get("mask_index")
        if h:
            r = h(interp, arr, ia, ax)
            if r is not None:
                return r
        n = concrete_int(ia.shape[0])
        if n is None:
            # symbolic-length index vector: result row k = arr[ia[k]]
            ird = ia.reader()
            others = [q for k, q in enumerate(parts) if k != ax]
            if any(q[0] != "slice" or q[1] is not None or q[2] is not None for q in others):
                raise Undecided("fancy index + partial slice")
            if arr.ndim == 1:
                return new_array((ia.shape[0],), lambda k: rd(ird(k)), "take")
            if ax == 0:
                return new_array((ia.shape[0], arr.shape[1]), lambda k, j: rd(ird(k), j), "take")
            return new_array((arr.shape[0], ia.shape[0]), lambda i, k: rd(i, ird(k)), "take")
        idxs = [ia.get(k) for k in range(n)]
    else:
        idxs = p[1]
    idxs = [_norm_index(interp, t, arr.shape[ax], "fancy index") for t in idxs]
    others = [q for k, q in enumerate(parts) if k != ax]
    if any(q[0] != "slice" or q[1] is not None or q[2] is not None for q in others):
        raise Undecided("fancy index combined with a partial slice/int")

    def sel(k):
        # value of idxs[k] for symbolic k: If-chain
        t = to_z3(idxs[-1])
        for m in range(len(idxs) - 2, -1, -1):
            t = z3.If(k == m, to_z3(idxs[m]), t)
        return t

    n = len(idxs)
    if arr.ndim == 1:
        return new_array((n,), lambda k: rd(sel(k)), "take")
    if ax == 0:
        return new_array((n, arr.shape[1]), lambda k, j: rd(sel(k), j), "take")
    return new_array((arr.shape[0], n), lambda i, k: rd(i, sel(k)), "take")


def _value_reader(interp, v, shape):
    """reader for the RHS of an array assignment, broadcast to `shape`"""
    from .interp import Undecided

    if isinstance(v, NDArr):
        rd = v.reader()
        if v.ndim == len(shape):
            for s, t in zip(v.shape, shape):
                eq = (to_z3(s) == to_z3(t)) if (is_sym(s) or is_sym(t)) else (s == t)
                if isinstance(eq, bool):
                    if not eq:
                        raise interp_raise(interp, "ValueError", f"could not broadcast input array from shape {v.shape} into shape {shape}")
                else:
                    nm = interp.ob_name("shape")
                    interp.path.oblige(nm, eq)
                    interp.path.assume(eq)
            return rd
        if v.ndim == 1 and len(shape) == 2:
            return lambda i, j: rd(j)
        raise Undecided("broadcast in array store")
    if isinstance(v, (list, tuple)):
        vals = list(v)
        if len(shape) == 1:
            n = concrete_int(shape[0])
            if n is not None and n != len(vals):
                raise interp_raise(interp, "ValueError", "shape mismatch in store")

            def rd1(k):
                t = as_int_term(vals[-1])
                for m in range(len(vals) - 2, -1, -1):
                    t = z3.If(k == m, as_int_term(vals[m]), t)
                return t

            return rd1
        raise Undecided("list stored into 2-D region")
    return lambda *i: v


def nd_setitem(interp, arr, slice_node, v):
    from .interp import Undecided

    used("ndarray element/slice/fancy assignment")
    if getattr(arr.store, "maybe_alias", False):
        raise Undecided("in-place write to the result of np.asarray(<ndarray>): whether it aliases the argument depends on the dtype")
    interp.note_write(arr.store, "elements")
    parts = _index_parts(interp, arr, slice_node)
    if any(p[0] in ("list", "arr") for p in parts):
        return _fancy_set(interp, arr, parts, v)
    # basic: build the view then assign
    tmp = nd_getitem_parts(interp, arr, parts)
    if not isinstance(tmp, NDArr):
        # single element store
        sidx = tmp
        old = arr.store.f
        val = as_int_term(v) if not isinstance(v, NDArr) else None
        if val is None:
            raise Undecided("array stored into a scalar element")

        def f(*s):
            return z3.If(z3.And(*[a == b for a, b in zip(s, sidx)]), val, old(*s))

        arr.store.f = f
        return
    rd = _value_reader(interp, v, tmp.shape)
    tmp.assign_from(rd)


def nd_getitem_parts(interp, arr, parts):
    fix, var = {}, {}
    for k, p in enumerate(parts):
        L = arr.shape[k]
        if p[0] == "int":
            fix[k] = _norm_index(interp, p[1], L)
        else:
            var[k] = _slice_bounds(interp, p[1], p[2], L)
    newk, nk, new_shape = {}, 0, []
    for k in range(arr.ndim):
        if k in var:
            newk[k] = nk
            nk += 1
            new_shape.append(var[k][1])
    out_axes = []
    for ax in arr.axes:
        if ax[0] == "fix":
            out_axes.append(ax)
        else:
            k, off = ax[1], ax[2]
            if k in fix:
                out_axes.append(("fix", _add(fix[k], off)))
            else:
                out_axes.append(("var", newk[k], _add(var[k][0], off)))
    if not new_shape:
        return tuple(ax[1] for ax in out_axes)
    return NDArr(arr.store, out_axes, new_shape)


def _fancy_set(interp, arr, parts, v):
    from .interp import Undecided

    if sum(1 for p in parts if p[0] in ("list", "arr")) != 1:
        raise Undecided("more than one fancy index in store")
    ax = [k for k, p in enumerate(parts) if p[0] in ("list", "arr")][0]
    p = parts[ax]
    if p[0] == "arr":
        n = concrete_int(p[1].shape[0])
        if n is None or p[1].ndim != 1:
            raise Undecided("fancy store through a symbolic-length index array")
        idxs = [p[1].get(k) for k in range(n)]
    else:
        idxs = p[1]
    idxs = [_norm_index(interp, t, arr.shape[ax], "fancy index") for t in idxs]
    others = [q for k, q in enumerate(parts) if k != ax]
    if any(q[0] != "slice" or q[1] is not None or q[2] is not None for q in others):
        raise Undecided("fancy store combined with a partial slice/int")
    n = len(idxs)
    if arr.ndim == 1:
        shape = (n,)
    elif ax == 0:
        shape = (n, arr.shape[1])
    else:
        shape = (arr.shape[0], n)
    rd = _value_reader(interp, v, shape)
    # write through the view `arr` (full range on the other axes); later list entries win (numpy assigns in order)
    full = arr
    old = full.store.f

    def f(*sidx):
        c, loc = full.region_and_inverse(sidx)
        res = old(*sidx)
        for m in range(n):
            if arr.ndim == 1:
                hit = loc[0] == to_z3(idxs[m])
                val = rd(m)
            elif ax == 0:
                hit = loc[0] == to_z3(idxs[m])
                val = rd(m, loc[1])
            else:
                hit = loc[1] == to_z3(idxs[m])
                val = rd(loc[0], m)
            res = z3.If(z3.And(c, hit), as_int_term(val), res)
        return res

    full.store.f = f


# ------------------------------------------------------------------------------------------
# attributes / methods of values
# ------------------------------------------------------------------------------------------

def value_attr(interp, obj, attr):
    from .interp import Undecided, RaiseEx

    if isinstance(obj, NDArr):
        if attr == "shape":
            return tuple(obj.shape)
        if attr == "ndim":
            return obj.ndim
        if attr == "size":
            s = obj.shape[0]
            for t in obj.shape[1:]:
                s = s * t
            return s
        if attr == "T":
            if obj.ndim == 1:
                return obj
            rd_arr = obj
            axes = []
            for ax in obj.axes:
                if ax[0] == "var":
                    axes.append(("var", 1 - ax[1], ax[2]))
                else:
                    axes.append(ax)
            return NDArr(obj.store, axes, (obj.shape[1], obj.shape[0]))
        if attr == "astype":
            def astype(interp_, typ=None, *a, **k):
                if isinstance(typ, Builtin) and typ.name == "bool":
                    used("ndarray.astype(bool) (copy; entry -> 1 if non-zero else 0)")
                    rd_ = obj.reader()
                    return new_array(obj.shape, lambda *i: z3.If(as_int_term(rd_(*i)) != 0, z3.IntVal(1), z3.IntVal(0)), "asbool")
                cp = k.get("copy", True)
                if a or set(k) - {"copy"}:
                    raise Undecided("ndarray.astype with order / casting / subok arguments")
                if cp is False:
                    # [A] numpy: astype(t, copy=False) returns the array ITSELF when the dtype already matches, a converted copy
                    # otherwise.  Exact when the engine knows the dtype of the buffer (schema inputs); otherwise `maybe_alias`
                    used("ndarray.astype(int, copy=False) (alias when the dtype matches)")
                    want = getattr(typ, "name", None) or getattr(typ, "__name__", None) or str(typ)
                    want = {"int": "int", "float": "float", "int64": "int", "float64": "float"}.get(want)
                    have = getattr(obj.store, "dtype", None)
                    if want is not None and have is not None:
                        return obj if want == have else obj.snapshot()
                    r = obj.snapshot()
                    r.store.maybe_alias = True
                    return r
                if cp is not True:
                    raise Undecided("ndarray.astype with a symbolic copy flag")
                used("ndarray.astype(int) (copy; identity on integer-valued contents, S2)")
                return obj.snapshot()
            return Builtin("astype", astype)
        if attr == "copy":
            return Builtin("copy", lambda interp_, *a, **k: obj.snapshot())
        if attr == "flatten":
            if obj.ndim == 1:
                return Builtin("flatten", lambda interp_: obj.snapshot())
        if attr == "trace":
            raise Undecided("ndarray.trace")
        if attr == "any" and obj.ndim == 2:
            def any_rows(interp_, axis=None):
                """[A] M.any(axis=1) for a matrix with a symbolic number of columns: a 0/1 vector A with, for every row i,
                A(i) = 1 -> M[i, W(i)] != 0 for a witness column W(i) in range;  A(i) = 0 -> forall j in range: M[i, j] == 0"""
                if concrete_int(axis) != 1:
                    raise Undecided("ndarray.any with an axis other than 1")
                used("ndarray.any(axis=1) (2-D): per-row fresh Bool with its two-sided characterisation (witness function / quantified)")
                path = interp_.path
                c = path.counter.get("anyrows", 0)
                path.counter["anyrows"] = c + 1
                ANY = z3.Function(f"ANYROW{c}", z3.IntSort(), z3.BoolSort())
                W = z3.Function(f"ANYCOL{c}", z3.IntSort(), z3.IntSort())
                rd_ = obj.reader()
                rows, cols = to_z3(obj.shape[0]), to_z3(obj.shape[1])
                i_, j_ = z3.Int(f"anyr{c}"), z3.Int(f"anyc{c}")
                path.assume(z3.ForAll([i_], z3.Implies(z3.And(i_ >= 0, i_ < rows, ANY(i_)),
                                                      z3.And(W(i_) >= 0, W(i_) < cols, as_int_term(rd_(i_, W(i_))) != 0)), patterns=[ANY(i_)]))
                path.assume(z3.ForAll([i_, j_], z3.Implies(z3.And(i_ >= 0, i_ < rows, z3.Not(ANY(i_)), j_ >= 0, j_ < cols),
                                                          as_int_term(rd_(i_, j_)) == 0)))
                out = new_array((obj.shape[0],), lambda k_: z3.If(ANY(to_z3(k_)), z3.IntVal(1), z3.IntVal(0)), "any_rows")
                out.store.is_bool = True
                path.ghost.setdefault("anyrows", {})[out.store.id] = dict(ANY=ANY, W=W, rd=rd_, rows=rows, cols=cols)
                return out
            return Builtin("any", any_rows)
        if attr == "reshape":
            return Builtin("reshape", lambda interp_, *shape, **k: nd_reshape(interp_, obj, shape, k))
        raise Undecided(f"ndarray.{attr}")
    if isinstance(obj, _symlist.SymDict):
        if attr == "get":
            b = Builtin("get", lambda interp_, k_, d_=None: _symlist.dict_lookup(interp_, obj, k_))
            b.symdict_get_of = obj
            return b
        raise Undecided(f"dict.{attr} on a dict of symbolic size")
    if isinstance(obj, _SymList):
        if attr == "append":
            def sapp(interp_, x):
                interp_.note_write(obj, "append")
                obj.append(x)
            return Builtin("append", sapp)
        if attr == "copy":
            return Builtin("copy", lambda interp_: obj.copy())
        if attr == "remove":
            def srem(interp_, x):
                # [A] l.remove(x) removes the FIRST occurrence; for x = l[0] (syntactically) that is position 0: the tail remains
                first = obj.elem(z3.IntVal(0))
                if not (is_sym(x) and z3.simplify(to_z3(x)).eq(z3.simplify(to_z3(first)))):
                    raise Undecided("list.remove(x) on a list of symbolic length with x other than its first element")
                interp_.path.oblige(interp_.ob_name("remove-from-non-empty"), to_z3(obj.length) > 0)
                used("l.remove(l[0]) on a symbolic-length list = the list without its first element")
                interp_.note_write(obj, "remove")
                t = obj.tail(1)
                obj.length, obj.elem = t.length, t.elem
            return Builtin("remove", srem)
        raise Undecided(f"list.{attr} on a list of symbolic length")
    if isinstance(obj, list):
        if attr == "append":
            def app(interp_, x):
                interp_.note_write(obj, "append")
                obj.append(x)
            return Builtin("append", app)
        if attr == "extend":
            def ext(interp_, xs):
                interp_.note_write(obj, "extend")
                obj.extend(interp_.iterate(xs))
            return Builtin("extend", ext)
        if attr == "reverse":
            def rev(interp_):
                interp_.note_write(obj, "reverse")
                obj.reverse()
            return Builtin("reverse", rev)
        if attr == "remove":
            def rem(interp_, x):
                if _has_sym(x) or any(_has_sym(e) for e in obj):
                    for k, e in enumerate(obj):
                        r = compare(interp_, ast.Eq(), e, x)
                        if (r if isinstance(r, bool) else interp_.path.decide(r)):
                            interp_.note_write(obj, "remove")
                            del obj[k]
                            return
                    raise RaiseEx("ValueError", "list.remove(x): x not in list")
                interp_.note_write(obj, "remove")
                try:
                    obj.remove(x)
                except ValueError:
                    raise RaiseEx("ValueError", "list.remove")
            return Builtin("remove", rem)
        if attr == "pop":
            def pop(interp_, k=-1):
                interp_.note_write(obj, "pop")
                kk = concrete_int(k)
                if kk is None:
                    raise Undecided("pop symbolic index")
                try:
                    return obj.pop(kk)
                except IndexError:
                    raise RaiseEx("IndexError", "pop")
            return Builtin("pop", pop)
        if attr == "insert":
            def ins(interp_, k, x):
                kk = concrete_int(k)
                if kk is None:
                    raise Undecided("insert symbolic index")
                interp_.note_write(obj, "insert")
                obj.insert(kk, x)
            return Builtin("insert", ins)
        if attr == "index":
            def index(interp_, x):
                for k, e in enumerate(obj):
                    if (e is x) or (not is_sym(e) and not is_sym(x) and e == x):
                        return k
                raise RaiseEx("ValueError", "index")
            return Builtin("index", index)
        if attr == "copy":
            return Builtin("copy", lambda interp_: list(obj))
        if attr == "sort":
            def srt(interp_, key=None, reverse=False):
                if any(is_sym(e) for e in obj) or key is not None:
                    raise Undecided("sort of symbolic list")
                obj.sort(reverse=bool(reverse))
            return Builtin("sort", srt)
        if attr == "count":
            return Builtin("count", lambda interp_, x: obj.count(x))
    if isinstance(obj, dict):
        if attr == "keys":
            return Builtin("keys", lambda interp_: list(obj.keys()))
        if attr == "values":
            return Builtin("values", lambda interp_: list(obj.values()))
        if attr == "items":
            return Builtin("items", lambda interp_: list(obj.items()))
        if attr == "get":
            return Builtin("get", lambda interp_, k, d=None: obj.get(k, d))
        if attr == "pop":
            def dpop(interp_, k, *d):
                if k in obj:
                    interp_.note_write(obj, "pop")
                    return obj.pop(k)
                if d:
                    return d[0]
                raise RaiseEx("KeyError", str(k))
            return Builtin("pop", dpop)
        if attr == "update":
            def dupd(interp_, other):
                interp_.note_write(obj, "update")
                obj.update(other)
            return Builtin("update", dupd)
        if attr == "copy":
            return Builtin("copy", lambda interp_: dict(obj))
    if isinstance(obj, (set, frozenset)):
        if attr == "add":
            def sadd(interp_, x):
                interp_.note_write(obj, "add")
                obj.add(x)
            return Builtin("add", sadd)
        if attr == "remove":
            def srem(interp_, x):
                interp_.note_write(obj, "remove")
                obj.remove(x)
            return Builtin("remove", srem)
    if isinstance(obj, str):
        if attr in ("join", "format", "lower", "upper", "startswith", "endswith", "split", "strip", "replace"):
            def strm(interp_, *a):
                if any(is_sym(x) for x in a):
                    raise Undecided("string method on symbolic")
                a2 = [list(x) if isinstance(x, tuple) else x for x in a]
                if attr == "join" and len(a2) == 1 and any(getattr(x, "__tokstr__", False) for x in interp_.iterate(a2[0])):
                    from .tokstr import join as _tjoin

                    return _tjoin(obj, interp_.iterate(a2[0]))
                return getattr(obj, attr)(*a2)
            return Builtin(attr, strm)
    if isinstance(obj, tuple):
        if attr == "index":
            return Builtin("index", lambda interp_, x: obj.index(x))
        if attr == "count":
            return Builtin("count", lambda interp_, x: obj.count(x))
    h = interp.hooks.get("getattr")
    if h:
        r = h(interp, obj, attr)
        if r is not NotImplemented:
            return r
    raise Undecided(f"attribute {attr} of {type(obj).__name__}")


def nd_reshape(interp, arr, shape, kwargs=None):
    """[A] ndarray.reshape (C order) -> a fresh array (copy; the accepted subset never writes through a reshaped view).
    Row-major linear index L of the new position = linear index of the old one.  Accepted: every dimension except the
    leading one concrete on both sides (so ravel/unravel are linear / division by constants); dimensions of size 1 are
    ignored.  The element count must agree (obligation)."""
    from .interp import Undecided

    if kwargs:
        raise Undecided("reshape with keyword arguments")
    if len(shape) == 1 and isinstance(shape[0], (tuple, list)):
        shape = tuple(shape[0])
    shape = tuple(shape)
    if any(concrete_int(s) is not None and concrete_int(s) < 0 for s in shape):
        raise Undecided("reshape with -1")
    used("ndarray.reshape (C order, copy)")

    def strides(shp):
        tail = [concrete_int(s) for s in shp[1:]]
        if any(t is None for t in tail):
            raise Undecided("reshape with a symbolic non-leading dimension")
        st, acc = [], 1
        for t in reversed(tail):
            st.append(acc)
            acc *= t
        st.append(acc)
        return list(reversed(st)), tail

    st_new, tail_new = strides(shape)
    st_old, tail_old = strides(arr.shape)

    def size(shp):
        t = to_z3(shp[0])
        for s_ in shp[1:]:
            t = t * to_z3(s_)
        return t

    eq = z3.simplify(size(shape) == size(arr.shape))
    if z3.is_false(eq):
        raise interp_raise(interp, "ValueError", "cannot reshape array")
    if not z3.is_true(eq):
        nm = interp.ob_name("reshape.size")
        interp.path.oblige(nm, eq)
        interp.path.assume(eq)
    rd = arr.reader()

    def elem(*idx):
        L = z3.IntVal(0)
        for i_, s_ in zip(idx, st_new):
            L = L + to_z3(i_) * s_
        old = []
        for k_, s_ in enumerate(st_old):
            q = L / s_ if s_ != 1 else L
            if k_ > 0:
                q = q % tail_old[k_ - 1] if tail_old[k_ - 1] != 1 else z3.IntVal(0)
            old.append(z3.simplify(q))
        return rd(*old)

    return new_array(shape, elem, "reshape")


def all_of_symlist(interp, lst):
    """[A] all(l) for a list of symbolic length: a fresh Bool r with  r -> (forall m<len: l[m] truthy)  and
    not r -> (0 <= w < len and l[w] falsy) for a fresh witness w (recorded in path.ghost['all_calls'])"""
    used("all(list of symbolic length) = fresh Bool with its two-sided characterisation")
    path = interp.path
    r, w = path.fresh("all", "bool"), path.fresh("allw")
    n = to_z3(lst.length)
    c = path.counter.get("allq", 0)
    path.counter["allq"] = c + 1
    m = z3.Int(f"allq!{c}")
    elem = lst.elem
    path.assume(z3.Implies(r, z3.ForAll([m], z3.Implies(z3.And(m >= 0, m < n), as_int_term(elem(m)) != 0))))
    path.assume(z3.Implies(z3.Not(r), z3.And(w >= 0, w < n, as_int_term(elem(w)) == 0)))
    path.ghost.setdefault("all_calls", []).append(dict(result=r, witness=w, length=n, elem=elem))
    return r


def any_of_symlist(interp, lst):
    """[A] any(l) for a list of symbolic length: fresh Bool r,  r -> (0 <= w < len and l[w] truthy),  not r -> all falsy"""
    used("any(list of symbolic length) = fresh Bool with its two-sided characterisation")
    path = interp.path
    r, w = path.fresh("any", "bool"), path.fresh("anyw")
    n = to_z3(lst.length)
    c = path.counter.get("allq", 0)
    path.counter["allq"] = c + 1
    m = z3.Int(f"allq!{c}")
    elem = lst.elem
    path.assume(z3.Implies(z3.Not(r), z3.ForAll([m], z3.Implies(z3.And(m >= 0, m < n), as_int_term(elem(m)) == 0))))
    path.assume(z3.Implies(r, z3.And(w >= 0, w < n, as_int_term(elem(w)) != 0)))
    path.ghost.setdefault("any_calls", []).append(dict(result=r, witness=w, length=n, elem=elem))
    return r


# ------------------------------------------------------------------------------------------
# Python builtins
# ------------------------------------------------------------------------------------------

def python_builtin(interp, name):
    from .interp import Undecided, RaiseEx

    def b_len(i, x):
        if isinstance(x, NDArr):
            return x.shape[0]
        if isinstance(x, (_SymList, _symlist.SymDict)):
            return x.length
        if isinstance(x, (list, tuple, dict, set, str, frozenset, range)):
            return len(x)
        h = i.hooks.get("len")
        if h:
            r = h(i, x)
            if r is not None:
                return r
        raise Undecided(f"len of {type(x).__name__}")

    def b_range(i, *a):
        vals = [concrete_int(x) for x in a]
        if any(v is None for v in vals):
            return Opaque("range", tuple(a))
        return range(*vals)

    def b_int(i, x=0):
        if isinstance(x, (int, float)):
            return int(x)
        if is_sym(x):
            if z3.is_bool(x):
                return as_int_term(x)
            if z3.is_int(x):
                return x
            used("int(real) = truncation toward zero")
            return z3.If(x >= 0, z3.ToInt(x), -z3.ToInt(-x))
        if isinstance(x, str):
            return int(x)
        raise Undecided("int() of " + type(x).__name__)

    def b_bool(i, x=False):
        if is_sym(x):
            return i.truth_term(x)
        return bool(i.truth(x))

    def b_isinstance(i, obj, cls):
        cl = cls if isinstance(cls, tuple) else (cls,)
        for c in cl:
            if _isinst(i, obj, c):
                return True
        return False

    def b_type(i, obj):
        if isinstance(obj, Obj):
            return obj.cls
        if isinstance(obj, NDArr):
            return Opaque("type", "ndarray")
        if isinstance(obj, bool):
            return Opaque("type", "bool")
        if isinstance(obj, int) or (is_sym(obj) and z3.is_int(obj)):
            return Opaque("type", "int")
        if isinstance(obj, str):
            return Opaque("type", "str")
        if isinstance(obj, list):
            return Opaque("type", "list")
        h = i.hooks.get("type")  # abstract objects of a contract module (e.g. an operation stored in an abstract circuit)
        if h:
            r = h(i, obj)
            if r is not NotImplemented:
                return r
        raise Undecided("type() of " + type(obj).__name__)

    def b_list(i, x=()):
        if isinstance(x, _SymList) and concrete_int(x.length) is None:
            return x.copy()  # list(l) of a list of symbolic length: a fresh list with the same elements
        if isinstance(x, NDArr) and x.ndim == 1 and concrete_int(x.shape[0]) is None:
            used("list(<1-D array of symbolic length>) = the list of its entries in order (copy)")
            snap = x.snapshot()
            return _SymList(x.shape[0], lambda k, _s=snap: _s.get(to_z3(k)), "list(array)")
        return list(i.iterate(x))

    def b_tuple(i, x=()):
        return tuple(i.iterate(x))

    def b_set(i, x=()):
        vals = i.iterate(x)
        if any(is_sym(v) for v in vals):
            if all((is_sym(v) and z3.is_int(v)) or (isinstance(v, int) and not isinstance(v, bool)) for v in vals):
                # additive (C06, MixedStabilizer.mixture setter: `len(set([t.n_qubits ...])) == 1`): a set of symbolic INTEGERS -
                # duplicates are removed by deciding pairwise equality on the path (forks); anything else stays Undecided
                used("set() of symbolic ints: duplicates removed by deciding pairwise equality on the path (forks)")
                out = []
                for v in vals:
                    if not any(i.path.decide(to_z3(v) == to_z3(u)) for u in out):
                        out.append(v)
                return set(out) if len(set(out)) == len(out) else out
            raise Undecided("set of symbolic values")
        return set(vals)

    def b_dict(i, x=None, **kw):
        d = {}
        if x is not None:
            if isinstance(x, dict):
                d.update(x)
            else:
                for k, v in i.iterate(x):
                    d[k] = v
        d.update(kw)
        return d

    def b_enumerate(i, x, start=0):
        h = i.hooks.get("enumerate")  # abstract sequences of a contract module (iterable of that module's own loop rule)
        if h:
            r = h(i, x, start)
            if r is not None:
                return r
        if isinstance(x, NDArr) and x.ndim == 1 and concrete_int(x.shape[0]) is None:
            # symbolic length: only usable as the iterable of a `for` under a loop contract (loops.trip_count)
            return Opaque("enumerate", (x, start))
        return [(k + start, v) for k, v in enumerate(i.iterate(x))]

    def b_zip(i, *xs):
        return list(zip(*[i.iterate(x) for x in xs]))

    def b_sorted(i, x, key=None, reverse=False):
        h = i.hooks.get("sorted")  # abstract sequences of a contract module (e.g. pyvc/gateseq.py: an unspecified re-ordering)
        if h:
            r = h(i, x, key, reverse)
            if r is not None:
                return r
        if isinstance(x, _SymList) and getattr(x, "increasing", False) and key is None and not reverse:
            used("sorted() of a list known to be strictly increasing = an equal new list")
            r = x.copy()
            for a_ in ("increasing", "sorted_nodes_of"):
                if hasattr(x, a_):
                    setattr(r, a_, getattr(x, a_))
            return r
        vals = i.iterate(x)
        if key is not None:
            keys = [i.call(key, [v], {}) for v in vals]
            if any(is_sym(k) for k in keys):
                raise Undecided("sorted with symbolic keys")
            order = sorted(range(len(vals)), key=lambda t: keys[t], reverse=bool(reverse))
            return [vals[t] for t in order]
        if any(_has_sym(v) for v in vals):
            if len(vals) > 4:
                raise Undecided("sorted of more than 4 symbolic values")
            used("sorted() of <= 4 symbolic ints/tuples: insertion sort with path forks on each comparison")
            out = []
            for v in vals:  # stable insertion sort; each comparison is decided by the path (fork)
                k = len(out)
                while k > 0 and _decide_less(i, v, out[k - 1]):
                    k -= 1
                out.insert(k, v)
            return out[::-1] if reverse else out
        return sorted(vals, reverse=bool(reverse))

    def b_reversed(i, x):
        return list(reversed(i.iterate(x)))

    def b_minmax(which):
        def f(i, *a, **k):
            if len(a) == 1 and isinstance(a[0], _SymList) and not k:
                lst = a[0]
                return lst.get(_symlist.seq_extreme(i, lst.length, lst.get, which, "list"))
            if len(a) == 1 and isinstance(a[0], _symlist.SymDict):
                d, key = a[0], k.get("key")
                if key is None:
                    measure = d.key
                elif isinstance(key, Builtin) and getattr(key, "symdict_get_of", None) is d:
                    measure = d.val
                else:
                    raise Undecided(f"{which}() over a symbolic dict with an unsupported key function")
                ix = _symlist.seq_extreme(i, d.length, measure, which, "dict")
                kt = d.key(ix)
                d.known[to_z3(kt).get_id()] = ix
                return kt
            vals = list(a) if len(a) > 1 else i.iterate(a[0])
            if not vals:
                raise RaiseEx("ValueError", f"{which}() arg is an empty sequence")
            if k.get("key") is not None:
                # min/max with key=: the FIRST element whose key is minimal/maximal (ties: first wins, like CPython);
                # symbolic keys are compared by branching on the path
                keys = [i.call(k["key"], [v], {}) for v in vals]
                best = 0
                for t in range(1, len(vals)):
                    c = compare(i, ast.Lt() if which == "min" else ast.Gt(), keys[t], keys[best])
                    if i.truth(c):
                        best = t
                return vals[best]
            if not any(is_sym(v) for v in vals):
                return min(vals) if which == "min" else max(vals)
            r = to_z3(vals[0])
            for v in vals[1:]:
                v = to_z3(v)
                r = z3.If(v < r, v, r) if which == "min" else z3.If(v > r, v, r)
            return r
        return f

    def b_sum(i, x, start=0):
        vals = i.iterate(x)
        r = start
        for v in vals:
            r = binop(i, ast.Add(), r, v)
        return r

    def b_abs(i, x):
        if is_sym(x):
            return z3.If(x >= 0, x, -x)
        return abs(x)

    def b_all(i, x):
        if isinstance(x, _SymList) and concrete_int(x.length) is None:
            return all_of_symlist(i, x)
        vals = [i.truth_term(v) if is_sym(v) else bool(i.truth(v)) for v in i.iterate(x)]
        if all(isinstance(v, bool) for v in vals):
            return all(vals)
        return z3.And(*[to_z3(v) for v in vals])

    def b_any(i, x):
        if isinstance(x, _SymList) and concrete_int(x.length) is None:
            return any_of_symlist(i, x)
        vals = [i.truth_term(v) if is_sym(v) else bool(i.truth(v)) for v in i.iterate(x)]
        if all(isinstance(v, bool) for v in vals):
            return any(vals)
        return z3.Or(*[to_z3(v) for v in vals])

    def b_callable(i, x):
        return isinstance(x, (FuncRef, Closure, Bound, Builtin, ClsRef))

    def b_getattr(i, o, name, *d):
        try:
            return i.getattr(o, name)
        except RaiseEx:
            if d:
                return d[0]
            raise

    def b_hasattr(i, o, name):
        try:
            i.getattr(o, name)
            return True
        except RaiseEx:
            return False

    def b_super(i, *a):
        fr = None
        for f in reversed(i.stack):
            if f.cls is not None:
                fr = f
                break
        if fr is None:
            raise Undecided("super() outside a method")
        self_obj = fr.env.get("self")
        return Opaque("super", (fr.cls, self_obj))

    def b_id(i, o):
        return Opaque("id", o)

    def b_str(i, x=""):
        if is_sym(x):
            return "<sym>"
        return str(x) if not isinstance(x, (Obj, NDArr)) else "<obj>"

    def b_float(i, x=0.0):
        if is_sym(x):
            return z3.ToReal(x) if z3.is_int(x) else x
        return float(x)

    def b_round(i, x, nd=None):
        if is_sym(x):
            raise Undecided("round symbolic")
        return round(x) if nd is None else round(x, nd)

    def b_issubclass(i, c, cls):
        if not isinstance(c, ClsRef):
            if isinstance(c, Obj):
                raise RaiseEx("TypeError", "issubclass() arg 1 must be a class")
            raise Undecided("issubclass of " + type(c).__name__)
        cl = cls if isinstance(cls, tuple) else (cls,)
        for b in cl:
            if not isinstance(b, ClsRef):
                raise Undecided("issubclass against " + repr(b))
            if b in c.mro():
                return True
        return False

    def b_map(i, f, *seqs):
        used("map(f, xs) evaluated eagerly, in order (the mapped function is pure at every use)")
        cols = [i.iterate(s) for s in seqs]
        return [i.call(f, list(t), {}) for t in zip(*cols)]

    table = {
        "issubclass": b_issubclass, "map": b_map,
        "len": b_len, "range": b_range, "int": b_int, "bool": b_bool, "isinstance": b_isinstance, "type": b_type,
        "list": b_list, "tuple": b_tuple, "set": b_set, "dict": b_dict, "enumerate": b_enumerate, "zip": b_zip,
        "sorted": b_sorted, "reversed": b_reversed, "min": b_minmax("min"), "max": b_minmax("max"), "sum": b_sum,
        "abs": b_abs, "all": b_all, "any": b_any, "callable": b_callable, "getattr": b_getattr, "hasattr": b_hasattr,
        "super": b_super, "id": b_id, "str": b_str, "float": b_float, "round": b_round,
    }
    if name in table:
        return Builtin(name, table[name])
    exc = {"ValueError", "TypeError", "AssertionError", "IndexError", "KeyError", "Exception", "UserWarning",
           "Warning", "NotImplementedError", "AttributeError", "RuntimeError"}
    if name in exc:
        return Opaque("exc", name)
    if name in ("True", "False", "None"):
        return {"True": True, "False": False, "None": None}[name]
    if name == "object":
        return Opaque("type", "object")
    if name == "NotImplemented":
        return Opaque("NotImplemented")
    return None


def _isinst(interp, obj, c):
    from .interp import Undecided

    if isinstance(c, ClsRef):
        return isinstance(obj, Obj) and c in obj.cls.mro()
    if isinstance(c, Builtin):
        n = c.name
        if n == "int":
            return (isinstance(obj, int) and not isinstance(obj, bool)) or (is_sym(obj) and z3.is_int(obj))
        if n == "bool":
            return isinstance(obj, bool)
        if n == "float":
            return isinstance(obj, float) or (is_sym(obj) and z3.is_real(obj))
        if n == "str":
            return isinstance(obj, str)
        if n == "list":
            return isinstance(obj, list)
        if n == "tuple":
            return isinstance(obj, tuple)
        if n == "dict":
            return isinstance(obj, dict)
        if n == "set":
            return isinstance(obj, set)
        raise Undecided("isinstance against builtin " + n)
    if isinstance(c, Opaque) and c.tag == "type":
        if c.payload == "ndarray":
            return isinstance(obj, NDArr)
        if c.payload in ("nx.Graph", "nx.MultiDiGraph"):
            return isinstance(obj, Opaque) and obj.tag == c.payload
        return False
    if isinstance(c, str):
        return False
    raise Undecided(f"isinstance against {c!r}")


# ------------------------------------------------------------------------------------------
# external modules (numpy, scipy, ...)
# ------------------------------------------------------------------------------------------

def external_attr(interp, mod: ModRef, attr):
    from .interp import Undecided

    name = mod.name
    if name in ("numpy", "np", "graphiq.backends.density_matrix.numpy"):
        fn = NUMPY.get(attr)
        if fn is not None:
            return Builtin("np." + attr, fn)
        if attr == "ndarray":
            return Opaque("type", "ndarray")
        if attr in ("random", "linalg", "math"):
            return ModRef("numpy." + attr)
        if attr == "pi":
            import math

            return math.pi
        if attr in ("int64", "int32", "float64", "complex128"):
            return Builtin("int", python_builtin(interp, "int").fn)
        if attr == "inf":
            return float("inf")
        raise Undecided(f"numpy.{attr} has no [A] model")
    if name == "numpy.random":
        if attr == "randint":
            def randint(i, lo, hi=None, size=None):
                used("np.random.randint(lo,hi) = havoc integer in [lo,hi)")
                if hi is None:
                    lo, hi = 0, lo
                r = i.path.fresh("rand")
                i.path.assume(z3.And(r >= to_z3(lo), r < to_z3(hi)))
                return r
            return Builtin("np.random.randint", randint)
        if attr == "choice":
            def choice(i, a, size=None, replace=True, p=None):
                if size is not None or not (isinstance(a, int) or (is_sym(a) and z3.is_int(a))):
                    raise Undecided("np.random.choice other than choice(n, p=...) with an integer n")
                used("np.random.choice(n, p=..) = havoc integer in [0,n) (ValueError for n <= 0)")
                if not i.path.decide(to_z3(a) > 0):
                    raise interp_raise(i, "ValueError", "a must be greater than 0")
                r = i.path.fresh("rand")
                i.path.assume(z3.And(r >= 0, r < to_z3(a)))
                return r
            return Builtin("np.random.choice", choice)
        h = interp.hooks.get("external")
        if h:
            r = h(interp, name, attr)
            if r is not NotImplemented:
                return r
        raise Undecided(f"numpy.random.{attr}")
    if name == "copy":
        if attr == "deepcopy":
            return Builtin("deepcopy", _deepcopy)
        if attr == "copy":
            return Builtin("copy", _shallowcopy)
    if name == "scipy.linalg" and attr == "block_diag":
        return Builtin("block_diag", _block_diag)
    if name == "abc":
        if attr == "ABC":
            return Opaque("type", "ABC")
        if attr == "abstractmethod":
            return Builtin("abstractmethod", lambda i, f: f)
    if name == "functools" and attr == "reduce":
        def reduce(i, f, seq, *init):
            vals = i.iterate(seq)
            if init:
                acc = init[0]
            else:
                acc = vals[0]
                vals = vals[1:]
            for v in vals:
                acc = i.call(f, [acc, v], {})
            return acc
        return Builtin("reduce", reduce)
    if name == "math":
        import math

        if attr == "factorial":
            def fact(i, n):
                k = concrete_int(n)
                if k is None:
                    raise Undecided("factorial of symbolic")
                return math.factorial(k)
            return Builtin("factorial", fact)
        if hasattr(math, attr) and isinstance(getattr(math, attr), float):
            return getattr(math, attr)
    if name == "itertools":
        import itertools

        if attr in ("product", "combinations", "permutations"):
            def it(i, *a, **k):
                if (attr == "combinations" and len(a) == 2 and not k and isinstance(a[0], _SymList)
                        and concrete_int(a[0].length) is None and concrete_int(a[1]) == 2):
                    # pairs of a list of symbolic length: only usable as the iterable of a `for` under a pair-loop contract
                    used("itertools.combinations(l, 2) = (l[p], l[q]) for p < q in lexicographic order of (p, q)")
                    return Opaque("combinations2", a[0])
                args = [i.iterate(x) if not isinstance(x, int) else x for x in a]
                kk = {key: concrete_int(v) for key, v in k.items()}
                return [tuple(t) for t in getattr(itertools, attr)(*args, **kk)]
            return Builtin(attr, it)
    h = interp.hooks.get("external")
    if h:
        r = h(interp, name, attr)
        if r is not NotImplemented:
            return r
    raise Undecided(f"{name}.{attr} has no [A] model")


def _shallowcopy(interp, v):
    """copy.copy: a new outer object whose fields / items are the SAME objects as the original's"""
    used("copy.copy = new outer object sharing the original's field/item objects")
    if isinstance(v, NDArr):
        return v.snapshot()
    if isinstance(v, Obj):
        r = Obj(v.cls)
        r.partial = getattr(v, "partial", True)
        r.fields.update(v.fields)
        return r
    if isinstance(v, list):
        return list(v)
    if isinstance(v, dict):
        return dict(v)
    if isinstance(v, set):
        return set(v)
    return v


def _deepcopy(interp, v, memo=None):
    used("copy.deepcopy = fresh object graph equal in value (S7)")
    seen = {}
    if memo is not None:
        # [A] copy.deepcopy(x, memo): CPython keeps memo[id(y)] = copy of y for every object it copied; a memo dict that is passed to
        # SEVERAL calls makes a later call return the earlier copy of an object it has seen before (aliasing between the results).
        # The engine keeps one table per memo dict object (the dict itself stays empty: code that reads it leaves the subset).
        if not isinstance(memo, dict):
            from .interp import Undecided
            raise Undecided("copy.deepcopy with a memo that is not a plain dict")
        used("copy.deepcopy(x, memo): objects already copied under the same memo dict are not copied again")
        tabs = interp.path.ghost.setdefault("deepcopy_memos", [])
        for m_, seen_, keep_ in tabs:
            if m_ is memo:
                seen, keep = seen_, keep_
                break
        else:
            keep = []
            tabs.append((memo, seen, keep))
        keep.append(v)  # id()-keyed table: keep the sources alive

    def cp(x):
        if id(x) in seen:
            return seen[id(x)]
        if isinstance(x, NDArr):
            r = x.snapshot()
        elif isinstance(x, Obj):
            r = Obj(x.cls)
            r.partial = getattr(x, "partial", True)
            seen[id(x)] = r
            for k, f in x.fields.items():
                r.fields[k] = cp(f)
            return r
        elif isinstance(x, list):
            r = []
            seen[id(x)] = r
            r.extend(cp(e) for e in x)
            return r
        elif isinstance(x, dict):
            r = {}
            seen[id(x)] = r
            for k, e in x.items():
                r[k] = cp(e)
            return r
        elif isinstance(x, tuple):
            r = tuple(cp(e) for e in x)
        elif isinstance(x, set):
            r = set(x)
        else:
            h = interp.hooks.get("deepcopy")
            if h:
                r2 = h(interp, x, cp)
                if r2 is not NotImplemented:
                    seen[id(x)] = r2
                    return r2
            r = x
        seen[id(x)] = r
        return r

    return cp(v)


def _shape_arg(interp, shape):
    if isinstance(shape, (list, tuple)):
        return tuple(shape)
    return (shape,)


def _np_zeros(interp, shape, dtype=None):
    used("np.zeros")
    return const_array(_shape_arg(interp, shape), 0, "zeros")


def _np_ones(interp, shape, dtype=None):
    used("np.ones")
    return const_array(_shape_arg(interp, shape), 1, "ones")


def _np_eye(interp, n, *a, **k):
    used("np.eye/np.identity")
    return new_array((n, n), lambda i, j: z3.If(i == j, z3.IntVal(1), z3.IntVal(0)), "eye")


def _np_multiply(interp, a, b):
    used("np.multiply (elementwise)")
    return binop(interp, ast.Mult(), a, b)


def _np_copy(interp, a):
    used("np.copy")
    if isinstance(a, NDArr):
        return a.snapshot()
    return _np_array(interp, a)


def _np_array(interp, a, dtype=None):
    from .interp import Undecided

    used("np.array / np.asarray of a list")
    if isinstance(a, NDArr):
        return a.snapshot()
    vals = interp.iterate(a)
    if vals and isinstance(vals[0], (list, tuple, NDArr)):
        rows = [interp.iterate(r) if not isinstance(r, NDArr) else r for r in vals]
        ncol = len(rows[0]) if not isinstance(rows[0], NDArr) else concrete_int(rows[0].shape[0])
        if ncol is None:
            raise Undecided("np.array of symbolic rows")

        def f(i, j):
            t = None
            for r in range(len(rows) - 1, -1, -1):
                row = rows[r]
                rt = None
                for c in range(ncol - 1, -1, -1):
                    e = as_int_term(row[c] if not isinstance(row, NDArr) else row.get(c))
                    rt = e if rt is None else z3.If(j == c, e, rt)
                t = rt if t is None else z3.If(i == r, rt, t)
            return t

        return new_array((len(rows), ncol), f, "array2")
    n = len(vals)

    def f1(k):
        if isinstance(k, int) and not isinstance(k, bool) and 0 <= k < n:
            return as_int_term(vals[k])  # concrete in-range index: same value as the If-chain below
        t = None
        for m in range(n - 1, -1, -1):
            e = as_int_term(vals[m])
            t = e if t is None else z3.If(k == m, e, t)
        return t if t is not None else z3.IntVal(0)

    return new_array((n,), f1, "array1")


def _np_asarray(interp, a, dtype=None):
    """[A] np.asarray(x[, dtype]): a list -> new array (as np.array).  An ndarray: numpy returns x ITSELF when no dtype is asked
    for or the dtype already matches, and a converted copy otherwise.  The engine knows the dtype of schema inputs only
    (Store.dtype): known -> exact (alias or copy); unknown -> a snapshot marked `maybe_alias` (reading it is exact either way; an
    in-place write to it leaves the accepted subset: Undecided)"""
    if not isinstance(a, NDArr):
        return _np_array(interp, a, dtype)
    used("np.asarray of an ndarray (alias when the dtype matches)")
    if dtype is None:
        return a
    want = getattr(dtype, "name", None) or getattr(dtype, "__name__", None) or str(dtype)
    want = {"int": "int", "float": "float", "int64": "int", "float64": "float"}.get(want)
    have = getattr(a.store, "dtype", None)
    if want is not None and have is not None:
        return a if want == have else a.snapshot()
    r = a.snapshot()
    r.store.maybe_alias = True
    return r


def _np_shape(interp, a):
    return tuple(a.shape)


def _np_vstack(interp, seq):
    from .interp import Undecided

    used("np.vstack")
    parts = interp.iterate(seq)
    rds, rows, ncol = [], [], None
    for p in parts:
        if not isinstance(p, NDArr):
            raise Undecided("vstack of non-array")
        if p.ndim == 1:
            rd = p.reader()
            rds.append((lambda rd: (lambda i, j: rd(j)))(rd))
            rows.append(1)
            nc = p.shape[0]
        else:
            rds.append(p.reader())
            rows.append(p.shape[0])
            nc = p.shape[1]
        if ncol is None:
            ncol = nc
        else:
            eq = to_z3(nc) == to_z3(ncol) if (is_sym(nc) or is_sym(ncol)) else (nc == ncol)
            if isinstance(eq, bool):
                if not eq:
                    raise interp_raise(interp, "ValueError", "vstack dimension mismatch")
            else:
                nm = interp.ob_name("shape")
                interp.path.oblige(nm, eq)
                interp.path.assume(eq)
    offs = [0]
    for r in rows:
        offs.append(_add(offs[-1], r))

    def f(i, j):
        t = rds[-1](i - offs[-2] if not (isinstance(offs[-2], int) and offs[-2] == 0) else i, j)
        for k in range(len(rds) - 2, -1, -1):
            t = z3.If(i < to_z3(offs[k + 1]), rds[k](i - offs[k] if not (isinstance(offs[k], int) and offs[k] == 0) else i, j), t)
        return t

    return new_array((offs[-1], ncol), f, "vstack")


def _np_hstack(interp, seq):
    from .interp import Undecided

    used("np.hstack")
    parts = interp.iterate(seq)
    if all(isinstance(p, NDArr) and p.ndim == 1 for p in parts):
        rds = [p.reader() for p in parts]
        lens = [p.shape[0] for p in parts]
        offs = [0]
        for r in lens:
            offs.append(_add(offs[-1], r))

        def f(k):
            t = rds[-1](k - offs[-2] if not (isinstance(offs[-2], int) and offs[-2] == 0) else k)
            for m in range(len(rds) - 2, -1, -1):
                t = z3.If(k < to_z3(offs[m + 1]), rds[m](k - offs[m] if not (isinstance(offs[m], int) and offs[m] == 0) else k), t)
            return t

        return new_array((offs[-1],), f, "hstack")
    if all(isinstance(p, NDArr) and p.ndim == 2 for p in parts):
        rds = [p.reader() for p in parts]
        lens = [p.shape[1] for p in parts]
        offs = [0]
        for r in lens:
            offs.append(_add(offs[-1], r))
        nrow = parts[0].shape[0]
        for p in parts[1:]:
            eq = to_z3(p.shape[0]) == to_z3(nrow) if (is_sym(p.shape[0]) or is_sym(nrow)) else (p.shape[0] == nrow)
            if isinstance(eq, bool):
                if not eq:
                    raise interp_raise(interp, "ValueError", "hstack dimension mismatch")
            else:
                nm = interp.ob_name("shape")
                interp.path.oblige(nm, eq)
                interp.path.assume(eq)

        def f2(i, j):
            t = rds[-1](i, j - offs[-2] if not (isinstance(offs[-2], int) and offs[-2] == 0) else j)
            for m in range(len(rds) - 2, -1, -1):
                t = z3.If(j < to_z3(offs[m + 1]), rds[m](i, j - offs[m] if not (isinstance(offs[m], int) and offs[m] == 0) else j), t)
            return t

        return new_array((nrow, offs[-1]), f2, "hstack2")
    raise Undecided("np.hstack of mixed ranks")


def _np_append(interp, a, v, axis=None):
    from .interp import Undecided

    used("np.append (1-D)")
    if not (isinstance(a, NDArr) and a.ndim == 1):
        raise Undecided("np.append on non 1-D")
    if isinstance(v, NDArr):
        return _np_hstack(interp, [a, v])
    rd = a.reader()
    n = a.shape[0]
    val = as_int_term(v)
    return new_array((_add(n, 1),), lambda k: z3.If(k < to_z3(n), rd(k), val), "append")


def _np_block(interp, blocks):
    used("np.block (2x2 block matrix)")
    rows = [ _np_hstack(interp, list(r)) for r in interp.iterate(blocks)]
    return _np_vstack(interp, rows)


def _np_insert(interp, a, idx, values, axis=None):
    """np.insert: indices refer to positions in the ORIGINAL array; value(s) inserted before them."""
    from .interp import Undecided

    used("np.insert (indices refer to the original array)")
    if not isinstance(a, NDArr):
        raise Undecided("np.insert on non-array")
    idxs = interp.iterate(idx) if isinstance(idx, (list, tuple, NDArr)) else [idx]
    if len(idxs) > 2:
        raise Undecided("np.insert with more than two indices")
    if a.ndim == 1:
        L = a.shape[0]
        for t in idxs:
            g = z3.And(to_z3(t) >= 0, to_z3(t) <= to_z3(L))
            nm = interp.ob_name("index")
            ok = interp.path.oblige(nm, g)
            interp.path.assume(g)
        rd = a.reader()
        valr = _value_reader(interp, values, (len(idxs),)) if not isinstance(values, (int, float)) and not is_sym(values) else (lambda k: values)
        if len(idxs) == 1:
            p = to_z3(idxs[0])
            return new_array((_add(L, 1),), lambda k: z3.If(k < p, rd(k), z3.If(k == p, as_int_term(valr(0)), rd(k - 1))), "insert")
        p, q = to_z3(idxs[0]), to_z3(idxs[1])
        # requires p <= q (numpy sorts indices stably; we only accept ordered ones)
        nm = interp.ob_name("index")
        interp.path.oblige(nm, p <= q)
        interp.path.assume(p <= q)
        # new positions: p and q+1
        return new_array((_add(L, 2),), lambda k: z3.If(k < p, rd(k), z3.If(k == p, as_int_term(valr(0)),
                         z3.If(k < q + 1, rd(k - 1), z3.If(k == q + 1, as_int_term(valr(1)), rd(k - 2))))), "insert2")
    # 2-D with a single index
    if len(idxs) != 1:
        raise Undecided("2-D np.insert with several indices")
    ax = concrete_int(axis)
    if ax not in (0, 1):
        raise Undecided("np.insert axis")
    p = to_z3(idxs[0])
    L = a.shape[ax]
    g = z3.And(p >= 0, p <= to_z3(L))
    nm = interp.ob_name("index")
    interp.path.oblige(nm, g)
    interp.path.assume(g)
    rd = a.reader()
    if isinstance(values, NDArr):
        if values.ndim != 1:
            raise Undecided("np.insert 2-D values")
        other = a.shape[1 - ax]
        eq = to_z3(values.shape[0]) == to_z3(other)
        nm = interp.ob_name("shape")
        interp.path.oblige(nm, eq)
        interp.path.assume(eq)
        vrd = values.reader()
    else:
        vrd = lambda k: values
    if ax == 0:
        return new_array((_add(L, 1), a.shape[1]), lambda i, j: z3.If(i < p, rd(i, j), z3.If(i == p, as_int_term(vrd(j)), rd(i - 1, j))), "insert_r")
    return new_array((a.shape[0], _add(L, 1)), lambda i, j: z3.If(j < p, rd(i, j), z3.If(j == p, as_int_term(vrd(i)), rd(i, j - 1))), "insert_c")


def _np_delete(interp, a, idx, axis=None):
    from .interp import Undecided

    used("np.delete")
    if not isinstance(a, NDArr):
        raise Undecided("np.delete on non-array")
    idxs = interp.iterate(idx) if isinstance(idx, (list, tuple, NDArr)) else [idx]
    if a.ndim == 1 and len(idxs) == 1:
        p = to_z3(idxs[0])
        L = a.shape[0]
        g = z3.And(p >= 0, p < to_z3(L))
        nm = interp.ob_name("index")
        interp.path.oblige(nm, g)
        interp.path.assume(g)
        rd = a.reader()
        return new_array((_add(L, -1),), lambda k: z3.If(k < p, rd(k), rd(k + 1)), "delete")
    h = interp.hooks.get("np_delete")
    if h:
        r = h(interp, a, idxs, axis)
        if r is not None:
            return r
    # [A] np.delete(a, [p, q], axis) / np.delete(a, [p], axis) for 1-D and 2-D arrays: the listed positions (along `axis`) are
    # dropped, everything else keeps its order; duplicates count once (the path forks on p == q).  S6: positions must be >= 0.
    ax = concrete_int(axis) if axis is not None else None
    if len(idxs) in (1, 2) and ((a.ndim == 1 and axis is None) or (a.ndim == 2 and ax in (0, 1))):
        ax = 0 if a.ndim == 1 else ax
        L = to_z3(a.shape[ax])
        ps = [to_z3(x) for x in idxs]
        for p in ps:
            g = z3.And(p >= 0, p < L)
            interp.path.oblige(interp.ob_name("index"), g)
            interp.path.assume(g)
        if len(ps) == 2 and interp.path.decide(ps[0] == ps[1]):
            ps = ps[:1]
        if len(ps) == 1:
            p0 = ps[0]
            newL = _add(a.shape[ax], -1)
            old = lambda k: z3.If(k < p0, k, k + 1)
        else:
            lo = z3.If(ps[0] < ps[1], ps[0], ps[1])
            hi = z3.If(ps[0] < ps[1], ps[1], ps[0])
            newL = _add(a.shape[ax], -2)
            old = lambda k: z3.If(k < lo, k, z3.If(k + 1 < hi, k + 1, k + 2))
        rd = a.reader()
        if a.ndim == 1:
            return new_array((newL,), lambda k: rd(old(k)), "delete")
        if ax == 0:
            return new_array((newL, a.shape[1]), lambda i, j: rd(old(i), j), "delete")
        return new_array((a.shape[0], newL), lambda i, j: rd(i, old(j)), "delete")
    raise Undecided("np.delete form without model")


def _np_nonzero(interp, a):
    h = interp.hooks.get("np_nonzero")
    if h:
        r = h(interp, a)
        if r is not None:
            return r
    from .interp import Undecided

    raise Undecided("np.nonzero needs a theory hook")


def array_equal_symbolic(interp, a, b):
    """[A] np.array_equal on arrays with symbolic shapes: a fresh Bool r with
         r     -> shapes agree and (forall idx in range: a[idx] == b[idx])
         not r -> shapes differ or (w in range and a[w] != b[w])  for fresh witness indices w
    (recorded in path.ghost['array_equal_calls'])"""
    if a.ndim != b.ndim:
        return False
    used("np.array_equal on symbolic shapes = fresh Bool with its two-sided characterisation")
    path = interp.path
    r = path.fresh("aeq", "bool")
    c = path.counter.get("aeqq", 0)
    path.counter["aeqq"] = c + 1
    q = [z3.Int(f"aeqq!{c}_{k}") for k in range(a.ndim)]
    w = [path.fresh("aeqw") for _ in range(a.ndim)]
    shp = z3.And(*[to_z3(s_) == to_z3(t_) for s_, t_ in zip(a.shape, b.shape)])
    ra, rb = a.reader(), b.reader()

    def inr(idx):
        return z3.And(*[z3.And(i_ >= 0, i_ < to_z3(s_)) for i_, s_ in zip(idx, a.shape)])

    def eq(idx):
        x, y = as_int_term(ra(*idx)), as_int_term(rb(*idx))
        if z3.is_real(x) != z3.is_real(y):
            x = z3.ToReal(x) if z3.is_int(x) else x
            y = z3.ToReal(y) if z3.is_int(y) else y
        return x == y

    path.assume(z3.Implies(r, z3.And(shp, z3.ForAll(q, z3.Implies(inr(q), eq(q))))))
    path.assume(z3.Implies(z3.Not(r), z3.Or(z3.Not(shp), z3.And(inr(w), z3.Not(eq(w))))))
    path.ghost.setdefault("array_equal_calls", []).append(dict(result=r, witness=w, a=ra, b=rb, shape_a=a.shape, shape_b=b.shape))
    return r


def _np_array_equal(interp, a, b):
    from .interp import Undecided

    used("np.array_equal")
    if isinstance(a, NDArr) and isinstance(b, NDArr):
        n = [concrete_int(s) for s in a.shape]
        m = [concrete_int(s) for s in b.shape]
        if None in n or None in m:
            return array_equal_symbolic(interp, a, b)
        if n != m:
            return False
        import itertools

        terms = [a.get(*idx) == b.get(*idx) for idx in itertools.product(*[range(k) for k in n])]
        return z3.And(*terms) if terms else True
    raise Undecided("array_equal on non-arrays")


def _np_all(interp, a, *args, **k):
    from .interp import Undecided

    if isinstance(a, NDArr):
        n = [concrete_int(s) for s in a.shape]
        if None in n and a.ndim == 1 and not args and not k:
            # [A] np.all(v) for a vector of symbolic length: a fresh Bool r with  r -> forall k in range: v[k] != 0,
            # not r -> v[w] == 0 for a witness w in range   (recorded in path.ghost['np_all_calls'])
            used("np.all (1-D, symbolic length): r <-> forall k: v[k] != 0 (quantified / witness)")
            path = interp.path
            c = path.counter.get("npall", 0)
            path.counter["npall"] = c + 1
            r, w, kq = z3.Bool(f"all!{c}"), z3.Int(f"allw!{c}"), z3.Int(f"allk!{c}")
            rd, L = a.reader(), to_z3(a.shape[0])
            path.assume(z3.If(r, z3.ForAll([kq], z3.Implies(z3.And(kq >= 0, kq < L), as_int_term(rd(kq)) != 0)),
                              z3.And(w >= 0, w < L, as_int_term(rd(w)) == 0)))
            path.ghost.setdefault("np_all_calls", []).append(dict(result=r, witness=w, v=rd, length=L))
            return r
        if None in n:
            raise Undecided("np.all on symbolic shape")
        import itertools

        terms = [a.get(*idx) != 0 for idx in itertools.product(*[range(t) for t in n])]
        return z3.And(*terms) if terms else True
    return python_builtin(interp, "all").fn(interp, a)


def _np_any(interp, a, *args, **k):
    from .interp import Undecided

    if isinstance(a, NDArr):
        n = [concrete_int(s) for s in a.shape]
        if None in n and a.ndim == 1 and not args and not k:
            # [A] np.any(v) for a vector of symbolic length: a fresh Bool b with  b -> v[w] != 0 for a witness w in range,
            # not b -> forall k in range: v[k] == 0   (exact characterisation, one quantified assumption)
            used("np.any (1-D, symbolic length): b <-> exists k: v[k] != 0 (witness / quantified)")
            path = interp.path
            c = path.counter.get("npany", 0)
            path.counter["npany"] = c + 1
            b, w, kq = z3.Bool(f"any!{c}"), z3.Int(f"anyw!{c}"), z3.Int(f"anyk!{c}")
            rd, L = a.reader(), to_z3(a.shape[0])
            path.assume(z3.If(b, z3.And(w >= 0, w < L, as_int_term(rd(w)) != 0),
                              z3.ForAll([kq], z3.Implies(z3.And(kq >= 0, kq < L), as_int_term(rd(kq)) == 0))))
            return b
        if None in n:
            raise Undecided("np.any on symbolic shape")
        import itertools

        terms = [a.get(*idx) != 0 for idx in itertools.product(*[range(t) for t in n])]
        return z3.Or(*terms) if terms else False
    return python_builtin(interp, "any").fn(interp, a)


def _block_diag(interp, a, b):
    used("scipy.linalg.block_diag (two blocks)")
    ra, rb = a.reader(), b.reader()
    r1, c1 = a.shape
    r2, c2 = b.shape
    return new_array((_add(r1, r2), _add(c1, c2)),
                     lambda i, j: z3.If(z3.And(i < to_z3(r1), j < to_z3(c1)), ra(i, j),
                                        z3.If(z3.And(i >= to_z3(r1), j >= to_z3(c1)), rb(i - r1, j - c1), z3.IntVal(0))), "block_diag")


def _np_split(interp, a, k):
    from .interp import Undecided

    used("np.split (1-D, equal halves)")
    kk = concrete_int(k)
    if kk != 2 or a.ndim != 1:
        raise Undecided("np.split other than halves")
    L = a.shape[0]
    half = interp.path.fresh("half")
    g = to_z3(L) == 2 * half
    nm = interp.ob_name("split")
    # the length must be even: obligation (exists half) -> we require the caller context to know L = 2*h
    h2 = z3.simplify(to_z3(L) / 2)
    interp.path.oblige(nm, to_z3(L) == 2 * h2)
    interp.path.assume(to_z3(L) == 2 * h2)
    rd = a.reader()
    return [new_array((h2,), lambda i: rd(i), "split0"), new_array((h2,), lambda i: rd(i + h2), "split1")]


def _np_abs(interp, x):
    from .interp import Undecided

    used("np.abs (scalar)")
    if isinstance(x, NDArr):
        rd = x.reader()
        return new_array(x.shape, lambda *i: z3.If(as_int_term(rd(*i)) >= 0, as_int_term(rd(*i)), -as_int_term(rd(*i))), "abs")
    if is_sym(x):
        t = as_int_term(x)
        return z3.If(t >= 0, t, -t)
    if isinstance(x, (int, float)):
        return abs(x)
    raise Undecided("np.abs of " + type(x).__name__)


NUMPY = {
    "abs": _np_abs, "absolute": _np_abs, "zeros": _np_zeros, "ones": _np_ones, "eye": _np_eye, "identity": _np_eye, "multiply": _np_multiply,
    "copy": _np_copy, "array": _np_array, "asarray": _np_asarray, "shape": _np_shape, "vstack": _np_vstack,
    "ix_": _np_ix, "hstack": _np_hstack, "append": _np_append, "block": _np_block, "insert": _np_insert, "delete": _np_delete,
    "nonzero": _np_nonzero, "array_equal": _np_array_equal, "all": _np_all, "any": _np_any, "split": _np_split,
}
