"""Effect traces for dispatch code (DESIGN §2.2 `trace`): callee objects are abstract recorders.

A *recorder contract* for a method/function appends the event (name, args) to the path's trace and returns an abstract
result.  A TraceTask runs the REAL body of a dispatcher (compile_one_gate, noise placement ...) under recorder contracts
and then lets the specification walk over the recorded trace with a cursor: `cur.expect(name, *args)` proves that the next
recorded event is that call with equal arguments (obligation per argument) and hands back the recorded result, so the
specification can branch on outcomes exactly as the textbook semantics does; `cur.done()` proves nothing else happened.
"""
from __future__ import annotations

import z3

from . import source
from .contract import Contract, Equiv
from .interp import Interp, Engine, Path, explore, RaiseEx, Undecided, PathEnd, Frame
from .values import NDArr, Obj, FuncRef, ClsRef, Opaque, is_sym, to_z3, as_int_term


class Token:
    """abstract value produced by a recorder (a matrix, a Kraus list ...): compared structurally"""

    def __init__(self, tag, *args):
        self.tag = tag
        self.args = args

    def __repr__(self):
        return f"{self.tag}({', '.join(map(repr, self.args))})"


def recorder(qual, name=None, result=None, requires=None, clause=""):
    """contract that records the call; result(I, *args) -> abstract return value"""
    nm = name or qual.split(":")[1].split(".")[-1]
    is_method = "." in qual.split(":")[1]

    def spec(I, *args):
        ev = {"name": nm, "args": list(args[1:] if is_method else args), "self": args[0] if is_method else None, "ret": None}
        I.path.trace.append(ev)
        if result is not None:
            ev["ret"] = result(I, *args)
        return ev["ret"]

    return Contract(qual, requires=requires, spec=spec, clause=clause or f"recorded call {nm}")


class Cursor:
    def __init__(self, I, label, trace):
        self.I = I
        self.label = label
        self.trace = trace
        self.pos = 0
        self.n = 0

    def _ob(self, what, goal):
        self.n += 1
        self.I.path.oblige(f"{self.label}:trace.{self.n}.{what}", goal if not isinstance(goal, bool) else z3.BoolVal(goal))

    def expect(self, name, *args):
        if self.pos >= len(self.trace):
            self._ob(f"{name}.missing", False)
            raise PathEnd()
        ev = self.trace[self.pos]
        self.pos += 1
        self._ob(f"{name}.name", ev["name"] == name)
        if ev["name"] != name:
            raise PathEnd()
        got = ev["args"]
        if len(got) != len(args):
            self._ob(f"{name}.arity", False)
            raise PathEnd()
        for k, (g, w) in enumerate(zip(got, args)):
            self._ob(f"{name}.arg{k}", same(g, w))
        return ev["ret"]

    def done(self):
        self._ob("no-further-effects", self.pos == len(self.trace))


def same(a, b):
    """structural equality of recorded vs. expected values -> z3 Bool / python bool"""
    if isinstance(a, Token) or isinstance(b, Token):
        if not (isinstance(a, Token) and isinstance(b, Token)) or a.tag != b.tag or len(a.args) != len(b.args):
            return False
        parts = [same(x, y) for x, y in zip(a.args, b.args)]
        return _all(parts)
    if isinstance(a, (list, tuple)) and isinstance(b, (list, tuple)):
        if len(a) != len(b):
            return False
        return _all([same(x, y) for x, y in zip(a, b)])
    if is_sym(a) or is_sym(b):
        if isinstance(a, (str, type(None), Obj)) or isinstance(b, (str, type(None), Obj)):
            return False
        return as_int_term(a) == as_int_term(b)
    if isinstance(a, (Obj, ClsRef, Opaque)) or isinstance(b, (Obj, ClsRef, Opaque)):
        return a is b
    return a == b


def _all(parts):
    if all(isinstance(p, bool) for p in parts):
        return all(parts)
    return z3.And(*[to_z3(p) if not isinstance(p, bool) else z3.BoolVal(p) for p in parts])


class TraceTask:
    """qual: the dispatcher; mk_inputs(I) -> args; spec(I, cur, *args): walks the trace, returns expected return value
    (or None); post(I, E, args): optional extra state obligations"""

    def __init__(self, qual, mk_inputs, spec, contracts, inline=(), label=None, hooks=None, requires=None, clause="",
                 timeout_ms=10000, expect_raise=None):
        self.qual = qual
        self.mk_inputs = mk_inputs
        self.spec = spec
        self.contracts = contracts
        self.inline = set(inline)
        self.label = label or qual.split(":")[1]
        self.hooks = hooks or {}
        self.requires = requires
        self.timeout_ms = timeout_ms
        self.contract = Contract(qual, clause=clause)
        self.expect_raise = expect_raise

    def run(self):
        eng = Engine(self.timeout_ms)
        m, node, cls = source.find(self.qual)

        def harness(path):
            I = Interp(path, self.contracts, self.inline, dict(self.hooks))
            I.task_name = self.qual
            path.ghost["task"] = self.qual
            f = FuncRef(m.name, node, self.qual, I.get_class(m.name, cls.name) if cls is not None else None)
            I.stack.append(Frame(m.name, {}, self.label))
            args = self.mk_inputs(I)
            if self.requires is not None:
                pre = self.requires(I, *args)
                path.assume(pre if not isinstance(pre, bool) else z3.BoolVal(pre))
            path.trace = []
            raised = None
            try:
                ret = I.call_function(f, list(args), {}, force_body=True)
            except RaiseEx as e:
                raised, ret = e, None
            if raised is not None:
                ok = self.expect_raise is not None and raised.exc_name in self.expect_raise
                eng.record(f"{self.label}:no-raise", "discharged" if ok else "refuted", 0,
                           "" if ok else f"real body raises {raised.exc_name}: {raised.msg}", None)
                return
            if self.expect_raise is not None:
                eng.record(f"{self.label}:no-raise", "refuted", 0, f"expected {self.expect_raise} but the body returned", None)
                return
            eng.record(f"{self.label}:no-raise", "discharged", 0, "", None)
            cur = Cursor(I, self.label, path.trace)
            I.claim_label = self.label
            exp = self.spec(I, cur, *args)
            cur.done()
            if exp is not None or ret is not None:
                path.oblige(f"{self.label}:post.return", to_z3(same(ret, exp)) if not isinstance(same(ret, exp), bool) else z3.BoolVal(same(ret, exp)))

        try:
            explore(eng, harness)
        except Undecided as u:
            eng.record(f"{self.label}:supported-subset", "undecided", 0, f"{u}", None)
        for r in eng.results.values():
            r.witness, r.replayed = None, False
        return eng


# =============================================================================================
# loops over an abstract sequence whose only cross-iteration effect is the effect trace
# =============================================================================================

class AbstractSeq:
    """a sequence of symbolic length whose elements are produced by `element(I, k)` (which may fork the path, e.g. over the
    finite set of operation classes)"""

    def __init__(self, length, element, label="seq"):
        self.length = length
        self.element = element
        self.label = label


class ForEach:
    """marker event: for every element of `seq`, in order, the events `template(elem)`"""

    def __init__(self, seq, tag):
        self.seq = seq
        self.tag = tag


def trace_loop_hook(expected, locals_=(), post_iter=None, tag="foreach", pure=(), stable=()):
    """Rule for `for x in <AbstractSeq>: body` where the body communicates with the rest of the function only through the
    effect trace and through heap objects it hands to recorded callees:
       - the body, run on an ARBITRARY element (fresh symbols; finite case splits fork the path), must record exactly
         expected(I, elem) (obligations via a Cursor) and satisfy post_iter (e.g. temporaries restored);
       - variables assigned by the body must be declared iteration-local and must not be read after the loop, or be
         declared `stable`: then the body must leave the variable bound to the IDENTICAL object it held at the start of
         the iteration (obligation `.frame.stable.<name>`; e.g. `t = gate(t, q)` where the callee returns its argument);
       - then the whole loop records ForEach(seq): by induction on the length of the sequence, no unrolling."""
    import ast as _ast
    from .loops import assigned_names

    def hook(interp, node, it):
        if not isinstance(it, AbstractSeq):
            return False
        path = interp.path
        fr = interp.stack[-1]
        lab = f"{fr.func_name}:foreach({_ast.unparse(node.target)})"
        written = assigned_names(node.body) | assigned_names([_ast.Expr(value=node.target)]) | {
            n.id for n in _ast.walk(node.target) if isinstance(n, _ast.Name)}
        extra = written - set(locals_) - set(stable) - {n.id for n in _ast.walk(node.target) if isinstance(n, _ast.Name)}
        path.engine.record(f"{lab}.frame.vars", "discharged" if not extra else "refuted", 0,
                           "" if not extra else f"loop body assigns {sorted(extra)}, not declared iteration-local", None)
        if extra:
            raise PathEnd()
        saved_trace = path.trace
        saved_pc = len(path.pc)
        saved_env = dict(fr.env)
        k = path.fresh("it")
        path.assume(z3.And(k >= 0, k < to_z3(it.length)))
        elem = it.element(interp, k)
        interp.assign(node.target, elem)
        path.trace = []
        try:
            interp.exec_block(node.body)
        except Exception as e:
            from .interp import BreakEx, ContinueEx, ReturnEx

            if isinstance(e, ContinueEx):
                pass
            elif isinstance(e, (BreakEx, ReturnEx)):
                raise Undecided("break/return inside a trace loop")
            elif isinstance(e, RaiseEx):
                exp = expected(interp, elem)
                ok = isinstance(exp, tuple) and exp and exp[0] == "raises" and e.exc_name in exp[1]
                path.engine.record(f"{lab}.no-raise", "discharged" if ok else "refuted", 0,
                                   "" if ok else f"loop body raises {e.exc_name}: {e.msg} for an element the contract accepts", None)
                raise PathEnd()
            else:
                raise
        exp = expected(interp, elem)
        if isinstance(exp, tuple) and exp and exp[0] == "raises":
            path.engine.record(f"{lab}.no-raise", "refuted", 0, f"contract says the body must raise {exp[1]} for this element", None)
            raise PathEnd()
        path.trace[:] = [e_ for e_ in path.trace if e_["name"] not in pure]  # pure reads are not effects
        cur = Cursor(interp, lab, path.trace)
        for name, args in exp:
            cur.expect(name, *args)
        cur.done()
        if post_iter is not None:
            post_iter(interp, elem, lab)
        for nm_ in stable:
            ok_ = nm_ in saved_env and fr.env.get(nm_) is saved_env[nm_]
            path.engine.record(f"{lab}.frame.stable.{nm_}", "discharged" if ok_ else "refuted", 0,
                               "" if ok_ else f"after the loop body `{nm_}` is bound to a different object than before", None)
        # leave the arbitrary iteration
        del path.pc[saved_pc:]
        fr.env.clear()
        fr.env_havoc = True
        fr.env.update({k_: v for k_, v in saved_env.items()})
        path.trace = saved_trace
        path.trace.append({"name": tag, "args": [it], "self": None, "ret": None})
        return True

    return hook
