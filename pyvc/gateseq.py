"""Gate lists of SYMBOLIC length: `[(name, qubit), ...]` with `name` from the finite alphabet of single-qubit gate names of
the stabilizer backend (`local_cliff_equi_check.str_to_op.name_list`) and `qubit` a symbolic integer.

A `GateSeq` is an engine value (an `Opaque` with tag "gateseq", so that truthiness, `len`, slices, `+`, attribute access
and iteration reach the hooks below and NEVER fall back to Python's own list semantics).  It is extensional, like `SymList`:
      length : z3 Int term            name(k) : z3 Int term (index into NAMES)            qubit(k) : z3 Int term
All list operations are defines-style (the new sequence is an explicit function of the old ones, no quantifiers):

      a + b                        concat          (either side may be a concrete Python list of (str, int) tuples)
      s[::-1] / s.reverse()        reversal        elem(k) = old(n-1-k)
      s.append((name, q))          in place
      [(c, p) for p in s']         (`comprehension` hook) a constant name over a list of positions (`PosSeq`)
      for g in s: out.append(F(g)) (`loop` hook, MAP rule) the body is run once for EVERY letter of the alphabet on an
                                   arbitrary element (complete finite case split, no unrolling over the length); it must
                                   append exactly one gate to exactly one list and touch nothing else; the loop as a whole
                                   appends the letter-wise image of the sequence (induction on the length)
      s.sort(...) / s.sort(key=f)  [A] "some re-ordering": a sequence of the same length whose elements are NOT specified
                                   (sound over-approximation of any permutation; an order contract cannot be proved across
                                   it and fails with a counter-model, which the task replays on the real code)
      if s: / not s / len(s)       length > 0 (forks) / length
Everything else (iteration without the rule, `sorted(s)`, `list(s)`, indexing ...) is `Undecided`.

`PosSeq` is the same thing for a list of qubit positions (`h_positions`, `z_diag_pos`): length + pos(k).

[A] Python semantics assumed: list concatenation / reversal / append as above; a `for` loop over a list visits the elements in
order; a comprehension `[e(x) for x in L]` is the element-wise image of L in order.
"""
from __future__ import annotations

import ast

import z3

from .interp import Undecided, PathEnd, BreakEx, ContinueEx, ReturnEx
from .values import Opaque, Builtin, to_z3, is_sym, concrete_int
from .loops import assigned_names

NAMES = ("I", "H", "X", "P", "P_dag", "Z")
CODE = {n: k for k, n in enumerate(NAMES)}
INVERSE = {"I": "I", "H": "H", "X": "X", "P": "P_dag", "P_dag": "P", "Z": "Z"}  # textbook inverses of the six gates


def _int(x):
    if isinstance(x, bool):
        raise Undecided("bool used as a qubit index")
    return to_z3(x)


class GateSeq(Opaque):
    def __init__(self, length, name, qubit, label="gates"):
        super().__init__("gateseq", {})
        self.length = to_z3(length)
        self.name = name
        self.qubit = qubit
        self.label = label

    def copy(self):
        return GateSeq(self.length, self.name, self.qubit, self.label)

    def __iter__(self):  # a Python-level iteration (list.extend(gateseq) ...) must never silently succeed
        raise Undecided("Python-level iteration over a gate list of symbolic length")

    def __bool__(self):
        raise Undecided("Python-level truth value of a gate list of symbolic length")

    def __repr__(self):
        return f"<GateSeq {self.label} len={self.length}>"


class PosSeq(Opaque):
    """list of qubit positions of symbolic length"""

    def __init__(self, length, pos, label="positions"):
        super().__init__("posseq", {})
        self.length = to_z3(length)
        self.pos = pos
        self.label = label

    def __iter__(self):
        raise Undecided("Python-level iteration over a position list of symbolic length")

    def __bool__(self):
        raise Undecided("Python-level truth value of a position list of symbolic length")

    def __repr__(self):
        return f"<PosSeq {self.label} len={self.length}>"


def fresh_gates(I, tag, names=NAMES):
    """an arbitrary gate list: symbolic length >= 0, names within `names`, arbitrary qubits (uninterpreted functions)"""
    c = I.path.counter.get("gseq", 0)
    I.path.counter["gseq"] = c + 1
    L = z3.Int(f"len_{tag}!{c}")
    NM = z3.Function(f"name_{tag}!{c}", z3.IntSort(), z3.IntSort())
    QB = z3.Function(f"qubit_{tag}!{c}", z3.IntSort(), z3.IntSort())
    I.path.assume(L >= 0)
    codes = [CODE[n] for n in names]

    def name(k):  # the alphabet restriction is built in (no quantified assumption): a code outside it is mapped to codes[0]
        t = NM(to_z3(k))
        return z3.If(z3.Or(*[t == c_ for c_ in codes]), t, z3.IntVal(codes[0]))

    s = GateSeq(L, name, lambda k: QB(to_z3(k)), tag)
    s.symbols = (L, NM, QB)
    return s


def fresh_positions(I, tag):
    c = I.path.counter.get("pseq", 0)
    I.path.counter["pseq"] = c + 1
    L = z3.Int(f"len_{tag}!{c}")
    PS = z3.Function(f"pos_{tag}!{c}", z3.IntSort(), z3.IntSort())
    I.path.assume(L >= 0)
    s = PosSeq(L, lambda k: PS(to_z3(k)), tag)
    s.symbols = (L, PS)
    return s


def from_items(items, label="concrete"):
    """a concrete Python list of (name, qubit) tuples -> GateSeq"""
    vals = []
    for it in items:
        if not (isinstance(it, tuple) and len(it) == 2 and isinstance(it[0], str)):
            raise Undecided(f"list item {it!r} is not a (gate name, qubit) tuple")
        if it[0] not in CODE:
            raise Undecided(f"gate name {it[0]!r} outside the single-qubit alphabet {NAMES}")
        vals.append((CODE[it[0]], _int(it[1])))

    def pick(k, j):
        t = z3.IntVal(0)
        for m in range(len(vals) - 1, -1, -1):
            t = z3.If(to_z3(k) == m, vals[m][j] if not isinstance(vals[m][j], int) else z3.IntVal(vals[m][j]), t)
        return t

    return GateSeq(z3.IntVal(len(vals)), lambda k: pick(k, 0), lambda k: pick(k, 1), label)


def as_seq(v):
    if isinstance(v, GateSeq):
        return v
    if isinstance(v, list):
        return from_items(v)
    raise Undecided(f"{type(v).__name__} used as a gate list")


def concat(a, b):
    a, b = as_seq(a), as_seq(b)
    na, an, aq, bn, bq = a.length, a.name, a.qubit, b.name, b.qubit
    return GateSeq(z3.simplify(na + b.length),
                   lambda k: z3.If(to_z3(k) < na, an(to_z3(k)), bn(to_z3(k) - na)),
                   lambda k: z3.If(to_z3(k) < na, aq(to_z3(k)), bq(to_z3(k) - na)), "concat")


def reverse(a):
    a = as_seq(a)
    n, an, aq = a.length, a.name, a.qubit
    return GateSeq(n, lambda k: an(n - 1 - to_z3(k)), lambda k: aq(n - 1 - to_z3(k)), "reversed")


def map_names(a, table):
    """letter-wise image: table maps every name of the alphabet to a name"""
    a = as_seq(a)
    an = a.name

    def name(k):
        t0 = an(to_z3(k))
        t = z3.IntVal(CODE[table[NAMES[-1]]])
        for nm in NAMES[-2::-1]:
            t = z3.If(t0 == CODE[nm], z3.IntVal(CODE[table[nm]]), t)
        return t

    return GateSeq(a.length, name, a.qubit, "mapped")


def inverse_of(a):
    """the inverse circuit: reversed order, every gate inverted"""
    return reverse(map_names(a, INVERSE))


def const_over(name, ps: PosSeq):
    """[(name, p) for p in ps]"""
    c = z3.IntVal(CODE[name])
    pp = ps.pos
    return GateSeq(ps.length, lambda k: c, lambda k: pp(to_z3(k)), f"{name}-list")


def unspecified_permutation(I, a, why):
    """[A] result of a re-ordering operation: same length, elements not specified"""
    s = fresh_gates(I, "reordered")
    I.path.assume(s.length == as_seq(a).length)
    s.label = why
    return s


def seq_equal(I, label, got, want):
    """obligations: same length, same gate (name and qubit) at a skolem position"""
    path = I.path
    if not isinstance(got, (GateSeq, list)):
        path.oblige(f"{label}.is-a-gate-list", z3.BoolVal(False))
        return
    try:
        got = as_seq(got)
    except Undecided:
        path.oblige(f"{label}.is-a-gate-list", z3.BoolVal(False))
        return
    want = as_seq(want)
    path.oblige(f"{label}.len", got.length == want.length)
    m = path.fresh("sk")
    rng = [m >= 0, m < want.length, got.length == want.length]
    path.oblige(f"{label}.gate-name", got.name(m) == want.name(m), extra=rng)
    path.oblige(f"{label}.qubit", got.qubit(m) == want.qubit(m), extra=rng)


# ------------------------------------------------------------------------------------------ hooks
def binop_hook(interp, op, a, b):
    if isinstance(a, (GateSeq, PosSeq)) or isinstance(b, (GateSeq, PosSeq)):
        if isinstance(op, ast.Add) and not isinstance(a, PosSeq) and not isinstance(b, PosSeq) \
                and isinstance(a, (GateSeq, list)) and isinstance(b, (GateSeq, list)):
            return concat(a, b)
        raise Undecided(f"{type(op).__name__} on a list of symbolic length")
    return NotImplemented


def getslice_hook(interp, obj, lo, hi, st):
    if isinstance(obj, GateSeq):
        if lo is None and hi is None and st == -1:
            return reverse(obj)
        if lo is None and hi is None and st in (None, 1):
            return obj.copy()
        raise Undecided("slice of a gate list of symbolic length other than [::-1] / [:]")
    return None


def truth_hook(interp, v):
    if isinstance(v, (GateSeq, PosSeq)):
        return interp.path.decide(v.length > 0)
    raise Undecided("truth of opaque")


def len_hook(interp, v):
    if isinstance(v, (GateSeq, PosSeq)):
        return v.length
    return None


def getattr_hook(interp, obj, attr):
    if not isinstance(obj, GateSeq):
        return NotImplemented
    if attr == "append":
        def app(i, x):
            new = concat(obj, [x])
            obj.length, obj.name, obj.qubit = new.length, new.name, new.qubit
        return Builtin("append", app)
    if attr == "extend":
        def ext(i, xs):
            new = concat(obj, xs)
            obj.length, obj.name, obj.qubit = new.length, new.name, new.qubit
        return Builtin("extend", ext)
    if attr == "reverse":
        def rev(i):
            new = reverse(obj)
            obj.length, obj.name, obj.qubit = new.length, new.name, new.qubit
        return Builtin("reverse", rev)
    if attr == "copy":
        return Builtin("copy", lambda i: obj.copy())
    if attr == "sort":
        def srt(i, key=None, reverse=False):
            from . import models

            models.used("list.sort on a gate list of symbolic length = an unspecified re-ordering (same length)")
            new = unspecified_permutation(i, obj, "sorted in place")
            obj.length, obj.name, obj.qubit = new.length, new.name, new.qubit
            obj.reordered = True
        return Builtin("sort", srt)
    raise Undecided(f"list.{attr} on a gate list of symbolic length")


def comprehension_hook(interp, elt, gens):
    """[(<const name>, p) for p in <PosSeq>]"""
    if len(gens) != 1 or gens[0].ifs or gens[0].is_async or not isinstance(gens[0].target, ast.Name):
        return None
    try_iter = gens[0].iter
    if not isinstance(try_iter, ast.Name):
        return None
    src = interp.stack[-1].env.get(try_iter.id)
    if not isinstance(src, PosSeq):
        return None
    t = gens[0].target.id
    if not (isinstance(elt, ast.Tuple) and len(elt.elts) == 2 and isinstance(elt.elts[0], ast.Constant)
            and isinstance(elt.elts[0].value, str) and isinstance(elt.elts[1], ast.Name) and elt.elts[1].id == t):
        raise Undecided("comprehension over a position list other than [(<name>, p) for p in positions]")
    nm = elt.elts[0].value
    if nm not in CODE:
        raise Undecided(f"gate name {nm!r} outside the single-qubit alphabet")
    from . import models

    models.used("[(name, p) for p in L] over a symbolic-length list = element-wise image in order")
    return const_over(nm, src)


def _appended_lists(body):
    """names of the lists the body appends to; any other list method on such a name (insert, extend, pop ...) is outside the rule"""
    out, other = set(), set()
    for n in ast.walk(ast.Module(body=list(body), type_ignores=[])):
        if isinstance(n, ast.Call) and isinstance(n.func, ast.Attribute) and isinstance(n.func.value, ast.Name):
            (out if n.func.attr == "append" else other).add(n.func.value.id)
    if out & other:
        raise Undecided(f"the loop body calls list methods other than append on {sorted(out & other)}")
    return out


def loop_hook(fallback=None):
    """MAP rule for `for g in <GateSeq>: ... out.append(<gate>) ...` (see module docstring)"""
    from .invloop import snapshot, changed

    def hook(interp, node, it):
        if not isinstance(it, GateSeq):
            return fallback(interp, node, it) if fallback is not None else False
        path, fr = interp.path, interp.stack[-1]
        tag = f"{fr.func_name}:gate-map-loop({ast.unparse(node.target)} in {ast.unparse(node.iter)})"
        if node.orelse:
            raise Undecided("for-else over a gate list")
        tnames = {n.id for n in ast.walk(node.target) if isinstance(n, ast.Name)}
        extra = assigned_names(node.body) - tnames
        path.engine.record(f"{tag}.frame.vars", "discharged" if not extra else "refuted", 0,
                           "" if not extra else f"loop body assigns {sorted(extra)}: state carried across iterations is not covered by the map rule", None)
        if extra:
            raise PathEnd()
        outs = _appended_lists(node.body)
        if len(outs) != 1:
            raise Undecided(f"map rule needs exactly one list that the body appends to, found {sorted(outs)}")
        out = next(iter(outs))
        out0 = fr.env.get(out)
        if not isinstance(out0, (list, GateSeq)):
            raise Undecided(f"`{out}` is not a list")
        if sum(1 for kk, v in fr.env.items() if v is out0) != 1:
            raise Undecided(f"the list `{out}` is aliased by another variable")
        prefix = as_seq(out0)
        N = it.length
        saved_pc, saved_env, saved_trace = len(path.pc), dict(fr.env), path.trace
        k = path.fresh("it")
        path.assume(z3.And(k >= 0, k < N))
        qk = it.qubit(k)
        image, qimage = {}, {}
        pc_iter = len(path.pc)
        for letter in NAMES:
            del path.pc[pc_iter:]  # assumptions made while running the body for the previous letter do not carry over
            feasible = path.engine.feasible(path.pc + [it.name(k) == CODE[letter]])
            if not feasible:
                image[letter], qimage[letter] = letter, qk  # this letter does not occur in the sequence
                continue
            local = []
            fr.env.clear()
            fr.env.update(saved_env)
            fr.env[out] = local
            path.trace = []
            snap = snapshot([v for kk, v in fr.env.items() if kk != "__parent__"], exclude=[local])
            d0 = len(path.decisions)
            interp.assign(node.target, (letter, qk))
            try:
                interp.exec_block(node.body)
            except ContinueEx:
                pass
            except (BreakEx, ReturnEx):
                raise Undecided("break / return inside a loop over a gate list")
            if len(path.decisions) != d0:
                raise Undecided("the body of a loop over a gate list branches on a symbolic value")
            bad = changed(snap)
            ok = not bad and not path.trace and fr.env.get(out) is local
            path.engine.record(f"{tag}.frame.heap[{letter}]", "discharged" if ok else "refuted", 0,
                               "" if ok else f"the body has effects other than appending to `{out}` ({bad!r}, {len(path.trace)} recorded call(s))", None)
            one = len(local) == 1 and isinstance(local[0], tuple) and len(local[0]) == 2 and isinstance(local[0][0], str) \
                and local[0][0] in CODE
            path.engine.record(f"{tag}.one-gate-per-element[{letter}]", "discharged" if one else "refuted", 0,
                               "" if one else f"for a gate named {letter!r} the body appends {local!r} (exactly one (name, qubit) tuple expected)", None)
            if not ok or not one:
                raise PathEnd()
            image[letter], qimage[letter] = local[0][0], _int(local[0][1])
        del path.pc[saved_pc:]
        fr.env.clear()
        fr.env.update(saved_env)
        path.trace = saved_trace
        for nm_ in tnames:
            fr.env[nm_] = Opaque("stale-after-loop", nm_)
        an, aq = it.name, it.qubit

        def qubit(j):
            t0 = an(to_z3(j))
            t = None
            for letter in NAMES[::-1]:
                qj = z3.substitute(qimage[letter], (k, to_z3(j))) if not z3.is_int_value(qimage[letter]) else qimage[letter]
                t = qj if t is None else z3.If(t0 == CODE[letter], qj, t)
            return t

        mapped = map_names(it, image)
        mapped.qubit = qubit
        fr.env[out] = concat(prefix, mapped)
        path.ghost.setdefault("gate_maps", []).append(dict(loop=tag, image=dict(image)))
        return True

    return hook


def iterate_hook(interp, v):
    if isinstance(v, (GateSeq, PosSeq)):
        raise Undecided("iteration over a list of symbolic length outside the map rule (sorted / list / reversed / unpacking)")
    return None


def sorted_hook(interp, x, key=None, reverse=False):
    """sorted(<gate list of symbolic length>, ...): [A] a NEW list, some re-ordering of x (same length, elements not specified)"""
    if isinstance(x, GateSeq):
        from . import models

        models.used("sorted() of a gate list of symbolic length = an unspecified re-ordering (same length)")
        return unspecified_permutation(interp, x, "sorted copy")
    return None


HOOKS = {"sorted": sorted_hook, "binop": binop_hook, "getslice": getslice_hook, "truth": truth_hook, "len": len_hook, "getattr": getattr_hook,
         "comprehension": comprehension_hook, "iterate": iterate_hook}


# ------------------------------------------------------------------------------------------ concrete side (replays)
def eval_seq(model, s: GateSeq, max_len=6):
    """the concrete list a counter-model assigns to a gate sequence"""
    def ev(t):
        v = model.eval(t, model_completion=True)
        return v.as_long()

    n = ev(s.length)
    if n < 0 or n > max_len:
        raise ValueError("witness too long")
    return [(NAMES[ev(s.name(z3.IntVal(k)))], ev(s.qubit(z3.IntVal(k)))) for k in range(n)]
