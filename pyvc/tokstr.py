"""Token strings: the result of an f-string that embeds SYMBOLIC integers (register numbers).

A `TokStr` is a sequence of parts, each a Python str or a z3 Int term standing for the decimal rendering `str(n)` of that
integer ([A] str(int) / f"{n}" is the decimal numeral of n).  Adjacent strings are merged; a TokStr whose parts are all
concrete collapses to a plain Python str.  Supported: f-strings (opt-in hook `fstring`), `+` with str/TokStr, `sep.join`,
`==` / `!=` (STRUCTURAL: same part boundaries, equal strings, syntactically equal terms - sound for inequality only between
token strings built the same way; specifications here build the expected text with the same constructor `tok(...)`).
Everything else on a TokStr is outside the accepted subset.
"""
from __future__ import annotations

import ast

import z3


class TokStr:
    __tokstr__ = True

    def __init__(self, parts):
        self.parts = tuple(parts)

    def __add__(self, o):
        return tok(*self.parts, *(_parts(o)))

    def __radd__(self, o):
        return tok(*_parts(o), *self.parts)

    def __eq__(self, o):
        if isinstance(o, str):
            return False  # a TokStr always holds at least one symbolic part
        if not isinstance(o, TokStr) or len(o.parts) != len(self.parts):
            return False
        for a, b in zip(self.parts, o.parts):
            if isinstance(a, str) != isinstance(b, str):
                return False
            if isinstance(a, str):
                if a != b:
                    return False
            elif not z3.simplify(a).eq(z3.simplify(b)):
                return False
        return True

    def __ne__(self, o):
        return not self.__eq__(o)

    def __hash__(self):
        return hash(tuple(p if isinstance(p, str) else p.get_id() for p in self.parts))

    def __repr__(self):
        return "tok(" + ", ".join(repr(p) if isinstance(p, str) else f"<{p}>" for p in self.parts) + ")"

    def render(self, model_eval):
        """concrete text for concrete values of the embedded integers"""
        return "".join(p if isinstance(p, str) else str(model_eval(p)) for p in self.parts)


def _parts(o):
    if isinstance(o, TokStr):
        return o.parts
    if isinstance(o, str):
        return (o,)
    if isinstance(o, bool):
        return (str(o),)
    if isinstance(o, int):
        return (str(o),)
    if isinstance(o, z3.ExprRef) and z3.is_int(o):
        s = z3.simplify(o)
        if z3.is_int_value(s):
            return (str(s.as_long()),)
        return (o,)
    raise TypeError(f"cannot embed {type(o).__name__} in a token string")


def tok(*items):
    """normalising constructor: str | int | z3 Int | TokStr items -> str (all concrete) or TokStr"""
    parts = []
    for it in items:
        for p in _parts(it):
            if isinstance(p, str):
                if not p:
                    continue
                if parts and isinstance(parts[-1], str):
                    parts[-1] += p
                else:
                    parts.append(p)
            else:
                parts.append(p)
    if all(isinstance(p, str) for p in parts):
        return "".join(parts)
    return TokStr(parts)


def join(sep, items):
    out = []
    for k, it in enumerate(items):
        if k:
            out.append(sep)
        out.append(it)
    return tok(*out)


def fstring_hook(interp, node):
    """opt-in model of ast.JoinedStr: evaluates the embedded expressions with the interpreter"""
    from .interp import Undecided

    items = []
    for v in node.values:
        if isinstance(v, ast.Constant):
            items.append(v.value)
        elif isinstance(v, ast.FormattedValue):
            if v.conversion != -1 or v.format_spec is not None:
                raise Undecided("f-string conversion / format spec")
            x = interp.eval(v.value)
            try:
                _parts(x)
            except TypeError as e:
                raise Undecided(f"f-string: {e}")
            items.append(x)
        else:
            raise Undecided("f-string part " + type(v).__name__)
    return tok(*items)
