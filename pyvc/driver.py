"""Run verification tasks (in a process pool) and turn engine results into vf.core.Obl / Deductive records."""
from __future__ import annotations

import multiprocessing as mp
import os
import time
import traceback

from vf.core import Obl, Deductive
from . import source, models
from .interp import RaiseEx


def _model_text(m, limit=1500):
    if m is None:
        return ""
    try:
        parts = []
        for d in m.decls():
            parts.append(f"{d.name()} = {m[d]}")
        return "; ".join(sorted(parts))[:limit]
    except Exception:  # noqa: BLE001
        return str(m)[:limit]


def run_task(task):
    """-> list of dict rows (picklable)"""
    t0 = time.time()
    rows = []
    try:
        eng = task.run()
        for name, r in eng.results.items():
            rows.append(dict(name=name, status=r.status, ms=r.ms, detail=r.detail, backend=r.backend,
                             model=_model_text(r.model), count=r.count, witness=getattr(r, "witness", None),
                             replayed=getattr(r, "replayed", False)))
        meta = dict(paths=eng.paths, solver_ms=eng.solver_ms, wall=time.time() - t0, error=None,
                    used=sorted(models.USED))
    except RaiseEx as e:
        # the interpreted code raised where the task's harness did not expect it (typically: the code reads an attribute the
        # abstract model of an object does not provide, i.e. it left the modelled subset): undecided, never a verdict and
        # not an engine fault
        rows = [dict(name=f"{task.label}:supported-subset", status="undecided", ms=0.0,
                     detail=f"interpreted code raised {e.args[:2]} outside the harness' model", backend="pyvc", model="", count=1,
                     witness=None, replayed=False)]
        meta = dict(paths=0, solver_ms=0, wall=time.time() - t0, error=None, used=sorted(models.USED))
    except Exception as e:  # noqa: BLE001  - engine bug: never a verdict about the property
        meta = dict(paths=0, solver_ms=0, wall=time.time() - t0, error=f"{type(e).__name__}: {e}\n{traceback.format_exc()[-1500:]}",
                    used=[])
    return task.label, task.qual, rows, meta


_TASKS = None


def _run_idx(i):
    return run_task(_TASKS[i])


def run_tasks(tasks, procs=None, clause_of=None, kind="P"):
    """tasks: list[Task]; returns Deductive (obligations etc.)"""
    global _TASKS
    procs = procs or int(os.environ.get("VERIF_PROCS", "16"))
    _TASKS = tasks
    if procs > 1 and len(tasks) > 1:
        ctx = mp.get_context("fork")
        with ctx.Pool(min(procs, len(tasks))) as pool:
            results = pool.map(_run_idx, range(len(tasks)), chunksize=1)
    else:
        results = [_run_idx(i) for i in range(len(tasks))]
    _TASKS = None
    d = Deductive()
    used = set()
    for (label, qual, rows, meta), task in zip(results, tasks):
        if meta["error"]:
            d.errors.append(f"task {label}: {meta['error']}")
            continue
        used.update(meta["used"])
        fn = d.functions.setdefault(qual, {"sha256": _sha(qual), "tasks": [], "obligations": 0, "discharged": 0,
                                           "solver_ms": 0.0, "paths": 0})
        fn["tasks"].append(label)
        fn["paths"] += meta["paths"]
        fn["solver_ms"] = round(fn["solver_ms"] + meta["solver_ms"], 1)
        if not rows:
            d.errors.append(f"task {label}: generated zero obligations (vacuity guard)")
        for r in rows:
            fn["obligations"] += 1
            fn["discharged"] += r["status"] == "discharged"
            oname = r["name"] if r["name"].split(":")[0] == label else f"{label}|{r['name']}"
            d.obligations.append(Obl(name=oname, function=qual, status=r["status"], kind=kind, backend=r["backend"],
                                     ms=r["ms"], detail=(r["detail"] + (" | model: " + r["model"] if r["model"] else ""))[:3000],
                                     clause=(task.contract.clause if task.contract is not None else ""),
                                     witness=r.get("witness"), replayed=bool(r.get("replayed"))))
    for q, fn in d.functions.items():
        fn["status"] = "P" if fn["obligations"] == fn["discharged"] else "undecided-or-refuted"
    d.trusted_base.extend(sorted(f"[A] {u}" for u in used))
    d.dropped = list(source.DROPPED)
    return d


def _sha(qual):
    try:
        return source.sha_of(qual)
    except Exception:  # noqa: BLE001
        return "unavailable"


def merge(*ds):
    out = Deductive()
    for d in ds:
        out.obligations.extend(d.obligations)
        for q, fn in d.functions.items():
            if q in out.functions:
                o = out.functions[q]
                o["tasks"] += fn["tasks"]
                o["obligations"] += fn["obligations"]
                o["discharged"] += fn["discharged"]
                o["solver_ms"] = round(o["solver_ms"] + fn["solver_ms"], 1)
                o["paths"] += fn.get("paths", 0)
                o["status"] = "P" if o["obligations"] == o["discharged"] else "undecided-or-refuted"
            else:
                out.functions[q] = dict(fn)
        for f in ("trusted_base", "assumptions", "dropped", "canaries", "inlined", "notes", "not_applicable_clauses", "errors"):
            for x in getattr(d, f):
                if x not in getattr(out, f):
                    getattr(out, f).append(x)
    return out
