"""Sidecar contracts and the per-function verification task.

A contract consists of
  * requires(I, *args) -> z3 Bool / python bool: the precondition (checked as an obligation at every call site),
  * spec(I, *args)     -> return value: an *executable symbolic specification*: it performs the abstract effect of the
    function on the symbolic state (`defines`-style: the new contents are explicit functions of the old contents, so no
    quantifier is needed at call sites), including which array objects are mutated in place and which are rebound,
  * raises: optional description of permitted abrupt exits.

Verifying a function = running its REAL body and its spec from two structurally identical copies of a fresh symbolic
input state and proving, for skolem indices, that results / reachable state agree (and that object identities agree).
At call sites inside other verified functions only the contract is used (modular verification).
"""
from __future__ import annotations

import z3

from . import source
from .interp import Interp, Engine, Path, explore, RaiseEx, Undecided, PathEnd
from .values import NDArr, Obj, FuncRef, is_sym, to_z3, as_int_term, concrete_int
from .symlist import SymList, SymDict, from_list as _symlist_from


class Contract:
    def __init__(self, qual, requires=None, spec=None, doc="", permitted_raises=None, clause="", extract=None, choices=None):
        self.qual = qual
        self.requires = requires
        self.spec = spec
        self.doc = doc
        self.permitted_raises = permitted_raises  # callable(I, exc_name, *args) -> bool  (abrupt exit allowed?)
        self.clause = clause
        # relational contracts: free choices of the implementation (which pivot row, which random bit ...) are
        # existentially specified.  extract(I_body, ret_b) -> dict of the body's actual choices; the spec reads them from
        # I.choice and must *prove* their characterisation (claim -> obligation).  At call sites I.choice is None: the spec
        # creates fresh symbols and *assumes* the characterisation.
        self.extract = extract
        # concrete replay of a relational contract whose result does not expose the choices: choices(concrete args) -> every
        # admissible-looking choice dict; the real result agrees with the contract iff SOME choice whose characterisation holds
        # reproduces it (sound: the contract is "exists a choice such that ...")
        self.choices = choices

    def bind(self, interp, args, kwargs):
        m, node, cls = source.find(self.qual)
        env = interp.bind_args(node, list(args), dict(kwargs), m.name)
        a = node.args
        names = [p.arg for p in a.posonlyargs + a.args] + [p.arg for p in a.kwonlyargs]
        return [env[n] for n in names]

    def apply(self, interp, args, kwargs):
        vals = self.bind(interp, args, kwargs)
        if self.requires is not None:
            pre = self.requires(interp, *vals)
            pre = z3.BoolVal(pre) if isinstance(pre, bool) else pre
            short = self.qual.split(":")[1]
            name = interp.ob_name(f"pre({short})")
            interp.path.oblige(name, pre)
            interp.path.assume(pre)
        return self.spec(interp, *vals)


# ---------------------------------------------------------------------------------------------
# structural equivalence of two result states
# ---------------------------------------------------------------------------------------------

class Equiv:
    def __init__(self, path: Path, prefix, idmap):
        self.path = path
        self.prefix = prefix
        self.idmap = idmap  # id(body input object) -> spec input object (objects and stores)
        self.seen = set()

    def ob(self, label, goal, extra=()):
        self.path.oblige(f"{self.prefix}:post.{label}", goal, extra)

    def same_identity(self, label, vb, vs):
        """object identity must correspond: body result is input object X  <=>  spec result is the copy of X"""
        kb = self.idmap.get(id(vb))
        if kb is None:
            # body object is fresh: the spec object must be fresh too (not one of the spec inputs)
            fresh_spec = all(vs is not o for k_, o in self.idmap.items() if k_ not in ("__stores__", "__keepalive__"))
            self.ob(label + ".identity", z3.BoolVal(fresh_spec))
        else:
            self.ob(label + ".identity", z3.BoolVal(kb is vs))

    def eq(self, label, vb, vs):
        key = (id(vb), id(vs))
        if key in self.seen:
            return
        if isinstance(vb, NDArr) and isinstance(vs, NDArr):
            self.seen.add(key)
            if vb.ndim != vs.ndim:
                self.ob(label + ".rank", z3.BoolVal(False))
                return
            for k, (s, t) in enumerate(zip(vb.shape, vs.shape)):
                self.ob(f"{label}.shape{k}", to_z3(s) == to_z3(t))
            idx = [self.path.fresh("sk") for _ in vb.shape]
            rng = [z3.And(i >= 0, i < to_z3(s)) for i, s in zip(idx, vs.shape)]
            if getattr(vs.store, "havoc", False) and getattr(vs.store, "havoc_pred", None) is not None:
                # the contract leaves the CONTENTS of this result unspecified (frame contracts): only its shape and the
                # stated element predicate (e.g. "entries are bits") are part of the postcondition
                self.ob(label + ".elements", vs.store.havoc_pred(as_int_term(vb.get(*idx))), extra=rng)
                return
            a, b = as_int_term(vb.get(*idx)), as_int_term(vs.get(*idx))
            if z3.is_real(a) != z3.is_real(b):
                a = z3.ToReal(a) if z3.is_int(a) else a
                b = z3.ToReal(b) if z3.is_int(b) else b
            self.ob(label, a == b, extra=rng)
            self.same_identity(label + ".store", vb.store, vs.store)
            return
        if isinstance(vb, Obj) and isinstance(vs, Obj):
            self.seen.add(key)
            if (vb.cls.module, vb.cls.name) != (vs.cls.module, vs.cls.name):
                self.ob(label + ".class", z3.BoolVal(False))
                return
            self.same_identity(label, vb, vs)
            for f in sorted(set(vb.fields) | set(vs.fields)):
                if f not in vb.fields or f not in vs.fields:
                    self.ob(f"{label}.{f}.present", z3.BoolVal(False))
                    continue
                self.eq(f"{label}.{f}", vb.fields[f], vs.fields[f])
            return
        if isinstance(vb, SymDict) or isinstance(vs, SymDict):
            # dicts of symbolic size: same number of entries, and entry i (insertion order) has the same key and value
            if not (isinstance(vb, SymDict) and isinstance(vs, SymDict)):
                self.ob(label + ".kind", z3.BoolVal(False))
                return
            self.ob(label + ".len", to_z3(vb.length) == to_z3(vs.length))
            m = self.path.fresh("sk")
            rng = [m >= 0, m < to_z3(vs.length)]
            self.ob(label + ".key", as_int_term(vb.key(m)) == as_int_term(vs.key(m)), extra=rng)
            self.ob(label + ".value", as_int_term(vb.val(m)) == as_int_term(vs.val(m)), extra=rng)
            return
        if isinstance(vb, SymList) or isinstance(vs, SymList):
            # lists of symbolic length: equal lengths, equal elements at a skolem position
            if not all(isinstance(v, (SymList, list)) for v in (vb, vs)):
                self.ob(label + ".kind", z3.BoolVal(False))
                return
            if getattr(vs, "havoc", False):
                return  # the contract leaves this list unspecified (frame contracts)
            lb = vb if isinstance(vb, SymList) else _symlist_from(vb)
            ls = vs if isinstance(vs, SymList) else _symlist_from(vs)
            self.ob(label + ".len", to_z3(lb.length) == to_z3(ls.length))
            m = self.path.fresh("sk")
            eb, es = lb.get(m), ls.get(m)
            if _is_matrix_like(eb) and _is_matrix_like(es):
                # elements are abstract matrices (e.g. abstract networkx graphs): same size, same entries at a skolem index
                rng = [m >= 0, m < to_z3(ls.length)]
                self.ob(label + ".elem.n", to_z3(eb.payload["n"]) == to_z3(es.payload["n"]), extra=rng)
                i_, j_ = self.path.fresh("sk"), self.path.fresh("sk")
                nn = to_z3(es.payload["n"])
                self.ob(label + ".elem.adjacency", as_int_term(eb.payload["adj"](i_, j_)) == as_int_term(es.payload["adj"](i_, j_)),
                        extra=rng + [i_ >= 0, i_ < nn, j_ >= 0, j_ < nn])
                return
            self.ob(label, as_int_term(eb) == as_int_term(es), extra=[m >= 0, m < to_z3(ls.length)])
            return
        from .values import ClsRef as _Cls

        if isinstance(vb, _Cls) and isinstance(vs, _Cls):
            self.ob(label, z3.BoolVal((vb.module, vb.name) == (vs.module, vs.name)))
            return
        if isinstance(vb, (list, tuple)) and isinstance(vs, (list, tuple)):
            if type(vb) is not type(vs) or len(vb) != len(vs):
                self.ob(label + ".len", z3.BoolVal(False))
                return
            if isinstance(vb, list):
                self.same_identity(label, vb, vs)
            for k, (x, y) in enumerate(zip(vb, vs)):
                self.eq(f"{label}[{k}]", x, y)
            return
        if isinstance(vb, dict) and isinstance(vs, dict):
            if set(vb) != set(vs):
                self.ob(label + ".keys", z3.BoolVal(False))
                return
            for k in vb:
                self.eq(f"{label}[{k!r}]", vb[k], vs[k])
            return
        if _is_matrix_like(vb) and _is_matrix_like(vs) and vb.tag == vs.tag:
            # abstract values that denote a square matrix (e.g. an abstract networkx graph = its adjacency): compare contents
            from .values import new_array

            pb, ps = vb.payload, vs.payload
            self.eq(label + ".adjacency", new_array((pb["n"], pb["n"]), pb["adj"], "adj"), new_array((ps["n"], ps["n"]), ps["adj"], "adj"))
            return
        if is_sym(vb) or is_sym(vs):
            if isinstance(vb, (NDArr, Obj, list, dict, str, type(None))) or isinstance(vs, (NDArr, Obj, list, dict, str, type(None))):
                self.ob(label + ".kind", z3.BoolVal(False))
                return
            a, b = as_int_term(vb), as_int_term(vs)
            if z3.is_real(a) != z3.is_real(b):
                a = z3.ToReal(a) if z3.is_int(a) else a
                b = z3.ToReal(b) if z3.is_int(b) else b
            self.ob(label, a == b)
            return
        if type(vb) is not type(vs) and not (isinstance(vb, (int, float)) and isinstance(vs, (int, float))):
            self.ob(label + ".kind", z3.BoolVal(False))
            return
        try:
            same = vb == vs
        except Exception:  # noqa: BLE001
            same = vb is vs
        self.ob(label, z3.BoolVal(bool(same)))


def _is_matrix_like(v):
    from .values import Opaque

    return isinstance(v, Opaque) and isinstance(v.payload, dict) and "n" in v.payload and "adj" in v.payload


def build_idmap(a, b, out=None):
    """parallel walk of two structurally identical input graphs"""
    out = {} if out is None else out
    if id(a) in out:
        return out
    # the map is keyed by id(): every key object must stay ALIVE for the whole task, otherwise CPython may hand its address to a
    # fresh object (a body that rebinds a field drops the old view object) and a fresh result would be mistaken for an input
    out.setdefault("__keepalive__", []).append(a)
    if isinstance(a, NDArr):
        out["__keepalive__"].append(a.store)
    if isinstance(a, NDArr) and isinstance(b, NDArr):
        out[id(a)] = b
        out[id(a.store)] = b.store
        out.setdefault("__stores__", []).append((a.store, b.store))
    elif isinstance(a, Obj) and isinstance(b, Obj):
        out[id(a)] = b
        for f in a.fields:
            if f in b.fields:
                build_idmap(a.fields[f], b.fields[f], out)
    elif isinstance(a, list) and isinstance(b, list):
        out[id(a)] = b
        for x, y in zip(a, b):
            build_idmap(x, y, out)
    elif isinstance(a, tuple) and isinstance(b, tuple):
        for x, y in zip(a, b):
            build_idmap(x, y, out)
    elif isinstance(a, dict) and isinstance(b, dict):
        out[id(a)] = b
        for k in a:
            if k in b:
                build_idmap(a[k], b[k], out)
    return out


# ---------------------------------------------------------------------------------------------
# the verification task of one function
# ---------------------------------------------------------------------------------------------

class Task:
    """verify `qual` against `contract` for inputs produced by mk_inputs(I) (fresh symbolic state per path)"""

    def __init__(self, qual, contract, mk_inputs, contracts, inline=(), label=None, hooks=None, extra_state=None,
                 spec_override=None, timeout_ms=10000):
        self.qual = qual
        self.contract = contract
        self.inputs = None
        if isinstance(mk_inputs, (list, tuple)):
            allin = list(mk_inputs)
            self.assumes = [it for it in allin if it.skip]
            self.inputs = [it for it in allin if not it.skip]

            def mk_inputs(I, _its=self.inputs, _as=self.assumes):
                for a in _as:
                    a.symbolic(I)
                return [it.symbolic(I) for it in _its]
        self.mk_inputs = mk_inputs
        self.contracts = contracts
        self.inline = set(inline)
        self.label = label or qual.split(":")[1]
        self.hooks = hooks or {}
        self.extra_state = extra_state
        self.spec_override = spec_override
        self.timeout_ms = timeout_ms

    def run(self):
        eng = Engine(self.timeout_ms)
        m, node, cls = source.find(self.qual)
        f = FuncRef(m.name, node, self.qual, None)
        status = {"undecided": None}

        def harness(path):
            I = Interp(path, self.contracts, self.inline, dict(self.hooks))
            I.task_name = self.qual
            path.ghost["task"] = self.qual
            if cls is not None:
                f.cls = I.get_class(m.name, cls.name)
            from .interp import Frame

            I.stack.append(Frame(m.name, {}, self.label))
            c0 = dict(path.counter)
            args_b = self.mk_inputs(I)
            c1 = dict(path.counter)
            path.counter = dict(c0)
            n_pc = len(path.pc)
            args_s = self.mk_inputs(I)  # identical symbols, distinct objects
            del path.pc[n_pc:]  # assumptions of the second copy are duplicates
            path.counter = c1
            idmap = build_idmap(list(args_b), list(args_s))
            if self.contract.requires is not None:
                pre = self.contract.requires(I, *args_b)
                path.assume(pre if not isinstance(pre, bool) else z3.BoolVal(pre))
                if not eng.feasible(path.pc):
                    eng.record(f"{self.label}:vacuity", "refuted", 0, "precondition unsatisfiable", None)
                    raise PathEnd()
            # the real body first, then the spec on the untouched second copy of the inputs
            Is = Interp(path, self.contracts, self.inline, dict(self.hooks))
            Is.stack.append(Frame(m.name, {}, self.label + ".spec"))
            Is.claim_label = self.label
            spec = self.spec_override or self.contract.spec
            spec_raise = None
            body_raise = None
            try:
                ret_b = I.call_function(f, list(args_b), {}, force_body=True)
            except RaiseEx as e:
                body_raise = e
                ret_b = None
            if body_raise is None and self.contract.extract is not None:
                Is.choice = self.contract.extract(I, ret_b)
            try:
                ret_s = spec(Is, *args_s)
            except RaiseEx as e:
                spec_raise = e
                ret_s = None
            if body_raise is not None:
                e = body_raise
                ok = spec_raise is not None and spec_raise.exc_name == e.exc_name
                if not ok and self.contract.permitted_raises is not None:
                    ok = bool(self.contract.permitted_raises(I, e.exc_name, *args_b))
                eng.record(f"{self.label}:no-raise", "discharged" if ok else "refuted", 0,
                           "" if ok else f"real body raises {e.exc_name}: {e.msg} on a path the contract does not allow"
                           f" (path condition satisfiable)", _model(eng, path) if not ok else None)
                return
            if spec_raise is not None:
                eng.record(f"{self.label}:no-raise", "refuted", 0,
                           f"contract says {spec_raise.exc_name} must be raised here but the body returns normally", _model(eng, path))
                return
            eng.record(f"{self.label}:no-raise", "discharged", 0, "", None)
            E = Equiv(path, self.label, idmap)
            E.eq("return", ret_b, ret_s)
            for k, (a, b) in enumerate(zip(args_b, args_s)):
                E.eq(f"arg{k}", a, b)
            # frame: every input buffer (also ones no longer reachable from the arguments) ends with the contents the
            # contract states, unless the contract leaves it unspecified (havoc)
            from .values import NDArr as _ND
            done = set()
            for k, (sb, ss) in enumerate(idmap.get("__stores__", [])):
                if id(sb) in done or getattr(ss, "havoc", False):
                    continue
                done.add(id(sb))
                E.eq(f"frame.{ss.label}", _ND(sb), _ND(ss))

        try:
            explore(eng, harness)
        except Undecided as u:
            eng.record(f"{self.label}:supported-subset", "undecided", 0, f"{u}", None)
        except RecursionError:
            eng.record(f"{self.label}:supported-subset", "undecided", 0, "recursion limit", None)
        for r in eng.results.values():
            r.witness, r.replayed = None, False
            if r.status == "refuted" and r.model is not None and self.inputs is not None:
                try:
                    r.witness, r.replayed = self.replay(r.model)
                except Exception as e:  # noqa: BLE001 - a failed replay leaves the obligation refuted-without-input
                    r.witness, r.replayed = {"replay_error": f"{type(e).__name__}: {e}"}, False
        need = [r for r in eng.results.values() if r.status == "refuted" and not r.replayed]
        if need and self.inputs is not None:
            w = self.search_failing_input()
            if w is not None:
                for r in need:
                    r.witness, r.replayed = w, True
        for r in eng.results.values():
            if r.status == "refuted" and r.detail.startswith("RELAXED") and not r.replayed:
                r.status = "undecided"  # a relaxed model that does not replay proves nothing
        return eng

    def replay(self, model):
        """counter-model -> concrete input -> REAL function; expected result = the contract's spec evaluated on it"""
        from . import schema
        from .interp import Frame

        env = {}
        concs = [it.concrete(model, env) for it in self.inputs]
        return self.replay_concrete(concs)

    def search_failing_input(self, tries=400, seed=0):
        """DESIGN 2.6(3): when an obligation fails without a replayable model, look for a real failing input of the
        contract among random small inputs (real function vs. the contract evaluated concretely)"""
        import numpy as np

        rng = np.random.default_rng(seed)
        for _ in range(tries):
            env = {}
            try:
                concs = [it.random(rng, env) for it in self.inputs]
                wit, ok = self.replay_concrete(concs)
            except Exception:  # noqa: BLE001
                continue
            if ok:
                wit["found_by"] = "random search over small inputs after the obligation failed"
                return wit
        return None

    def replay_concrete(self, concs):
        from . import schema
        from .interp import Frame

        wit = {"function": self.qual, "args": {it.name: it.jsonable(c) for it, c in zip(self.inputs, concs)}}
        vals = {it.name: c for it, c in zip(self.inputs, concs)}
        for it in getattr(self, "assumes", []):
            if getattr(it, "check", None) is not None and not it.check(vals):
                wit["note"] = f"input does not satisfy the harness assumption {it.name}; not replayed"
                return wit, False
        m, node, cls = source.find(self.qual)
        path = Path(Engine(2000), [])
        I = Interp(path, self.contracts, self.inline, {})
        I.stack.append(Frame(m.name, {}, self.label + ".replay"))
        cargs = [it.const(I, c) for it, c in zip(self.inputs, concs)]
        if self.contract.requires is not None:
            pre = self.contract.requires(I, *cargs)
            pre = z3.simplify(pre) if not isinstance(pre, bool) else z3.BoolVal(pre)
            if not z3.is_true(pre):
                wit["note"] = "model completion does not satisfy the precondition; not replayed"
                return wit, False
        real_args = [it.real(c) for it, c in zip(self.inputs, concs)]
        try:
            fn = schema.real_callable(self.qual)
            got = fn(*real_args)
            real_exc = None
        except Exception as e:  # noqa: BLE001
            got, real_exc = None, f"{type(e).__name__}: {e}"
        I.claim_label = self.label
        I.replaying = True
        if self.contract.extract is not None and real_exc is None:
            try:
                I.choice = self.contract.extract(None, got)
            except ValueError as e:
                if self.contract.choices is None:
                    wit["note"] = f"not replayable: {e}"
                    return wit, False
                return self._replay_enumerating(wit, concs, got, real_args)
        try:
            expected = (self.spec_override or self.contract.spec)(I, *cargs)
            spec_exc = None
        except RaiseEx as e:
            expected, spec_exc = None, e.exc_name
        if real_exc is not None or spec_exc is not None:
            if (real_exc or "").split(":")[0] == (spec_exc or ""):
                wit["note"] = "real code raises what the contract prescribes"
                return wit, False
            if real_exc is not None and spec_exc is None and self.contract.permitted_raises is not None:
                try:
                    if self.contract.permitted_raises(I, real_exc.split(":")[0], *cargs):
                        wit["note"] = "real code takes an abrupt exit the contract permits on this input"
                        return wit, False
                except Exception:  # noqa: BLE001
                    pass
            wit["actual"] = f"raises {real_exc}" if real_exc else "returns normally"
            wit["expected"] = f"raises {spec_exc}" if spec_exc else "returns normally with the contract's result"
            return wit, True
        d = None
        for nm, r in path.engine.results.items():
            if r.status == "refuted" and ":choice." in nm:
                d = f"the implementation's choice violates its characterisation {nm.split(':choice.')[1]}"
        if d is None:
            d = schema.diff(got, expected, "return")
        if d is None:
            for it, ra, ca in zip(self.inputs, real_args, cargs):
                d = schema.diff(ra, ca, f"arg {it.name}")
                if d:
                    break
        if d is None:
            wit["note"] = "real code agrees with the contract on this model (spurious counter-model)"
            return wit, False
        wit["difference"] = d
        return wit, True


def _replay_enumerating(self, wit, concs, got, real_args):
    """relational contract, choices not visible in the result: try every candidate choice"""
    from . import schema
    from .interp import Frame

    m, node, cls = source.find(self.qual)
    tried, last = 0, None
    for ch in self.contract.choices(concs):
        tried += 1
        path = Path(Engine(2000), [])
        I = Interp(path, self.contracts, self.inline, {})
        I.stack.append(Frame(m.name, {}, self.label + ".replay"))
        I.claim_label = self.label
        I.replaying = True
        I.choice = dict(ch)
        cargs = [it.const(I, c) for it, c in zip(self.inputs, concs)]
        try:
            expected = (self.spec_override or self.contract.spec)(I, *cargs)
        except (RaiseEx, PathEnd):
            continue
        if any(r.status == "refuted" and ":choice." in nm for nm, r in path.engine.results.items()):
            continue  # this choice does not satisfy its characterisation: not admissible
        d = schema.diff(got, expected, "return")
        if d is None:
            for it, ra, ca in zip(self.inputs, real_args, cargs):
                d = schema.diff(ra, ca, f"arg {it.name}")
                if d:
                    break
        if d is None:
            wit["note"] = "real code agrees with the contract on this input for an admissible choice"
            return wit, False
        last = d
    if tried == 0:
        wit["note"] = "no candidate choices"
        return wit, False
    wit["difference"] = f"no admissible choice (of {tried} candidates) reproduces the real result; last difference: {last}"
    return wit, True


Task._replay_enumerating = _replay_enumerating


def _model(eng, path):
    s = z3.Solver()
    s.set("timeout", 5000)
    for a in path.pc:
        s.add(a)
    if s.check() == z3.sat:
        return s.model()
    return None
