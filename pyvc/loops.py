"""Loop contracts (inductive invariants, no unrolling) for `for` loops with a symbolic trip count.

A loop contract is *defines-style*: `state(I, k, entry)` returns the value of every loop-carried variable / buffer after k
iterations as an explicit function of the state at loop entry.  Obligations generated per loop:
    init          state(0) equals the state at entry
    preservation  for a fresh k with 0 <= k < N: starting from state(k), one execution of the REAL body yields state(k+1)
                  (all obligations inside the body - asserts, callee preconditions, index bounds - are proved under the
                  invariant)
    frame         the body assigns no variable and writes no buffer outside the declared carried state / locals
and the code after the loop continues from state(N).  Recursive spec functions used by an invariant (e.g. a running sum)
are uninterpreted functions whose defining equations are instantiated at 0 and at k (definitional extension).
"""
from __future__ import annotations

import ast

import z3

from .interp import Undecided, BreakEx, ContinueEx, ReturnEx, PathEnd
from .values import NDArr, Store, Opaque, is_sym, to_z3, as_int_term, concrete_int
from .contract import Equiv
from .symlist import SymList


class Entry:
    """snapshot of the frame at loop entry"""

    def __init__(self, env):
        self.env = dict(env)
        self.readers = {}
        for k, v in env.items():
            if isinstance(v, NDArr):
                self.readers[k] = v.reader()

    def __getitem__(self, k):
        return self.env[k]

    def rd(self, k):
        return self.readers[k]


class SeqLoop:
    """for <target> in <iter>  where the iterable is `range(N)` or an abstract index sequence of symbolic length N"""

    def __init__(self, func, target, iter_text, state, locals=(), element=None, axioms=None, allow_break=None,
                 after_body=None, setup=None):
        self.func = func
        self.target = target
        self.iter_text = iter_text
        self.state = state  # state(I, k, entry) -> dict: name -> value   |  ("store", NDArr) entries via key objects
        self.locals = set(locals)
        self.element = element  # element(I, k, entry, it) -> value of the loop variable in iteration k (default: k)
        self.axioms = axioms  # axioms(I, k, entry) -> list of definitional equations to assume for index k
        self.allow_break = allow_break
        self.after_body = after_body  # after_body(I, k, entry): lemma applications linking callee spec functions
        self.setup = setup  # setup(I, entry, it): ghost definitions made once at loop entry

    def matches(self, interp, node):
        return (interp.stack[-1].func_name.split(".")[-1] == self.func.split(".")[-1]
                and ast.unparse(node.target) == self.target
                and (self.iter_text is None or ast.unparse(node.iter) == self.iter_text))  # None: any iterable (the trip
        # count is always taken from the REAL iterable; the contract's state must then account for it)


def assigned_names(stmts):
    out = set()
    for s in stmts:
        for n in ast.walk(s):
            if isinstance(n, ast.Name) and isinstance(n.ctx, (ast.Store, ast.Del)):
                out.add(n.id)
    return out


def trip_count(interp, it):
    if isinstance(it, Opaque) and it.tag == "range":
        a = it.payload
        if len(a) == 1:
            return 0, a[0]
        if len(a) == 2:
            return a[0], a[1]
        raise Undecided("range with step under a loop contract")
    if isinstance(it, range):
        if it.step != 1:
            raise Undecided("range step")
        return it.start, it.stop
    if isinstance(it, NDArr) and it.ndim == 1:
        return 0, it.shape[0]
    if isinstance(it, SymList):
        return 0, it.length
    if isinstance(it, Opaque) and it.tag == "seq":
        return 0, it.payload["len"]
    if isinstance(it, Opaque) and it.tag == "enumerate":  # enumerate(<1-D array of symbolic length>, start)
        return 0, it.payload[0].shape[0]
    raise Undecided(f"loop contract over {type(it).__name__}")


def make_hook(loop_specs, first_match=True):
    def hook(interp, node, it):
        spec = None
        for ls in loop_specs:
            if ls.matches(interp, node):
                spec = ls
                break
        if spec is None:
            if first_match:
                return first_match_hook(interp, node, it)
            return False
        run_loop(interp, node, it, spec)
        return True

    return hook


def _is_field(key):
    """("field", obj, name): an array-valued attribute that the body REBINDS (e.g. through a property setter that stores
    value.astype(int)); its state is the contents of whatever array the attribute holds, the shape stays the entry shape"""
    return isinstance(key, tuple) and len(key) == 3 and key[0] == "field"


def _set_state(interp, st):
    from .values import new_array

    env = interp.stack[-1].env
    for key, val in st.items():
        if isinstance(key, str):
            env[key] = val
        elif _is_field(key):
            _, obj, name = key
            obj.fields[name] = new_array(tuple(obj.fields[name].shape), val, name.lstrip("_") + "@k")
        else:  # a buffer: key is an NDArr view whose contents are defined by val(*local idx)
            key.assign_from(val)


def _check_state(interp, label, st, shapes=None):
    shapes = shapes or {}
    env = interp.stack[-1].env
    path = interp.path
    for key, val in st.items():
        if isinstance(key, str):
            E = Equiv(path, label, {})
            E.same_identity = lambda *a, **k: None
            cur = env.get(key)
            E.eq(key, cur, val)
        elif _is_field(key):
            _, obj, name = key
            cur = obj.fields.get(name)
            if not isinstance(cur, NDArr) or cur.ndim != len(shapes[key]):
                path.engine.record(f"{label}:post.{name}.is-array", "refuted", 0, "attribute no longer holds an array of the entry rank", None)
                continue
            for d, (a, b) in enumerate(zip(cur.shape, shapes[key])):
                path.oblige(f"{label}:post.{name}.shape{d}", to_z3(a) == to_z3(b))
            idx = [path.fresh("lk") for _ in cur.shape]
            rng = [z3.And(i >= 0, i < to_z3(s_)) for i, s_ in zip(idx, shapes[key])]
            path.oblige(f"{label}:post.{name}", as_int_term(cur.get(*idx)) == as_int_term(val(*idx)), extra=rng)
        else:
            idx = [path.fresh("lk") for _ in key.shape]
            rng = [z3.And(i >= 0, i < to_z3(s)) for i, s in zip(idx, key.shape)]
            path.oblige(f"{label}:post.{key.store.label}", as_int_term(key.get(*idx)) == as_int_term(val(*idx)), extra=rng)


def run_loop(interp, node, it, spec: SeqLoop):
    path = interp.path
    fr = interp.stack[-1]
    fname = fr.func_name
    lo, hi = trip_count(interp, it)
    lo_t, hi_t = to_z3(lo), to_z3(hi)
    N = z3.If(hi_t - lo_t < 0, z3.IntVal(0), hi_t - lo_t)
    entry = Entry(fr.env)
    tag = f"{fname}:loop({spec.target})"
    if node.orelse:
        raise Undecided("for-else under a loop contract")

    if spec.setup:
        spec.setup(interp, entry, it)
    # ---- frame of variables
    st0 = spec.state(interp, z3.IntVal(0), entry)
    carried = {k for k in st0 if isinstance(k, str)}
    fshapes = {k: tuple(k[1].fields[k[2]].shape) for k in st0 if _is_field(k)}
    tnames = assigned_names([ast.Expr(value=_as_load(node.target))]) | {n.id for n in ast.walk(node.target) if isinstance(n, ast.Name)}
    written = assigned_names(node.body)
    extra = written - carried - tnames - spec.locals
    path.engine.record(f"{tag}.frame.vars", "discharged" if not extra else "refuted", 0,
                       "" if not extra else f"loop body assigns {sorted(extra)} which the loop contract does not cover", None)
    if extra:
        raise PathEnd()

    # ---- init
    if spec.axioms:
        for a in spec.axioms(interp, None, entry):
            path.assume(a)
    _check_state(interp, tag + ".init", st0, fshapes)

    # ---- preservation for an arbitrary iteration k
    saved_pc = len(path.pc)
    saved_env = dict(fr.env)
    saved_stores = _snapshot_stores(st0)
    k = path.fresh("it")
    path.assume(z3.And(k >= 0, k < N))
    if spec.axioms:
        for a in spec.axioms(interp, k, entry):
            path.assume(a)
    _set_state(interp, spec.state(interp, k, entry))
    field_stores = {id(kk[1].fields[kk[2]].store) for kk in st0 if _is_field(kk)}  # the arrays installed for iteration k
    if spec.element:
        elem = spec.element(interp, k, entry, it)
    elif isinstance(it, (NDArr, SymList)):
        elem = it.get(k)
    elif isinstance(it, Opaque) and it.tag == "enumerate":
        elem = (k + to_z3(it.payload[1]) if not _zero(it.payload[1]) else k, it.payload[0].get(k))
    else:
        elem = (k + lo_t if not _zero(lo) else k)
    interp.assign(node.target, elem)
    n_writes = len(interp.writes)
    n_store_entry = Store._n
    from .values import Obj as _Obj

    n_obj_entry = _Obj._n
    broke = False
    try:
        interp.exec_block(node.body)
    except ContinueEx:
        pass
    except BreakEx:
        broke = True
    except ReturnEx:
        raise Undecided("return inside a loop under a loop contract")
    if broke:
        raise Undecided("break inside a loop under a loop contract")
    if spec.after_body:
        spec.after_body(interp, k, entry)
    # buffers written by the body must be carried buffers
    carried_stores = {id(kv.store) for kv in st0 if not isinstance(kv, str) and not _is_field(kv)} | field_stores
    alien = [w for w in interp.writes[n_writes:] if isinstance(w[0], Store) and id(w[0]) not in carried_stores
             and w[0].id <= n_store_entry]
    path.engine.record(f"{tag}.frame.buffers", "discharged" if not alien else "refuted", 0,
                       "" if not alien else "loop body writes a buffer the loop contract does not cover", None)
    declared = {(id(kk[1]), kk[2]) for kk in st0 if _is_field(kk)}
    alien_f = sorted({str(w[1]) for w in interp.writes[n_writes:] if isinstance(w[0], _Obj) and w[0].serial <= n_obj_entry
                      and (id(w[0]), w[1]) not in declared})
    if fshapes or alien_f:
        path.engine.record(f"{tag}.frame.attributes", "discharged" if not alien_f else "refuted", 0,
                           "" if not alien_f else f"loop body rebinds attributes {alien_f} which the loop contract does not cover", None)
    _check_state(interp, tag + ".preserve", spec.state(interp, k + 1, entry), fshapes)
    # ---- leave the arbitrary iteration: drop its assumptions, continue from state(N)
    del path.pc[saved_pc:]
    fr.env.clear()
    fr.env_havoc = True  # variables bound only inside the loop body are dropped: reads stay `unresolved`, not UnboundLocalError
    fr.env.update(saved_env)
    if spec.axioms:
        for a in spec.axioms(interp, None, entry):
            path.assume(a)
        for a in spec.axioms(interp, N - 1, entry):  # the defining equations of the last step (if there was one)
            path.assume(z3.Implies(N > 0, a))
    _set_state(interp, spec.state(interp, N, entry))


def _zero(v):
    return isinstance(v, int) and v == 0


def _as_load(t):
    import copy

    t = copy.deepcopy(t)
    for n in ast.walk(t):
        if hasattr(n, "ctx"):
            n.ctx = ast.Load()
    return t


def _snapshot_stores(st0):
    return [k.store for k in st0 if not isinstance(k, str) and not _is_field(k)]


def _max_store_id(stores, entry):
    return Store._n


# =============================================================================================
# first-match search loops:   for i in range(N):  if C(i): <stmts>; break
# =============================================================================================

def first_match_hook(interp, node, it):
    """Sound generic rule for the syntactic pattern above (C side-effect free, branch free):
         either  exists s: 0<=s<N, C(s), forall k<s: not C(k), and the loop's effect is <stmts> with i = s
         or      forall k<N: not C(k) and the loop has no effect.
    No invariant is needed; the quantified facts are added to the path condition."""
    if not (isinstance(it, Opaque) and it.tag == "range"):
        return False
    if len(node.body) != 1 or not isinstance(node.body[0], ast.If) or node.orelse:
        return False
    iff = node.body[0]
    if iff.orelse or not iff.body or not isinstance(iff.body[-1], ast.Break):
        return False
    if not isinstance(node.target, ast.Name):
        return False
    for n in ast.walk(iff.test):
        if isinstance(n, (ast.Call, ast.NamedExpr, ast.Lambda, ast.ListComp, ast.IfExp, ast.BoolOp)):
            return False  # keep the test obviously pure and branch free
    path = interp.path
    fr = interp.stack[-1]
    lo, hi = trip_count(interp, it)
    if not _zero(lo):
        return False
    N = to_z3(hi)
    tname = node.target.id
    tag = f"{fr.func_name}:search({tname})"

    # the test is safe (index bounds etc.) in every iteration: evaluate it once at a skolem iteration
    saved = len(path.pc)
    k0 = path.fresh("sk_it")
    path.assume(z3.And(k0 >= 0, k0 < N))
    fr.env[tname] = k0
    c0 = interp.truth_term(interp.eval(iff.test))
    del path.pc[saved:]

    def C(kterm):
        old = fr.env.get(tname)
        fr.env[tname] = kterm
        path.quiet += 1
        try:
            return interp.truth_term(interp.eval(iff.test))
        finally:
            path.quiet -= 1
            if old is None:
                fr.env.pop(tname, None)
                fr.env_havoc = True
            else:
                fr.env[tname] = old

    s = path.fresh("first")
    kq = z3.Int(f"kq!{path.counter.get('kq', 0)}")
    path.counter["kq"] = path.counter.get("kq", 0) + 1
    found = z3.And(s >= 0, s < N, C(s), z3.ForAll([kq], z3.Implies(z3.And(kq >= 0, kq < s), z3.Not(C(kq)))))
    notfound = z3.ForAll([kq], z3.Implies(z3.And(kq >= 0, kq < N), z3.Not(C(kq))))
    b = path.fresh("found", "bool")
    path.assume(z3.If(b, found, notfound))
    path.ghost.setdefault("searches", []).append(dict(found=b, first=s, C=C, N=N))
    if path.decide(b):
        path.assume(found)
        fr.env[tname] = s
        interp.exec_block(iff.body[:-1])
    else:
        path.assume(notfound)
    path.engine.record(f"{tag}.pattern", "discharged", 0, "", None)
    return True
