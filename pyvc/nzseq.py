"""Theory of `np.nonzero(v)[0]` on a 1-D array: an abstract strictly increasing index sequence NZ of symbolic length L.

[A] contract of numpy.nonzero (1-D):  NZ lists exactly the indices with v != 0, in increasing order.
    (N1) 0 <= L <= len(v)
    (N2) forall k in [0,L):  0 <= NZ(k) < len(v)  and  v(NZ(k)) != 0
    (N3) forall k1 < k2 in [0,L):  NZ(k1) < NZ(k2)
    (N4) forall i in [0,len(v)) with v(i) != 0:  0 <= POS(i) < L  and  NZ(POS(i)) = i
A boolean-mask selection `NZ[NZ < c]` of such an increasing sequence is its prefix of length D where
    forall k < D: NZ(k) < c   and   (D = L or NZ(D) >= c)                       ([A] numpy boolean indexing on sorted data)
"""
from __future__ import annotations

import z3

from .values import NDArr, new_array, to_z3, as_int_term
from . import models


def np_nonzero(interp, a):
    from .interp import Undecided

    if not (isinstance(a, NDArr) and a.ndim == 1):
        raise Undecided("np.nonzero of a non 1-D array")
    models.used("np.nonzero (1-D): increasing list of exactly the non-zero positions (N1-N4, quantified)")
    path = interp.path
    c = path.counter.get("nz", 0)
    path.counter["nz"] = c + 1
    NZ = z3.Function(f"NZ{c}", z3.IntSort(), z3.IntSort())
    POS = z3.Function(f"POS{c}", z3.IntSort(), z3.IntSort())
    L = z3.Int(f"nzlen{c}")
    v = a.reader()
    m = to_z3(a.shape[0])
    k, k2, i = z3.Int(f"nzk{c}"), z3.Int(f"nzk2{c}"), z3.Int(f"nzi{c}")
    path.assume(z3.And(L >= 0, L <= m))
    path.assume(z3.ForAll([k], z3.Implies(z3.And(k >= 0, k < L),
                                         z3.And(NZ(k) >= 0, NZ(k) < m, as_int_term(v(NZ(k))) != 0)), patterns=[NZ(k)]))
    path.assume(z3.ForAll([k, k2], z3.Implies(z3.And(k >= 0, k < k2, k2 < L), NZ(k) < NZ(k2)), patterns=[z3.MultiPattern(NZ(k), NZ(k2))]))
    path.assume(z3.ForAll([i], z3.Implies(z3.And(i >= 0, i < m, as_int_term(v(i)) != 0),
                                         z3.And(POS(i) >= 0, POS(i) < L, NZ(POS(i)) == i)), patterns=[POS(i)]))
    arr = new_array((L,), lambda kk: NZ(kk), f"nonzero{c}")
    path.ghost.setdefault("nz", {})[arr.store.id] = dict(NZ=NZ, POS=POS, L=L, v=v, m=m, id=c)
    return (arr,)


def mask_index(interp, arr, mask, ax):
    """arr[mask] where arr is an increasing index sequence and mask = (arr < c): the prefix of the elements below c"""
    from .interp import Undecided

    info = getattr(mask.store, "lt_info", None)
    if info is None or info["src"] is not arr.store or arr.ndim != 1:
        return None
    models.used("boolean-mask selection a[a < c] of an increasing sequence = its prefix below c (quantified)")
    path = interp.path
    c = path.counter.get("mask", 0)
    path.counter["mask"] = c + 1
    D = z3.Int(f"prefix{c}")
    L = to_z3(arr.shape[0])
    bound = to_z3(info["bound"])
    rd = arr.reader()
    k = z3.Int(f"mk{c}")
    # the prefix characterisation needs a (weakly) increasing sequence: obligation for two skolem positions
    k1, k2 = path.fresh("mono"), path.fresh("mono")
    path.oblige(interp.ob_name("mask-monotone"), rd(k1) <= rd(k2), extra=[k1 >= 0, k1 < k2, k2 < L])
    path.assume(z3.And(D >= 0, D <= L))
    path.assume(z3.ForAll([k], z3.Implies(z3.And(k >= 0, k < D), rd(k) < bound)))
    path.assume(z3.ForAll([k], z3.Implies(z3.And(k >= D, k < L), rd(k) >= bound)))
    out = new_array((D,), lambda kk: rd(kk), f"prefix{c}")
    path.ghost.setdefault("prefix", {})[out.store.id] = dict(D=D, src=arr, bound=bound)
    return out


def compare_hook_install():
    """make `seq < c` remember what it compares (needed by mask_index)"""
    import ast as _ast

    orig = models.compare

    def compare(interp, op, a, b):
        r = orig(interp, op, a, b)
        if isinstance(op, _ast.Lt) and isinstance(a, NDArr) and not isinstance(b, NDArr) and isinstance(r, NDArr):
            r.store.lt_info = {"src": a.store, "bound": b}
        return r

    models.compare = compare


compare_hook_install()

HOOKS = {"np_nonzero": np_nonzero, "mask_index": mask_index}
