"""pyvc symbolic executor: runs the *real* AST of graphiq functions on symbolic values and generates proof obligations.

Execution model (DESIGN §2.1): forward symbolic execution, one path at a time.  Forking is done by *replay*: a path is a
list of branch decisions; after a path ends, the executor re-runs the harness with each feasible alternative decision.
Object references stay concrete, numeric contents are z3 terms.  Calls to functions that have a sidecar contract are
replaced by the contract (modular verification); a short list of accessors is inlined from the real source.
"""
from __future__ import annotations

import ast
import time

import z3

from . import source
from . import symlist as _symlist
from .symlist import SymList
from .values import (NDArr, Store, Obj, ClsRef, FuncRef, Bound, Closure, ModRef, Builtin, Opaque, is_sym, to_z3,
                     as_int_term, concrete_int, new_array, const_array)


class Undecided(Exception):
    """the code left the accepted subset / the engine cannot model something: the function is undecided (never a violation)"""

    def __init__(self, *a):
        super().__init__(*a)
        import os

        if os.environ.get("PYVC_DEBUG"):  # development aid: where did the engine give up
            import traceback

            traceback.print_stack(limit=12)


class PathEnd(Exception):
    """path is infeasible or was cut by an assumption"""


class ReturnEx(Exception):
    def __init__(self, value):
        self.value = value


class BreakEx(Exception):
    pass


class ContinueEx(Exception):
    pass


class RaiseEx(Exception):
    """a Python `raise` (or failing construct) in the verified code"""

    def __init__(self, exc_name, msg=""):
        self.exc_name = exc_name
        self.msg = msg


class ObRes:
    def __init__(self, name):
        self.name = name
        self.status = "discharged"
        self.ms = 0.0
        self.detail = ""
        self.model = None
        self.count = 0
        self.backend = "z3"


STATUS_RANK = {"discharged": 0, "undecided": 1, "refuted": 2}


class Engine:
    """collects obligations over all paths of one verification task"""

    def __init__(self, timeout_ms=10000):
        self.timeout_ms = timeout_ms
        self.results = {}  # name -> ObRes
        self.paths = 0
        self.solver_ms = 0.0
        self.log = []

    def check(self, assumptions, goal):
        s = z3.Solver()
        s.set("timeout", self.timeout_ms)
        for a in assumptions:
            s.add(a)
        s.add(z3.Not(goal))
        t0 = time.time()
        r = s.check()
        ms = (time.time() - t0) * 1000
        self.solver_ms += ms
        if r == z3.unsat:
            return "discharged", ms, "", None
        if r == z3.sat:
            m = s.model()
            return "refuted", ms, "z3: sat (counter-model found)", m
        # z3 gave up.  Quantified queries are sensitive to the instantiation order: one retry with another random seed (a proof
        # found this way is as good as any other; a `sat` answer is as well), then cvc5 as a second opinion on the same SMT-LIB text
        for seed_ in (7, 13, 42):
            s_retry = z3.Solver()
            s_retry.set("timeout", max(2000, self.timeout_ms // 2))
            for key in ("random_seed", "smt.random_seed"):
                try:
                    s_retry.set(key, seed_)
                except Exception:  # noqa: BLE001
                    pass
            for a in assumptions:
                s_retry.add(a)
            s_retry.add(z3.Not(goal))
            t1 = time.time()
            r = s_retry.check()
            ms2 = (time.time() - t1) * 1000
            self.solver_ms += ms2
            ms += ms2
            if r == z3.unsat:
                return "discharged", ms, "", None
            if r == z3.sat:
                return "refuted", ms, "z3: sat (counter-model found)", s_retry.model()
        st2, d2 = _cvc5_second_opinion(s, self.timeout_ms)
        if st2 == "unsat":
            return "discharged", ms, "cvc5", None
        # relaxed refutation attempt: drop the quantified assumptions (fewer assumptions: `unsat` would still be a proof,
        # `sat` gives a candidate model that is only believed if it replays on the real code)
        qf = [a for a in assumptions if not _has_quantifier(a)]
        if len(qf) < len(list(assumptions)):
            s2 = z3.Solver()
            s2.set("timeout", min(self.timeout_ms, 5000))
            for a in qf:
                s2.add(a)
            s2.add(z3.Not(goal))
            r2 = s2.check()
            if r2 == z3.unsat:
                return "discharged", ms, "", None
            if r2 == z3.sat:
                return "refuted", ms, "RELAXED: z3 timed out on the full query; model of the query without quantified axioms " \
                                      "(believed only if it replays on the real code)", s2.model()
        return "undecided", ms, f"z3: {s.reason_unknown()}; cvc5: {d2}", None

    def record(self, name, status, ms, detail, model):
        r = self.results.setdefault(name, ObRes(name))
        r.count += 1
        r.ms += ms
        if detail == "cvc5":
            r.backend = "cvc5"
            detail = ""
        if STATUS_RANK[status] > STATUS_RANK[r.status]:
            r.status = status
            r.detail = detail
            r.model = model

    def feasible(self, assumptions):
        """over-approximate path feasibility (quantified assumptions dropped: exploring an infeasible path is harmless).
        Results are cached: replayed prefixes ask the same questions again."""
        qf = [a for a in assumptions if not _has_quantifier(a)]
        key = tuple(a.get_id() for a in qf)
        cache = self.__dict__.setdefault("_feas_cache", {})
        hit = cache.get(key)
        if hit is not None:
            return hit[0]
        s = z3.Solver()
        s.set("timeout", 3000)
        for a in qf:
            s.add(a)
        t0 = time.time()
        r = s.check()
        self.solver_ms += (time.time() - t0) * 1000
        cache[key] = (r != z3.unsat, qf)  # keep the terms alive so that their ids stay unique
        return r != z3.unsat


_QCACHE = {}


def _has_quantifier(e):
    k = e.get_id()
    hit = _QCACHE.get(k)
    if hit is not None and hit[1] is not None:
        return hit[0]
    r = _has_quantifier_uncached(e)
    _QCACHE[k] = (r, e)
    return r


def _has_quantifier_uncached(e):
    seen = set()
    todo = [e]
    while todo:
        t = todo.pop()
        if t.get_id() in seen:
            continue
        seen.add(t.get_id())
        if z3.is_quantifier(t):
            return True
        todo.extend(t.children())
    return False


def _cvc5_second_opinion(solver, timeout_ms):
    import subprocess, tempfile, os

    try:
        txt = "(set-logic ALL)\n" + solver.to_smt2()
        with tempfile.NamedTemporaryFile("w", suffix=".smt2", delete=False) as f:
            f.write(txt)
            p = f.name
        try:
            out = subprocess.run(["/usr/bin/cvc5", f"--tlimit={int(timeout_ms)}", p], capture_output=True, text=True,
                                 timeout=timeout_ms / 1000 + 5)
            ans = out.stdout.strip().splitlines()[0] if out.stdout.strip() else "no-answer"
        finally:
            os.unlink(p)
        return ans, ans
    except Exception as e:  # noqa: BLE001
        return "error", f"{type(e).__name__}"


class Path:
    def __init__(self, engine, prefix):
        self.engine = engine
        self.prefix = list(prefix)
        self.decisions = []
        self.alternatives = []  # decision lists to explore later
        self.pc = []
        self.counter = {}
        self.trace = []  # effect trace (theories/trace)
        self.ghost = {}
        self.quiet = 0  # >0: pure re-evaluation of an already checked expression (no obligations, no assumptions)

    def fresh(self, base, sort=None):
        k = self.counter.get(base, 0)
        self.counter[base] = k + 1
        nm = f"{base}!{k}"
        if sort is None or sort == "int":
            return z3.Int(nm)
        if sort == "bool":
            return z3.Bool(nm)
        if sort == "real":
            return z3.Real(nm)
        return z3.Const(nm, sort)

    def assume(self, e):
        if self.quiet:
            return
        if isinstance(e, bool):
            if not e:
                raise PathEnd()
            return
        self.pc.append(e)

    def decide(self, cond):
        """branch on a z3 Bool"""
        cond = z3.simplify(cond)
        if z3.is_true(cond):
            return True
        if z3.is_false(cond):
            return False
        if self.quiet:
            raise Undecided("branch inside a quiet (pure) re-evaluation")
        k = len(self.decisions)
        if k < len(self.prefix):
            d = self.prefix[k]
            self.decisions.append(d)
            self.pc.append(cond if d else z3.Not(cond))
            return d
        t_ok = self.engine.feasible(self.pc + [cond])
        f_ok = self.engine.feasible(self.pc + [z3.Not(cond)])
        if not t_ok and not f_ok:
            raise PathEnd()
        d = t_ok
        if t_ok and f_ok:
            self.alternatives.append(self.decisions + [False])
        self.decisions.append(d)
        self.pc.append(cond if d else z3.Not(cond))
        return d

    def oblige(self, name, goal, extra=()):
        if self.quiet:
            return True
        if isinstance(goal, bool):
            goal = z3.BoolVal(goal)
        if z3.is_true(z3.simplify(goal)):  # trivially valid: no solver call
            self.engine.record(name, "discharged", 0.0, "", None)
            return True
        st, ms, detail, model = self.engine.check(self.pc + list(extra), goal)
        self.engine.record(name, st, ms, detail, model)
        return st == "discharged"


def explore(engine, harness, max_paths=4000):
    """run harness(path) over all feasible decision sequences"""
    work = [[]]
    while work:
        prefix = work.pop()
        p = Path(engine, prefix)
        engine.paths += 1
        if engine.paths > max_paths:
            raise Undecided(f"more than {max_paths} paths")
        try:
            harness(p)
        except PathEnd:
            pass
        work.extend(p.alternatives)


# =============================================================================================
# the interpreter
# =============================================================================================

NOOP_CALLS = {"print"}


class Frame:
    def __init__(self, module, env, func_name, cls=None):
        self.module = module
        self.env = env
        self.func_name = func_name
        self.cls = cls
        self.counters = {}


class Interp:
    def __init__(self, path: Path, contracts=None, inline=None, hooks=None):
        self.path = path
        self.contracts = contracts or {}  # qual -> Contract
        self.inline = inline or set()  # quals that are interpreted from source at call sites
        self.classes = {}  # (module, name) -> ClsRef
        self.stack = []
        self.hooks = hooks or {}
        self.writes = []  # frame log: (owner tag, description)
        self.task_name = ""
        self.call_depth = 0
        self.replaying = False  # True while a contract's spec is evaluated on a concrete input (replay of a counter-model)
        self.choice = None  # relational contracts: the body's actual choices (verification task) or None (call site)
        self.claim_label = ""
        from . import models

        self.models = models

    # ----------------------------------------------------------------- relational contracts
    def claim(self, name, formula):
        """characterisation of a free choice: proved in the function's own verification task, assumed at call sites"""
        if self.choice is not None:
            self.path.oblige(f"{self.claim_label}:choice.{name}", formula)
        self.path.assume(formula)

    def claim_forall(self, name, lo, hi, body):
        """forall k in [lo,hi): body(k)   - skolem obligation in the task, quantified assumption at call sites"""
        if self.choice is not None:
            sk = self.path.fresh("csk")
            self.path.oblige(f"{self.claim_label}:choice.{name}", body(sk), extra=[sk >= lo, sk < hi])
        c = self.path.counter.get("cq", 0)
        self.path.counter["cq"] = c + 1
        kq = z3.Int(f"cq!{c}")
        self.path.assume(z3.ForAll([kq], z3.Implies(z3.And(kq >= lo, kq < hi), body(kq))))

    # ----------------------------------------------------------------- naming of obligations
    def ob_name(self, kind):
        if self.path.quiet:
            return "quiet"
        fr = self.stack[-1]
        k = fr.counters.get(kind, 0) + 1
        fr.counters[kind] = k
        return f"{fr.func_name}:{kind}#{k}"

    # ----------------------------------------------------------------- module / name resolution
    def resolve_global(self, module, name):
        m = source.module(module)
        if name in m.funcs:
            return FuncRef(module, m.funcs[name], f"{module}:{name}")
        if name in m.classes:
            return self.get_class(module, name)
        if name in m.imports:
            imp = m.imports[name]
            if imp[0] == "module":
                return ModRef(imp[1])
            modname, attr = imp[1], imp[2]
            if modname.startswith("graphiq"):
                try:
                    sub = source.module(modname)
                except (FileNotFoundError, OSError):
                    sub = None
                if sub is not None and (attr in sub.funcs or attr in sub.classes or attr in sub.imports or attr in sub.globals_ast):
                    return self.resolve_global(modname, attr)
                # `from graphiq.x import module_y`
                return ModRef(f"{modname}.{attr}")
            return self.models.external_attr(self, ModRef(modname), attr)
        if name in m.globals_ast:
            fr = Frame(module, {}, f"<module {module}>")
            self.stack.append(fr)
            try:
                return self.eval(m.globals_ast[name])
            finally:
                self.stack.pop()
        b = self.models.python_builtin(self, name)
        if b is not None:
            return b
        raise Undecided(f"unresolved name {name} in {module}")

    def get_class(self, module, name):
        key = (module, name)
        if key in self.classes:
            return self.classes[key]
        m = source.module(module)
        node = m.classes[name]
        c = ClsRef(name, module, node, [])
        self.classes[key] = c
        for b in node.bases:
            try:
                fr = Frame(module, {}, f"<class {name}>")
                self.stack.append(fr)
                try:
                    bv = self.eval(b)
                finally:
                    self.stack.pop()
            except Undecided:
                bv = ast.unparse(b)
            c.bases.append(bv if isinstance(bv, ClsRef) else ast.unparse(b))
        for item in node.body:
            if isinstance(item, ast.FunctionDef):
                decos = [ast.unparse(d) for d in item.decorator_list]
                if "property" in decos:
                    c.props.setdefault(item.name, [None, None])[0] = item
                elif any(d.endswith(".setter") for d in decos):
                    c.props.setdefault(item.name, [None, None])[1] = item
                elif "staticmethod" in decos:
                    c.methods[item.name] = item
                    c.kind[item.name] = "static"
                elif "classmethod" in decos:
                    c.methods[item.name] = item
                    c.kind[item.name] = "class"
                elif "abstractmethod" in decos or not decos:
                    c.methods[item.name] = item
                    c.kind[item.name] = "method"
                else:
                    raise Undecided(f"decorator {decos} on {name}.{item.name}")
            elif isinstance(item, ast.Assign) and len(item.targets) == 1 and isinstance(item.targets[0], ast.Name):
                c.attrs[item.targets[0].id] = item.value
        return c

    # ----------------------------------------------------------------- statements
    def exec_block(self, stmts):
        for s in stmts:
            self.exec(s)

    def exec(self, node):
        m = getattr(self, "x_" + type(node).__name__, None)
        if m is None:
            raise Undecided(f"statement {type(node).__name__} (line {getattr(node, 'lineno', '?')}) is outside the accepted subset")
        return m(node)

    def x_Expr(self, node):
        if isinstance(node.value, ast.Constant):
            return  # docstring
        if isinstance(node.value, ast.Call):
            fn = ast.unparse(node.value.func)
            if fn in NOOP_CALLS or fn.startswith("warnings.") or fn.startswith("logging.") or fn.startswith("plt."):
                return
        self.eval(node.value)

    def x_Pass(self, node):
        return

    def x_Return(self, node):
        raise ReturnEx(self.eval(node.value) if node.value is not None else None)

    def x_Break(self, node):
        raise BreakEx()

    def x_Continue(self, node):
        raise ContinueEx()

    def x_Assert(self, node):
        c = self.eval(node.test)
        goal = self.truth_term(c)
        name = self.ob_name("assert")
        permitted = self.hooks.get("permitted_asserts")
        if permitted and permitted(self, name, node):
            # the contract lists this assert as a permitted abrupt exit: normal return only continues when it holds
            self.path.assume(goal)
            return
        self.path.oblige(name, goal)
        self.path.assume(goal)

    def x_Raise(self, node):
        nm = "Exception"
        if node.exc is not None:
            e = node.exc
            nm = ast.unparse(e.func) if isinstance(e, ast.Call) else ast.unparse(e)
        raise RaiseEx(nm, ast.unparse(node)[:120])

    def x_Assign(self, node):
        v = self.eval(node.value)
        for t in node.targets:
            self.assign(t, v)

    def x_AnnAssign(self, node):
        if node.value is not None:
            self.assign(node.target, self.eval(node.value))

    def x_AugAssign(self, node):
        cur = self.eval(_load(node.target))
        rhs = self.eval(node.value)
        if isinstance(cur, list) and isinstance(node.op, ast.Add):
            self.note_write(cur, "extend")
            cur.extend(rhs)  # in-place list extension
            return
        v = self.binop(node.op, cur, rhs)
        self.assign(node.target, v)

    def x_If(self, node):
        c = self.eval(node.test)
        if self.truth(c):
            self.exec_block(node.body)
        else:
            self.exec_block(node.orelse)

    def x_For(self, node):
        it = self.eval(node.iter)
        hook = self.hooks.get("loop")
        if hook is not None:
            handled = hook(self, node, it)
            if handled:
                return
        # CPython iterates a `list` LIVE (position + current length): a body that removes from / appends to the list it iterates
        # skips or revisits elements.  Every other iterable is enumerated once (tuples, ranges, arrays of concrete length ...).
        live = it if isinstance(it, list) else None
        seq = None if live is not None else self.iterate(it)
        broke = False
        k = 0
        while True:
            cur = live if live is not None else seq
            if k >= len(cur):
                break
            v = cur[k]
            k += 1
            self.assign(node.target, v)
            try:
                self.exec_block(node.body)
            except BreakEx:
                broke = True
                break
            except ContinueEx:
                continue
        if not broke:
            self.exec_block(node.orelse)

    def x_While(self, node):
        hook = self.hooks.get("while")
        if hook is not None and hook(self, node):
            return
        n = 0
        while True:
            c = self.eval(node.test)
            if not self.truth(c):
                break
            n += 1
            if n > 64:
                raise Undecided("while loop without invariant exceeded 64 unrolled iterations")
            try:
                self.exec_block(node.body)
            except BreakEx:
                return
            except ContinueEx:
                continue
        self.exec_block(node.orelse)

    def x_FunctionDef(self, node):
        fr = self.stack[-1]
        fr.env[node.name] = Closure(node, fr.env, fr.module)

    def x_Try(self, node):
        # accepted form: try: <body> except [X]: <handler>  - the handler runs when the body raises
        try:
            self.exec_block(node.body)
        except RaiseEx as e:
            for h in node.handlers:
                if h.type is None or ast.unparse(h.type) in (e.exc_name, "Exception", "BaseException"):
                    self.exec_block(h.body)
                    break
            else:
                raise
        else:
            self.exec_block(node.orelse)
        finally:
            pass
        if node.finalbody:
            self.exec_block(node.finalbody)

    def x_Delete(self, node):
        for t in node.targets:
            if isinstance(t, ast.Name):
                self.stack[-1].env.pop(t.id, None)
            elif isinstance(t, ast.Subscript):
                c = self.eval(t.value)
                k = self.eval(t.slice)
                if isinstance(c, (list, dict)):
                    kk = concrete_int(k) if isinstance(c, list) else k
                    if kk is None:
                        raise Undecided("del with a symbolic index")
                    self.note_write(c, "del")
                    try:
                        del c[kk]
                    except IndexError:
                        raise RaiseEx("IndexError", "list assignment index out of range")
                    except KeyError:
                        raise RaiseEx("KeyError", str(kk))
                else:
                    raise Undecided("del on non-list")
            else:
                raise Undecided("del target")

    def x_Import(self, node):
        for a in node.names:
            self.stack[-1].env[a.asname or a.name.split(".")[0]] = ModRef(a.name)

    def x_ImportFrom(self, node):
        for a in node.names:
            self.stack[-1].env[a.asname or a.name] = self.resolve_global_from(node.module, a.name)

    def resolve_global_from(self, modname, attr):
        if modname.startswith("graphiq"):
            return self.resolve_global(modname, attr)
        return self.models.external_attr(self, ModRef(modname), attr)

    # ----------------------------------------------------------------- assignment
    def assign(self, target, v):
        if isinstance(target, ast.Name):
            self.stack[-1].env[target.id] = v
        elif isinstance(target, (ast.Tuple, ast.List)):
            vals = self.iterate(v)
            if len(vals) != len(target.elts):
                raise RaiseEx("ValueError", "unpack")
            for t, x in zip(target.elts, vals):
                self.assign(t, x)
        elif isinstance(target, ast.Attribute):
            obj = self.eval(target.value)
            self.setattr(obj, target.attr, v)
        elif isinstance(target, ast.Subscript):
            obj = self.eval(target.value)
            self.setitem(obj, target.slice, v)
        else:
            raise Undecided(f"assignment target {type(target).__name__}")

    def setattr(self, obj, attr, v):
        if isinstance(obj, Obj):
            found = obj.cls.lookup(attr)
            if found and found[0] == "prop":
                setter = found[2][1]
                if setter is None:
                    raise RaiseEx("AttributeError", f"can't set {attr}")
                self.call_function(FuncRef(found[1].module, setter, f"{found[1].module}:{found[1].name}.{attr}.setter", found[1]),
                                   [obj, v], {})
                return
            self.note_write(obj, attr)
            obj.fields[attr] = v
            return
        h = self.hooks.get("setattr")
        if h and h(self, obj, attr, v):
            return
        raise Undecided(f"setattr on {type(obj).__name__}")

    def note_write(self, obj, what):
        self.writes.append((obj, what))

    def setitem(self, obj, slice_node, v):
        if isinstance(obj, NDArr):
            self.models.nd_setitem(self, obj, slice_node, v)
            return
        key = self.eval(slice_node)
        if isinstance(obj, list):
            k = concrete_int(key)
            if k is None:
                raise Undecided("list store at symbolic index")
            self.note_write(obj, k)
            obj[k] = v
            return
        if isinstance(obj, dict):
            if is_sym(key):
                raise Undecided("dict store at symbolic key")
            self.note_write(obj, key)
            obj[key] = v
            return
        h = self.hooks.get("setitem")
        if h and h(self, obj, key, v):
            return
        if isinstance(obj, Obj):
            found = obj.cls.lookup("__setitem__")
            if found and found[0] == "method":
                self.call_function(FuncRef(found[1].module, found[2], f"{found[1].module}:{found[1].name}.__setitem__", found[1]),
                                   [obj, key, v], {})
                return
        raise Undecided(f"setitem on {type(obj).__name__}")

    # ----------------------------------------------------------------- expressions
    def eval(self, node):
        m = getattr(self, "e_" + type(node).__name__, None)
        if m is None:
            raise Undecided(f"expression {type(node).__name__} (line {getattr(node, 'lineno', '?')}) is outside the accepted subset")
        return m(node)

    def e_Constant(self, node):
        return node.value

    def e_Name(self, node):
        fr = self.stack[-1]
        env = fr.env
        while env is not None:
            if node.id in env:
                return env[node.id]
            env = env.get("__parent__") if isinstance(env, dict) else None
        fn = getattr(fr, "fn_node", None)
        if fn is not None and not getattr(fr, "env_havoc", False) and node.id in _local_names(fn):
            # Python scoping: a name assigned anywhere in the function is local; reading it unbound raises
            raise RaiseEx("UnboundLocalError", f"local variable '{node.id}' read before assignment")
        return self.resolve_global(fr.module, node.id)

    def e_Tuple(self, node):
        return tuple(self._elts(node.elts))

    def e_List(self, node):
        if len(node.elts) == 1 and isinstance(node.elts[0], ast.Starred):
            v = self.eval(node.elts[0].value)
            sl = _symlist.from_iterable(self, v)  # [*range(n)] / [*l] of symbolic length
            return sl if sl is not None else list(self.iterate(v))
        return list(self._elts(node.elts))

    def _elts(self, elts):
        out = []
        for e in elts:
            if isinstance(e, ast.Starred):
                out.extend(self.iterate(self.eval(e.value)))
            else:
                out.append(self.eval(e))
        return out

    def e_Set(self, node):
        return set(self._elts(node.elts))

    def e_Dict(self, node):
        d = {}
        for k, v in zip(node.keys, node.values):
            if k is None:
                d.update(self.eval(v))
            else:
                d[self.eval(k)] = self.eval(v)
        return d

    def e_JoinedStr(self, node):
        h = self.hooks.get("fstring")  # opt-in token-string model with `+` / join (pyvc/tokstr.py); default: Templ
        if h is not None:
            return h(self, node)
        from .symgraph import joined_str

        return joined_str(self, node)

    def e_Lambda(self, node):
        fr = self.stack[-1]
        return Closure(node, fr.env, fr.module)

    def e_IfExp(self, node):
        c = self.eval(node.test)
        return self.eval(node.body) if self.truth(c) else self.eval(node.orelse)

    def e_Attribute(self, node):
        obj = self.eval(node.value)
        return self.getattr(obj, node.attr)

    def getattr(self, obj, attr):
        if isinstance(obj, Obj):
            if attr in obj.fields:
                return obj.fields[attr]
            if attr == "__class__":
                return obj.cls
            found = obj.cls.lookup(attr)
            if found is None:
                if getattr(obj, "partial", False):
                    raise Undecided(f"the abstract model of {obj.cls.name} does not provide attribute {attr!r}")
                raise RaiseEx("AttributeError", f"{obj.cls.name}.{attr}")
            kind, cls, item = found
            if kind == "prop":
                return self.call_function(FuncRef(cls.module, item[0], f"{cls.module}:{cls.name}.{attr}", cls), [obj], {})
            if kind == "method":
                f = FuncRef(cls.module, item, f"{cls.module}:{cls.name}.{attr}", cls)
                k = cls.kind.get(attr, "method")
                if k == "static":
                    return f
                if k == "class":
                    return Bound(f, obj.cls)
                return Bound(f, obj)
            fr = Frame(cls.module, {}, f"<class {cls.name}>")
            self.stack.append(fr)
            try:
                return self.eval(item)
            finally:
                self.stack.pop()
        if isinstance(obj, ClsRef):
            if attr == "__name__":
                return obj.name
            found = obj.lookup(attr)
            if found is None:
                raise RaiseEx("AttributeError", f"{obj.name}.{attr}")
            kind, cls, item = found
            if kind == "method":
                f = FuncRef(cls.module, item, f"{cls.module}:{cls.name}.{attr}", cls)
                k = cls.kind.get(attr, "method")
                if k == "class":
                    return Bound(f, obj)
                return f
            if kind == "attr":
                fr = Frame(cls.module, {}, f"<class {cls.name}>")
                self.stack.append(fr)
                try:
                    return self.eval(item)
                finally:
                    self.stack.pop()
            raise Undecided(f"class attribute {attr}")
        if isinstance(obj, Opaque) and obj.tag == "super":
            cls, self_obj = obj.payload
            base_cls = self_obj.cls if isinstance(self_obj, Obj) else self_obj
            found = base_cls.lookup(attr, start_after=cls)
            if found is None:
                if attr == "__init__":
                    return Builtin("object.__init__", lambda i, *a, **k: None)
                raise RaiseEx("AttributeError", f"super().{attr}")
            kind, c2, item = found
            if kind == "method":
                return Bound(FuncRef(c2.module, item, f"{c2.module}:{c2.name}.{attr}", c2), self_obj)
            raise Undecided("super() access to a non-method")
        if isinstance(obj, ModRef):
            if obj.name.startswith("graphiq"):
                try:
                    return self.resolve_global(obj.name, attr)
                except (FileNotFoundError, OSError):
                    if obj.name == "graphiq.backends.density_matrix.numpy":
                        # `from graphiq.backends.density_matrix import numpy as np`: the package re-exports numpy
                        # (graphiq.DENSITY_MATRIX_ARRAY_LIBRARY == "numpy", the only library installed here)
                        return self.models.external_attr(self, obj, attr)
                    raise Undecided(f"module {obj.name}")
            return self.models.external_attr(self, obj, attr)
        return self.models.value_attr(self, obj, attr)

    def e_Subscript(self, node):
        obj = self.eval(node.value)
        if isinstance(obj, NDArr):
            return self.models.nd_getitem(self, obj, node.slice)
        if isinstance(node.slice, ast.Slice):
            lo = self.eval(node.slice.lower) if node.slice.lower else None
            hi = self.eval(node.slice.upper) if node.slice.upper else None
            st = self.eval(node.slice.step) if node.slice.step else None
            lo, hi, st = (concrete_int(x) if x is not None else None for x in (lo, hi, st))
            if isinstance(obj, SymList):
                if node.slice.upper is None and node.slice.step is None and lo is not None and lo >= 0:
                    return obj.tail(lo)
                raise Undecided("slice of a symbolic-length list other than l[c:]")
            if isinstance(obj, (list, tuple, str)):
                return obj[slice(lo, hi, st)]
            h = self.hooks.get("getslice")
            if h:
                r = h(self, obj, lo, hi, st)
                if r is not None:
                    return r
            raise Undecided("slice of " + type(obj).__name__)
        key = self.eval(node.slice)
        return self.getitem(obj, key)

    def getitem(self, obj, key):
        if isinstance(obj, SymList):
            return _symlist.index(self, obj, key)
        if isinstance(obj, _symlist.SymDict):
            return _symlist.dict_lookup(self, obj, key)
        if isinstance(obj, (list, tuple, str)):
            k = concrete_int(key)
            if k is None:
                h = self.hooks.get("symbolic_index")
                if h:
                    r = h(self, obj, key)
                    if r is not None:
                        return r
                raise Undecided("sequence indexed by a symbolic value")
            try:
                return obj[k]
            except IndexError:
                raise RaiseEx("IndexError", "list index")
        if isinstance(obj, dict):
            if is_sym(key):
                raise Undecided("dict lookup with symbolic key")
            if key not in obj:
                raise RaiseEx("KeyError", str(key))
            return obj[key]
        h = self.hooks.get("getitem")
        if h:
            r = h(self, obj, key)
            if r is not None:
                return r
        if isinstance(obj, Obj):
            found = obj.cls.lookup("__getitem__")
            if found and found[0] == "method":
                return self.call_function(FuncRef(found[1].module, found[2], f"{found[1].module}:{found[1].name}.__getitem__", found[1]),
                                          [obj, key], {})
        raise Undecided(f"subscript on {type(obj).__name__}")

    def e_BinOp(self, node):
        return self.binop(node.op, self.eval(node.left), self.eval(node.right))

    def binop(self, op, a, b):
        return self.models.binop(self, op, a, b)

    def e_UnaryOp(self, node):
        v = self.eval(node.operand)
        if isinstance(node.op, ast.Not):
            if is_sym(v):
                return z3.Not(self.truth_term(v))
            return not self.truth(v)
        if isinstance(node.op, ast.USub):
            if isinstance(v, NDArr):
                rd = v.reader()
                return new_array(v.shape, lambda *i: -rd(*i))
            return -v
        if isinstance(node.op, ast.UAdd):
            return v
        if isinstance(node.op, ast.Invert) and isinstance(v, NDArr) and getattr(v.store, "is_bool", False):
            # `~b` on a numpy BOOL array (result of .any(axis=1)): element-wise logical not, again a bool array
            rd = v.reader()
            out = new_array(v.shape, lambda *i: 1 - as_int_term(rd(*i)), "not")
            out.store.is_bool = True
            return out
        raise Undecided("unary " + type(node.op).__name__)

    def e_BoolOp(self, node):
        # short-circuit semantics with python values; symbolic operands are combined into one term when all are boolean terms
        vals = []
        for e in node.values:
            v = self.eval(e)
            if not is_sym(v):
                t = self.truth(v)
                if isinstance(node.op, ast.And) and not t:
                    return v if not vals else (z3.BoolVal(False) if any(is_sym(x) for x in vals) else v)
                if isinstance(node.op, ast.Or) and t:
                    if not vals:
                        return v
                    return z3.BoolVal(True)
                continue
            vals.append(self.truth_term(v))
        if not vals:
            return isinstance(node.op, ast.And)
        if len(vals) == 1:
            return vals[0]
        return z3.And(*vals) if isinstance(node.op, ast.And) else z3.Or(*vals)

    def e_Compare(self, node):
        left = self.eval(node.left)
        terms = []
        for op, rn in zip(node.ops, node.comparators):
            right = self.eval(rn)
            terms.append(self.models.compare(self, op, left, right))
            left = right
        if len(terms) == 1:
            return terms[0]
        if all(isinstance(t, bool) for t in terms):
            return all(terms)
        return z3.And(*[to_z3(t) for t in terms])

    def e_Call(self, node):
        fname = ast.unparse(node.func)
        if fname in NOOP_CALLS or fname.startswith("warnings.") or fname.startswith("logging."):
            return None
        f = self.eval(node.func)
        args = []
        for a in node.args:
            if isinstance(a, ast.Starred):
                args.extend(self.iterate(self.eval(a.value)))
            else:
                args.append(self.eval(a))
        kwargs = {}
        for k in node.keywords:
            if k.arg is None:
                kwargs.update(self.eval(k.value))
            else:
                kwargs[k.arg] = self.eval(k.value)
        return self.call(f, args, kwargs)

    def e_ListComp(self, node):
        return self._comp(node.elt, node.generators, 0)

    def e_GeneratorExp(self, node):
        return self._comp(node.elt, node.generators, 0)

    def e_SetComp(self, node):
        return set(self._comp(node.elt, node.generators, 0))

    def e_DictComp(self, node):
        sd = _symlist.dictcomp_hook(self, node)  # {K(i): V(i) for i in range(<symbolic>)}
        if sd is not None:
            return sd
        pairs = self._comp(ast.Tuple(elts=[node.key, node.value], ctx=ast.Load()), node.generators, 0)
        return dict(pairs)

    def _comp(self, elt, gens, k):
        hook = self.hooks.get("comprehension")
        if hook is not None and k == 0:
            r = hook(self, elt, gens)
            if r is not None:
                return r
        out = []
        g = gens[k]
        fr = self.stack[-1]
        for v in self.iterate(self.eval(g.iter)):
            self.assign(g.target, v)
            ok = True
            for c in g.ifs:
                if not self.truth(self.eval(c)):
                    ok = False
                    break
            if not ok:
                continue
            if k + 1 < len(gens):
                out.extend(self._comp(elt, gens, k + 1))
            else:
                out.append(self.eval(elt))
        return out

    def e_Starred(self, node):
        raise Undecided("starred expression")

    def e_Slice(self, node):
        return ("slice", self.eval(node.lower) if node.lower else None, self.eval(node.upper) if node.upper else None,
                self.eval(node.step) if node.step else None)

    # ----------------------------------------------------------------- truthiness / iteration
    def truth_term(self, v):
        if isinstance(v, bool):
            return z3.BoolVal(v)
        if is_sym(v):
            if z3.is_bool(v):
                return v
            return v != 0
        return z3.BoolVal(bool(self.truth(v)))

    def truth(self, v):
        if is_sym(v):
            return self.path.decide(self.truth_term(v))
        if isinstance(v, NDArr):
            raise Undecided("truth value of an array")
        if isinstance(v, SymList):  # a list of symbolic length is true iff it is non-empty
            return self.path.decide(to_z3(v.length) > 0)
        if isinstance(v, (Obj, ClsRef, FuncRef, Closure, Bound, Builtin, ModRef)):
            return True
        if isinstance(v, Opaque):
            h = self.hooks.get("truth")
            if h:
                return h(self, v)
            raise Undecided("truth of opaque")
        return bool(v)

    def iterate(self, v):
        if isinstance(v, (list, tuple)):
            return list(v)
        if isinstance(v, SymList):
            n = concrete_int(v.length)
            if n is None:
                raise Undecided("iteration over a list of symbolic length without a loop contract")
            return [v.get(z3.IntVal(k)) for k in range(n)]
        if isinstance(v, (set, frozenset)):
            return sorted(v, key=repr)
        if isinstance(v, dict):
            return list(v.keys())
        if isinstance(v, str):
            return list(v)
        if isinstance(v, range):
            return list(v)
        if isinstance(v, NDArr):
            n = concrete_int(v.shape[0])
            if n is None:
                raise Undecided("iteration over an array of symbolic length without a loop contract")
            if v.ndim == 1:
                return [v.get(k) for k in range(n)]
            return [self.models.nd_row(v, k) for k in range(n)]
        h = self.hooks.get("iterate")
        if h:
            r = h(self, v)
            if r is not None:
                return r
        raise Undecided(f"iteration over {type(v).__name__}")

    # ----------------------------------------------------------------- calls
    def call(self, f, args, kwargs):
        if isinstance(f, Builtin):
            return f.fn(self, *args, **kwargs)
        if isinstance(f, Bound):
            return self.call(f.func, [f.self_obj] + list(args), kwargs)
        if isinstance(f, FuncRef):
            return self.call_function(f, args, kwargs)
        if isinstance(f, Closure):
            return self.call_closure(f, args, kwargs)
        if isinstance(f, ClsRef):
            return self.instantiate(f, args, kwargs)
        h = self.hooks.get("call")
        if h:
            r = h(self, f, args, kwargs)
            if r is not NotImplemented:
                return r
        raise Undecided(f"call of {type(f).__name__}")

    def instantiate(self, cls, args, kwargs):
        h = self.hooks.get("instantiate")
        if h:
            r = h(self, cls, args, kwargs)
            if r is not NotImplemented:
                return r
        o = Obj(cls)
        init = cls.lookup("__init__")
        if init is not None and init[0] == "method":
            self.call_function(FuncRef(init[1].module, init[2], f"{init[1].module}:{init[1].name}.__init__", init[1]),
                               [o] + list(args), kwargs)
        o.partial = False
        return o

    def bind_args(self, fn_node, args, kwargs, module):
        a = fn_node.args
        params = [p.arg for p in a.posonlyargs + a.args]
        env = {}
        if len(args) > len(params) and a.vararg is None:
            raise RaiseEx("TypeError", "too many positional arguments")
        for p, v in zip(params, args):
            env[p] = v
        if a.vararg is not None:
            env[a.vararg.arg] = tuple(args[len(params):])
        defaults = a.defaults
        first_default = len(params) - len(defaults)
        for i, p in enumerate(params):
            if p in env:
                continue
            if p in kwargs:
                env[p] = kwargs.pop(p)
            elif i >= first_default:
                env[p] = self._default(defaults[i - first_default], module)
            else:
                raise RaiseEx("TypeError", f"missing argument {p}")
        for p, d in zip(a.kwonlyargs, a.kw_defaults):
            if p.arg in kwargs:
                env[p.arg] = kwargs.pop(p.arg)
            elif d is not None:
                env[p.arg] = self._default(d, module)
            else:
                raise RaiseEx("TypeError", f"missing kw argument {p.arg}")
        if a.kwarg is not None:
            env[a.kwarg.arg] = dict(kwargs)
        elif kwargs:
            raise RaiseEx("TypeError", f"unexpected keyword {list(kwargs)}")
        return env

    def _default(self, node, module):
        fr = Frame(module, {}, "<default>")
        self.stack.append(fr)
        try:
            return self.eval(node)
        finally:
            self.stack.pop()

    def call_function(self, f: FuncRef, args, kwargs, force_body=False):
        qual = f.qual
        c = self.contracts.get(qual)
        if c is not None and not force_body and qual != self.task_name:
            return c.apply(self, args, dict(kwargs))
        if not force_body and qual != self.task_name and not self._inlinable(qual):
            h = self.hooks.get("uncontracted_call")
            if h:
                r = h(self, f, args, kwargs)
                if r is not NotImplemented:
                    return r
            raise Undecided(f"call to {qual}, which has neither a contract nor an inline permission")
        return self.run_body(f, args, kwargs)

    def _inlinable(self, qual):
        if qual in self.inline:
            return True
        for pat in self.inline:
            if pat.endswith("*") and qual.startswith(pat[:-1]):
                return True
        return False

    def run_body(self, f: FuncRef, args, kwargs):
        env = self.bind_args(f.node, list(args), dict(kwargs), f.module)
        short = f.qual.split(":")[1]
        fr = Frame(f.module, env, short, f.cls)
        fr.fn_node = f.node
        self.stack.append(fr)
        self.call_depth += 1
        if self.call_depth > 60:
            raise Undecided("call depth > 60")
        try:
            self.exec_block(f.node.body)
            return None
        except ReturnEx as r:
            return r.value
        finally:
            self.call_depth -= 1
            self.stack.pop()

    def call_closure(self, c: Closure, args, kwargs):
        node = c.node
        env = self.bind_args(node, list(args), dict(kwargs), c.module)
        env["__parent__"] = c.env
        fr = Frame(c.module, env, self.stack[-1].func_name if self.stack else "<closure>")
        fr.counters = self.stack[-1].counters if self.stack else {}
        self.stack.append(fr)
        try:
            if isinstance(node, ast.Lambda):
                return self.eval(node.body)
            self.exec_block(node.body)
            return None
        except ReturnEx as r:
            return r.value
        finally:
            self.stack.pop()


_LOCALS_CACHE = {}


def _local_names(fn):
    """names that Python treats as local variables of the function `fn` (FunctionDef): parameters and every name bound
    in its own body (nested functions / lambdas / comprehensions / classes have their own scope; global/nonlocal excluded)"""
    key = id(fn)
    if key in _LOCALS_CACHE:
        return _LOCALS_CACHE[key][1]
    out, excluded = set(), set()
    if not isinstance(fn, ast.FunctionDef):
        _LOCALS_CACHE[key] = (fn, out)
        return out
    a = fn.args
    for p in a.posonlyargs + a.args + a.kwonlyargs + ([a.vararg] if a.vararg else []) + ([a.kwarg] if a.kwarg else []):
        out.add(p.arg)
    todo = list(fn.body)
    while todo:
        n = todo.pop()
        if isinstance(n, (ast.FunctionDef, ast.AsyncFunctionDef, ast.ClassDef)):
            out.add(n.name)
            continue
        if isinstance(n, (ast.Lambda, ast.ListComp, ast.SetComp, ast.DictComp, ast.GeneratorExp)):
            continue
        if isinstance(n, (ast.Global, ast.Nonlocal)):
            excluded.update(n.names)
            continue
        if isinstance(n, ast.Name) and isinstance(n.ctx, (ast.Store, ast.Del)):
            out.add(n.id)
        elif isinstance(n, (ast.Import, ast.ImportFrom)):
            for al in n.names:
                out.add((al.asname or al.name).split(".")[0])
        elif isinstance(n, ast.ExceptHandler) and n.name:
            out.add(n.name)
        todo.extend(ast.iter_child_nodes(n))
    out -= excluded
    _LOCALS_CACHE[key] = (fn, out)  # keep fn alive so that id() stays unique
    return out


def _load(target):
    import copy

    t = copy.deepcopy(target)
    for n in ast.walk(t):
        if hasattr(n, "ctx"):
            n.ctx = ast.Load()
    return t
