"""Hoare-style loop rule with HAVOC + invariant for `for` loops of symbolic trip count, and its "lockstep append" extension.

`loops.SeqLoop` needs the exact value of every carried variable after k iterations (defines-style).  That is the right
tool for functional postconditions, but for frame / safety / trace properties of long functions (canonical_form,
inverse_circuit: seven blocks of nested loops that rewrite a whole tableau) the classical rule is enough:

    InvLoop(func, target, iter, modifies, havoc, inv, lockstep)
      frame.vars     every name assigned in the body is in `modifies`, is the loop target, or is declared iteration-local
      init           inv(0) holds at loop entry
      preservation   ARBITRARY iteration k (0 <= k < N): `havoc(I, env)` replaces the contents of everything the loop may
                     modify by fresh symbolic values (object identities are kept) and returns the havoc'd objects;
                     inv(k) is assumed; the REAL body runs (all its asserts / index bounds / callee preconditions are
                     obligations); inv(k+1) is proved
      frame.heap     every object that was reachable from the frame's variables before the iteration and is NOT among the
                     havoc'd ones is untouched by the body: checked syntactically on the symbolic heap (array contents
                     closures, object field tables, list and dict items are compared by identity before/after - any write,
                     also one made by a callee's contract, replaces them)
      exit           the code after the loop continues from a havoc'd state satisfying inv(N)

Lockstep extension (DESIGN C11(a) "trace consistency").  `lockstep = (list_var, match)` declares a ghost relation
        R(list, trace):  the items appended to `list_var` and the recorded events (path.trace) correspond one-to-one, in order
between a Python list the function builds and the effect trace of the recorder contracts.  For the arbitrary iteration the
list variable is bound to a fresh EMPTY list and the trace is emptied; after the body `match(I, item, event)` must hold
for the two local sequences position by position (equal lengths), and the variable must still be bound to that list
object.  By induction on the trip count the loop as a whole extends both sequences by R-related segments; it is
represented by ONE marker appended to both (so a loop nested inside a body, or between two straight-line appends, keeps
its position in both sequences).  The enclosing function's task finally checks R on the complete list and trace.
"""
from __future__ import annotations

import ast

import z3

from .interp import Undecided, BreakEx, ContinueEx, ReturnEx, PathEnd
from .values import NDArr, Store, Obj, Opaque, to_z3
from .symlist import SymList
from .loops import assigned_names, trip_count, _as_load, _zero


class LoopMarker:
    """stands for the (R-related) contribution of one whole loop in both the built list and the trace"""

    _n = 0

    def __init__(self, tag):
        LoopMarker._n += 1
        self.id = LoopMarker._n
        self.tag = tag

    def __repr__(self):
        return f"<loop {self.tag}#{self.id}>"


class InvLoop:
    def __init__(self, func, target, iter_text, modifies, havoc, inv=None, locals=(), lockstep=None, body_has=None, allow_return=False,
                 trace_check=None, indexed_havoc=False):
        self.func = func
        self.target = target
        self.iter_text = iter_text
        self.modifies = set(modifies)
        self.havoc = havoc  # havoc(I, env) -> list of havoc'd heap objects (Obj / NDArr / list / dict)
        self.inv = inv  # inv(I, k, env) -> list of (name, goal[, extra])
        self.locals = set(locals)
        self.lockstep = lockstep  # (list variable name, match(I, item, event) -> z3 Bool | bool)
        self.body_has = body_has  # text that must occur in the loop body (tells apart loops with the same header)
        self.allow_return = allow_return  # `return` inside the body: the function returns from the ARBITRARY iteration
        # trace rule (C02 "circuit and tableau stay in sync"): the effect trace of ONE arbitrary iteration, taken on its own, must
        # satisfy trace_check(I, tag, events) (which records obligations); by induction the whole loop contributes a segment that
        # is a concatenation of checked segments, represented by ONE marker event {"name": "loop", "marker": LoopMarker}
        self.trace_check = trace_check
        # indexed havoc: havoc(I, env, k) may define PART of the modified state in defines-style (an explicit function of the
        # iteration index and the entry state) and leave the rest unspecified; whatever it builds in must be proved by `inv`
        self.indexed_havoc = indexed_havoc

    def matches(self, interp, node):
        return (interp.stack[-1].func_name.split(".")[-1] == self.func.split(".")[-1]
                and ast.unparse(node.target) == self.target
                and (self.iter_text is None or ast.unparse(node.iter) == self.iter_text)  # None: any iterable
                and (self.body_has is None or self.body_has in "\n".join(ast.unparse(s) for s in node.body)))


def make_hook(specs, fallback=None):
    def hook(interp, node, it):
        for s in specs:
            if s.matches(interp, node):
                run_invloop(interp, node, it, s)
                return True
        if fallback is not None:
            return fallback(interp, node, it)
        return False

    return hook


# ------------------------------------------------------------------------------------------ symbolic-heap snapshot
def _reach(roots):
    seen, out, todo = set(), [], list(roots)
    while todo:
        v = todo.pop()
        if id(v) in seen:
            continue
        if isinstance(v, NDArr):
            seen.add(id(v))
            todo.append(v.store)
        elif isinstance(v, Store):
            seen.add(id(v))
            out.append(v)
        elif isinstance(v, Obj):
            seen.add(id(v))
            out.append(v)
            todo.extend(v.fields.values())
        elif isinstance(v, (list, tuple)):
            seen.add(id(v))
            if isinstance(v, list):
                out.append(v)
            todo.extend(v)
        elif isinstance(v, dict):
            seen.add(id(v))
            out.append(v)
            todo.extend(v.values())
        elif isinstance(v, SymList):
            seen.add(id(v))
            out.append(v)
    return out


def snapshot(roots, exclude=()):
    ex = {id(o) for o in _reach(list(exclude))}
    snap = []
    for o in _reach(roots):
        if id(o) in ex:
            continue
        if isinstance(o, Store):
            snap.append((o, o.f, o.shape))
        elif isinstance(o, Obj):
            snap.append((o, dict(o.fields), None))
        elif isinstance(o, list):
            snap.append((o, list(o), None))
        elif isinstance(o, dict):
            snap.append((o, dict(o), None))
        elif isinstance(o, SymList):
            snap.append((o, o.elem, o.length))
    return snap


def changed(snap):
    bad = []
    for o, a, b in snap:
        if isinstance(o, Store):
            ok = o.f is a and o.shape is b
        elif isinstance(o, Obj):
            ok = o.fields.keys() == a.keys() and all(o.fields[k] is a[k] for k in a)
        elif isinstance(o, list):
            ok = len(o) == len(a) and all(x is y for x, y in zip(o, a))
        elif isinstance(o, dict):
            ok = o.keys() == a.keys() and all(o[k] is a[k] for k in a)
        else:
            ok = o.elem is a and o.length is b
        if not ok:
            bad.append(o)
    return bad


# ------------------------------------------------------------------------------------------ the rule
def _inv(interp, spec, k, env, mode, tag):
    if spec.inv is None:
        return
    path = interp.path
    for item in spec.inv(interp, k, env):
        name, goal = item[0], item[1]
        extra = list(item[2]) if len(item) > 2 else []
        if isinstance(goal, bool):
            goal = z3.BoolVal(goal)
        if mode == "assume":
            path.assume(z3.Implies(z3.And(*extra), goal) if extra else goal)
        else:
            path.oblige(f"{tag}.{mode}.{name}", goal, extra=extra)


def check_lockstep(interp, label, items, events, match):
    """R(items, events): same length, position-wise match (markers must be the identical marker)"""
    path = interp.path
    ok = len(items) == len(events)
    path.engine.record(f"{label}.lockstep.same-number-of-appends-and-gates", "discharged" if ok else "refuted", 0,
                       "" if ok else f"{len(items)} item(s) appended to the list but {len(events)} gate call(s) recorded: "
                                     f"items={items!r} events={[e['name'] for e in events]}", None)
    if not ok:
        return False
    for pos, (it, ev) in enumerate(zip(items, events)):
        if isinstance(it, LoopMarker) or ev.get("marker") is not None:
            good = it is ev.get("marker")
            path.engine.record(f"{label}.lockstep.{pos}.loop-position", "discharged" if good else "refuted", 0,
                               "" if good else "a nested loop sits at different positions of the list and of the trace", None)
            continue
        g = match(interp, it, ev)
        if isinstance(g, bool):  # decided structurally (wrong name / arity / object) on a path that was found feasible
            path.engine.record(f"{label}.lockstep.{pos}.item-matches-gate", "discharged" if g else "refuted", 0,
                               "" if g else f"appended item {it!r} does not name the recorded call {ev['name']}{tuple(ev['args'][1:])!r} "
                                            f"on the working tableau", None)
            continue
        path.oblige(f"{label}.lockstep.{pos}.item-matches-gate", g)
    return True


def run_invloop(interp, node, it, spec: InvLoop):
    path = interp.path
    fr = interp.stack[-1]
    lo, hi = trip_count(interp, it)
    lo_t, hi_t = to_z3(lo), to_z3(hi)
    N = z3.If(hi_t - lo_t < 0, z3.IntVal(0), hi_t - lo_t)
    tag = f"{fr.func_name}:invloop({spec.target} in {spec.iter_text or ast.unparse(node.iter)})"
    if node.orelse:
        raise Undecided("for-else under a loop contract")
    tnames = {n.id for n in ast.walk(node.target) if isinstance(n, ast.Name)}
    written = assigned_names(node.body)
    lvar = spec.lockstep[0] if spec.lockstep else None
    extra = written - spec.modifies - tnames - spec.locals
    path.engine.record(f"{tag}.frame.vars", "discharged" if not extra else "refuted", 0,
                       "" if not extra else f"loop body assigns {sorted(extra)} which the loop contract does not cover", None)
    if extra or (lvar is not None and lvar in written):
        if lvar is not None and lvar in written:
            path.engine.record(f"{tag}.frame.list-variable-not-rebound", "refuted", 0, f"the body rebinds `{lvar}`", None)
        raise PathEnd()
    # ---- init
    _inv(interp, spec, z3.IntVal(0), fr.env, "init", tag)
    # ---- arbitrary iteration
    saved_pc = len(path.pc)
    saved_env = dict(fr.env)
    saved_trace = path.trace
    k = path.fresh("it")
    path.assume(z3.And(k >= 0, k < N))
    d0 = len(path.decisions)
    hv = list(spec.havoc(interp, fr.env, k) if spec.indexed_havoc else spec.havoc(interp, fr.env))
    local_list = None
    if spec.trace_check is not None:
        if lvar is not None:
            raise Undecided("trace_check and lockstep on the same loop")
        path.trace = []
    if lvar is not None:
        if not isinstance(fr.env.get(lvar), list):
            raise Undecided(f"lockstep list variable {lvar} is not a list")
        local_list = []
        fr.env[lvar] = local_list
        path.trace = []
        hv.append(local_list)
    _inv(interp, spec, k, fr.env, "assume", tag)
    snap = snapshot([v for kk, v in fr.env.items() if kk != "__parent__"], exclude=hv)
    start_env = dict(fr.env)
    if isinstance(it, (NDArr, SymList)):
        elem = it.get(k)
    else:
        elem = (k + lo_t if not _zero(lo) else k)
    interp.assign(node.target, elem)
    try:
        interp.exec_block(node.body)
    except ContinueEx:
        pass
    except BreakEx:
        raise Undecided("break inside a loop under an invariant contract")
    except ReturnEx as r_:
        if not spec.allow_return or lvar is not None:
            raise Undecided("return inside a loop under an invariant contract")
        # early exit: the function returns out of an arbitrary iteration whose entry state satisfies inv(k) - this
        # over-approximates every real early return; the enclosing task's postcondition is checked under these assumptions
        path.ghost.setdefault("early_returns", []).append(dict(k=k, value=r_.value, loop=tag))
        raise
    _inv(interp, spec, k + 1, fr.env, "preserve", tag)
    bad = changed(snap)
    path.engine.record(f"{tag}.frame.heap", "discharged" if not bad else "refuted", 0,
                       "" if not bad else f"the loop body modifies {bad!r}, which the loop contract does not list as modified", None)
    for nm_ in sorted(spec.modifies):
        # a `modifies` variable that holds a heap object may be re-assigned by the body only to the SAME object (its
        # contents are what the loop changes, and those are havoc'd); scalars must be re-established by `havoc`
        v0 = start_env.get(nm_)
        if isinstance(v0, (Obj, NDArr, list, dict, SymList)):
            same_obj = fr.env.get(nm_) is v0
            path.engine.record(f"{tag}.frame.same-object.{nm_}", "discharged" if same_obj else "refuted", 0,
                               "" if same_obj else f"after the body `{nm_}` is bound to a different object", None)
    if spec.trace_check is not None:
        spec.trace_check(interp, tag, list(path.trace))
    if lvar is not None:
        same = fr.env.get(lvar) is local_list
        path.engine.record(f"{tag}.lockstep.list-object-kept", "discharged" if same else "refuted", 0,
                           "" if same else f"`{lvar}` is bound to another list after the body", None)
        events = [e for e in path.trace if e.get("lockstep", True)]
        check_lockstep(interp, tag, list(local_list), events, spec.lockstep[1])
    # ---- leave the arbitrary iteration; continue after the loop from a havoc'd state satisfying inv(N)
    # The state after the loop does not depend on the branches taken inside the arbitrary iteration (path condition, frame
    # and trace are restored, modified objects are havoc'd again).  A path that was forked INSIDE this body (its flipped
    # decision lies in the body) therefore ends here: the code after the loop is explored once, by the path that was not.
    flipped = len(path.prefix) - 1
    if d0 <= flipped < len(path.decisions):
        raise PathEnd()
    del path.pc[saved_pc:]
    fr.env.clear()
    fr.env.update(saved_env)
    path.trace = saved_trace
    for nm_ in (written | tnames) - spec.modifies:
        fr.env[nm_] = Opaque("stale-after-loop", nm_)  # iteration-local: its value after the loop is not modelled
    before = dict(fr.env)
    if spec.indexed_havoc:
        spec.havoc(interp, fr.env, N)
    else:
        spec.havoc(interp, fr.env)
    for nm_ in spec.modifies:
        v0 = before.get(nm_)
        if not isinstance(v0, (Obj, NDArr, list, dict, SymList)) and fr.env.get(nm_) is v0 and nm_ in written:
            fr.env[nm_] = Opaque("stale-after-loop", nm_)  # a scalar the body assigns and `havoc` did not re-establish
    _inv(interp, spec, N, fr.env, "assume", tag)
    if lvar is not None:
        m = LoopMarker(f"{spec.target} in {spec.iter_text or ast.unparse(node.iter)}")
        fr.env[lvar].append(m)
        path.trace.append({"name": "loop", "args": [], "self": None, "ret": None, "marker": m})
    if spec.trace_check is not None:
        m = LoopMarker(f"{spec.target} in {spec.iter_text or ast.unparse(node.iter)}")
        path.trace.append({"name": "loop", "args": [], "self": None, "ret": None, "marker": m, "checked": True})


# ------------------------------------------------------------------------------------------ while loops
class InvWhile:
    """`while <cond>: body` by havoc + invariant (partial correctness; termination is not claimed):
         init          inv holds at loop entry
         one havoc'd state satisfying inv stands both for the start of an ARBITRARY iteration and for the exit state:
           cond true   the real body runs, inv is proved afterwards, heap frame as for InvLoop; the path ends (induction)
           cond false  the code after the loop continues from this state (inv and not cond)"""

    def __init__(self, func, test_text, modifies, havoc, inv=None, locals=()):
        self.func = func
        self.test_text = test_text
        self.modifies = set(modifies)
        self.havoc = havoc
        self.inv = inv
        self.locals = set(locals)

    def matches(self, interp, node):
        return (interp.stack[-1].func_name.split(".")[-1] == self.func.split(".")[-1]
                and (self.test_text is None or ast.unparse(node.test) == self.test_text))


def make_while_hook(specs):
    def hook(interp, node):
        for s in specs:
            if s.matches(interp, node):
                run_invwhile(interp, node, s)
                return True
        return False

    return hook


def run_invwhile(interp, node, spec: InvWhile):
    path = interp.path
    fr = interp.stack[-1]
    tag = f"{fr.func_name}:invwhile({ast.unparse(node.test)[:40]})"
    if node.orelse:
        raise Undecided("while-else under a loop contract")
    written = assigned_names(node.body)
    extra = written - spec.modifies - spec.locals
    path.engine.record(f"{tag}.frame.vars", "discharged" if not extra else "refuted", 0,
                       "" if not extra else f"loop body assigns {sorted(extra)} which the loop contract does not cover", None)
    if extra:
        raise PathEnd()
    _inv(interp, spec, None, fr.env, "init", tag)
    for nm_ in written - spec.modifies:
        fr.env[nm_] = Opaque("stale-after-loop", nm_)
    hv = list(spec.havoc(interp, fr.env))
    _inv(interp, spec, None, fr.env, "assume", tag)
    c = interp.eval(node.test)
    if not interp.truth(c):
        return  # exit state: inv and not cond
    snap = snapshot([v for kk, v in fr.env.items() if kk != "__parent__"], exclude=hv)
    try:
        interp.exec_block(node.body)
    except ContinueEx:
        pass
    except BreakEx:
        raise Undecided("break inside a while loop under an invariant contract")
    except ReturnEx:
        raise Undecided("return inside a while loop under an invariant contract")
    _inv(interp, spec, None, fr.env, "preserve", tag)
    bad = changed(snap)
    path.engine.record(f"{tag}.frame.heap", "discharged" if not bad else "refuted", 0,
                       "" if not bad else f"the loop body modifies {bad!r}, which the loop contract does not list as modified", None)
    raise PathEnd()  # the next iteration starts from a state covered by the havoc above (induction)
