"""./check <Cxx> [--tier quick|thorough] [--replay FILE] [--only deductive|bounded]

Exit codes: 0 held (known findings only), 1 VIOLATION, 3 internal error of the checker itself.
`unknown`/timeouts/unsupported syntax are UNDECIDED (printed, recorded in the evidence, exit 0) - never a violation.
"""
from __future__ import annotations

import argparse
import importlib
import json
import os
import sys
import time
import traceback

from . import core
from .core import Obl, Deductive


def _import(name):
    try:
        return importlib.import_module(name)
    except ModuleNotFoundError as e:
        if e.name == name:
            return None
        raise


def run_property(prop, tier, seed, only=None):
    from .config import PROPS

    cfg = PROPS[prop]
    t0 = time.time()
    known = core.load_known(prop)
    violations = []  # (replay_path, suffix)
    known_hits = []
    undecided = []
    lines = []

    # ---------------- deductive part -------------------------------------------------------
    ded = Deductive()
    pm = _import(f"props.{prop}")
    if pm is not None and only in (None, "deductive") and hasattr(pm, "deductive"):
        ded = pm.deductive(tier=tier, seed=seed)
    n_obl = len(ded.obligations)
    n_dis = sum(1 for o in ded.obligations if o.status == "discharged")
    if ded.errors:
        for e in ded.errors:
            print(f"CHECKER-ERROR {prop}: {e}")
        return 3
    if pm is not None and hasattr(pm, "deductive") and only in (None, "deductive") and n_obl == 0:
        print(f"CHECKER-ERROR {prop}: zero obligations generated (vacuity guard)")
        return 3
    for c in ded.canaries:
        if not c.get("refuted"):
            # a wrong postcondition verified.  If the right postcondition of the same function ALSO verifies the engine is
            # vacuous/unsound (checker error).  If the right one is refuted, the tree simply behaves like the canary's
            # wrong spec - the refuted obligation below is the verdict.
            # If the function left the accepted subset (its real obligations are undecided) the canary is undecided too.
            fn_obls = [o for o in ded.obligations if o.function == c.get("function")]
            fn_all_ok = bool(fn_obls) and all(o.status == "discharged" for o in fn_obls)
            if fn_all_ok or not fn_obls:
                print(f"CHECKER-ERROR {prop}: canary {c['name']} was NOT refuted - engine unsound or vacuous")
                return 3
    os.makedirs(core.REPLAYS, exist_ok=True)
    for old in os.listdir(core.REPLAYS):  # replay files are rewritten by every run of this property
        if old.startswith(prop + "-"):
            os.unlink(os.path.join(core.REPLAYS, old))
    for o in ded.obligations:
        if o.status == "discharged":
            continue
        if o.status == "undecided":
            undecided.append(o)
            print(f"UNDECIDED property={prop} obligation={o.name} reason={o.detail[:200]}")
            continue
        # refuted
        k = core.match_known(known, obligation=o.name)
        if k is not None:
            known_hits.append((k, o.name))
            continue
        path = os.path.join(core.REPLAYS, f"{prop}-{_safe(o.name)}.json")
        core.jdump(
            {
                "property": prop,
                "kind": "obligation",
                "obligation": o.name,
                "function": o.function,
                "backend": o.backend,
                "verifier_output": o.detail,
                "witness": o.witness,
                "replayed_on_real_code": o.replayed,
                "replay_cmd": f"./check {prop} --replay {os.path.relpath(path, core.ROOT)}",
            },
            path,
        )
        violations.append((path, "" if o.replayed else " no-failing-input-found"))

    # ---------------- bounded stand-ins ----------------------------------------------------
    suite = None
    bm = _import(f"bounded.{prop}")
    if bm is not None and only in (None, "bounded"):
        suite = bm.run(tier, seed)
        dump = os.environ.get("VERIF_DUMP_FAILS")
        if dump:
            core.jdump({"property": prop, "tier": tier, "seed": seed,
                        "bounded": [{"item": it.name, "input": f["input"], "symptom": f["symptom"][:300]}
                                    for it in suite.items.values() for f in it.failures],
                        "obligations": [o.name for o in ded.obligations if o.status == "refuted"]}, dump)
        for it in suite.items.values():
            unmatched = 0
            for n, f in enumerate(it.failures):
                k = core.match_known(known, item=it.name, inp=f["input"])
                if k is not None:
                    known_hits.append((k, f"{it.name} {core._norm(f['input'])}"))
                    continue
                unmatched += 1
                if unmatched > 10:  # at most 10 replay files / VIOLATION lines per item; every failure is counted
                    violations.append((None, ""))
                    continue
                path = os.path.join(core.REPLAYS, f"{prop}-{_safe(it.name)}-{n}.json")
                core.jdump(
                    {
                        "property": prop,
                        "kind": "bounded",
                        "item": it.name,
                        "site": it.site,
                        "input": f["input"],
                        "symptom": f["symptom"],
                        "replay_cmd": f"./check {prop} --replay {os.path.relpath(path, core.ROOT)}",
                    },
                    path,
                )
                violations.append((path, ""))

    # ---------------- evidence -------------------------------------------------------------
    wall = time.time() - t0
    b_items = suite.summary() if suite else []
    evals = sum(i["evaluations"] for i in b_items)
    dn = sum(i["distinct_nontrivial"] for i in b_items)
    samples = []
    for o in ded.obligations[:6]:
        samples.append({"obligation": o.name, "function": o.function, "status": o.status, "backend": o.backend, "kind": o.kind})
    if suite:
        for it in list(suite.items.values())[:8]:
            for s in it.samples[:1]:
                samples.append({"bounded_item": it.name, "input": s})
    level = cfg["level"]
    fully = n_obl > 0 and n_dis == n_obl
    if level == "proof" and not fully:
        level = "other"
    seen = set()
    kf_lines = []
    for k, what in known_hits:
        kid = k.get("id", k.get("symptom", "?"))
        if kid in seen:
            continue
        seen.add(kid)
        kf_lines.append(f"KNOWN-FINDING: property={prop} {k.get('symptom', what)}")
    ev = {
        "property_id": prop,
        "tier": tier,
        "seed": seed,
        "level": level,
        "coverage": {
            "obligations": n_obl,
            "discharged": n_dis,
            "undecided": [o.name for o in undecided],
            "refuted": [o.name for o in ded.obligations if o.status == "refuted"],
            "checker_cmd": f"./check {prop} --tier {tier}",
            "trusted_base": ded.trusted_base,
            "functions_under_contract": ded.functions,
            "inlined_accessors": ded.inlined,
            "obligation_table": [
                {"name": o.name, "function": o.function, "status": o.status, "kind": o.kind, "backend": o.backend,
                 "solver_ms": round(o.ms, 1), "clause": o.clause}
                for o in ded.obligations
            ],
            "solver_ms_total": round(sum(o.ms for o in ded.obligations), 1),
            "canaries_refuted": ded.canaries,
            "dropped_by_extraction": ded.dropped,
            "bounded": b_items,
            "bounded_notes": suite.notes if suite else [],
            "evaluations": evals,
            "distinct_nontrivial": dn,
            "rule": cfg.get("rule", ""),
            "samples": samples or [{"note": "no cases"}],
            "exhaustive": False,
            "explanation": cfg.get("explanation", ""),
            "not_applicable_clauses": ded.not_applicable_clauses + cfg.get("not_applicable_clauses", []),
            "known_findings_matched": [k.get("id", "?") for k, _ in known_hits],
            "notes": ded.notes,
        },
        "assumptions": ded.assumptions + cfg.get("assumptions", []),
        "wall_s": round(wall, 2),
        "violations": len(violations),
    }
    core.jdump(ev, os.path.join(core.EVID, f"{prop}.json"))

    for l in kf_lines:
        print(l)
    print(
        f"{prop} tier={tier}: obligations {n_dis}/{n_obl} discharged, {len(undecided)} undecided; "
        f"bounded evaluations={evals} (distinct non-trivial {dn}); known-findings={len(kf_lines)}; "
        f"violations={len(violations)}; {wall:.1f}s"
    )
    if violations:
        for path, suffix in [v for v in violations if v[0] is not None][:40]:
            print(f"VIOLATION property={prop} replay={path}{suffix}")
        return 1
    return 0


def _safe(s):
    return "".join(c if c.isalnum() or c in "._-" else "_" for c in s)[:120]


def replay(prop, path):
    data = json.load(open(path))
    if data.get("kind") == "bounded":
        bm = importlib.import_module(f"bounded.{prop}")
        suite = bm.S if hasattr(bm, "S") else bm.run("replay-none", 0)
        res = suite.replay(data["item"], data["input"])
        if res is None:
            print(f"replay: contract holds for item={data['item']} on the current tree")
            return 0
        print(f"replay: item={data['item']} input={json.dumps(data['input'])[:400]}\n  symptom: {res}")
        print(f"VIOLATION property={prop} replay={path}")
        return 1
    else:
        pm = importlib.import_module(f"props.{prop}")
        if hasattr(pm, "replay_obligation"):
            return pm.replay_obligation(data)
        print(json.dumps(data, indent=1)[:3000])
        ded = pm.deductive(tier="quick", seed=0)
        bad = [o for o in ded.obligations if o.name == data["obligation"] and o.status == "refuted"]
        if bad:
            print(f"VIOLATION property={prop} replay={path}" + ("" if bad[0].replayed else " no-failing-input-found"))
            return 1
        print("replay: obligation is discharged on the current tree")
        return 0


def main(argv=None):
    ap = argparse.ArgumentParser()
    ap.add_argument("prop")
    ap.add_argument("--tier", default=os.environ.get("VERIF_TIER", "quick"), choices=["quick", "thorough"])
    ap.add_argument("--replay")
    ap.add_argument("--only", choices=["deductive", "bounded"])
    a = ap.parse_args(argv)
    seed = int(os.environ.get("VERIF_SEED", "0") or 0)
    sys.path.insert(0, core.ROOT)
    if core.REPO not in sys.path:
        sys.path.insert(0, core.REPO)
    try:
        if a.replay:
            return replay(a.prop, a.replay)
        return run_property(a.prop, a.tier, seed, a.only)
    except SystemExit:
        raise
    except BaseException:  # noqa: BLE001
        traceback.print_exc()
        print(f"CHECKER-ERROR {a.prop}: internal error (not a verdict about the property)")
        return 3


if __name__ == "__main__":
    sys.exit(main())
