"""Per-property registration: claimed level, technique, trusted base summary.  MANIFEST.json is generated from
this table by tools/gen_manifest.py so that the manifest, the evidence level and the checks cannot drift apart.

level "proof"  : every obligation on the property's contract chain is [P]/[F] (DESIGN tags) on the current tree.
level "other"  : a mix - the deductive obligations listed in the evidence are discharged for all inputs, the remaining
                 clauses are decided only by labelled bounded stand-ins ([B]) and are never counted as proved.
A property not listed in BUILT is reported under MANIFEST.not_applicable with its reason.
"""

COMMON_ASSUME = [
    "S1 Python int = SMT Int (exact); numpy int64 tableau entries are proved to stay bits, other int64 counts assumed < 2^63",
    "S2 float64 arrays that hold small integers (np.zeros/np.eye results) are modelled as integers (exact below 2^53)",
    "S3 machine reals/complex treated as mathematical reals/complex wherever a dm-backend clause is stated 'exactly'",
    "numpy/scipy/networkx API contracts (npapi) are assumed; each is differentially tested against the real library by the run",
    "extraction drops: docstrings, comments, type annotations, print/warnings/logging calls, matplotlib drawing code",
]

PROPS = {}


def _p(pid, level, technique, text, note, design_ref, explanation, rule="", nac=None, built=True, reason=""):
    PROPS[pid] = dict(
        level=level,
        technique=technique,
        text=text,
        level_note=note,
        design_ref=design_ref,
        explanation=explanation,
        rule=rule,
        not_applicable_clauses=nac or [],
        assumptions=COMMON_ASSUME,
        built=built,
        reason=reason,
    )


_TECH = "contract-based deductive verification: sidecar contracts on the real functions, VCs generated from /repo's AST on every run (pyvc), discharged by z3 (cvc5 second opinion) / exact finite-domain evaluation; bounded run-time contract monitors as labelled stand-ins"

for _i in range(1, 21):
    _p(f"C{_i:02d}", "other", _TECH, "", "", f"DESIGN.md §5 C{_i:02d}", "", built=False,
       reason="check not built yet in this round (see DESIGN.md §2.7 build order)")


# ---------------------------------------------------------------------------------------------------------------
_NOTE = ("Trusted: the [T] theorems and [A] library contracts listed in the evidence (trusted_base), S1-S8 of DESIGN.md §3; "
         "clauses marked [B-only] there are decided by the bounded stand-in only and are never counted as proved.")
_EXPL = ("Mixed level. obligation_table lists every obligation generated from /repo's current source (pyvc symbolic execution of the "
         "real AST under sidecar contracts -> z3/cvc5; or exact evaluation over a complete finite domain, kind F) - those are "
         "discharged for all inputs. coverage.bounded lists the run-time contract monitors with their stated bounds - bounded, "
         "never counted as proved. Known defects that are recorded, not repaired, are matched by exact (item, input) / obligation "
         "name from KNOWN_FINDINGS.json.")
_RULE = "bounded part: each item's `bound` says how inputs are enumerated/sampled; an input is non-trivial per the item's own rule (distinct JSON inputs that exercise the clause, counted by the harness)"

_D = {
 "C01": "Deductive: per-operation dispatch of BOTH compilers for every accepted operation class x register-type mix x measurement setting "
        "(symbolic register numbers: textbook effect trace, photons indexed before emitters, reset after measure-CNOT-reset, classical "
        "record), CompilerBase.compile by trace induction over an abstract sequence (incl. noise placement and op.noise restoration), "
        "Stabilizer wrapper methods, tableau functions (C07 contracts) and L3 conjugation tables. Bounded: exhaustive short circuits and "
        "random long circuits against an independent state-vector semantics, both backends, all outcome branches, initial states.",
 "C02": "Deductive: _change_pauli_type (gate contracts, returned inverse classes, wanted Pauli reached) and the eight helper functions of the "
        "time-reversed solver for symbolic sizes: circuit side (emission / emitter CNOT / measure-and-reset built with the right roles, "
        "registers and Fixed label before insertion; one-qubit wrappers merged in the right order) and the ghost invariant SYNC (every gate "
        "applied to the working tableau is mirrored by its inverse at the front of the circuit on the same qubit) with functional "
        "postconditions (_single_out_emitter leaves +Z_e, _transform_generator_emitters a single Z, absorption +Z on the photon, "
        "time-reversed measurement +X_e X_p); L_meas (exact). solve() as the composition of these, and totality, are bounded-only. "
        "Bounded: the solver on all graphs n<=4, selected 6-vertex targets (one per leftover emitter state), 7-12 vertex families, three "
        "input representations x two compilers judged by an independent state vector over every combination of measurement outcomes.",
 "C03": "Deductive: leftmost_nontrivial_index, height_func_list (two nested loop invariants, counting comprehension), height_dict, "
        "height_max, determine_n_emitters, frame/pivot arithmetic of rref and its helpers. Bounded: all stabilizer states n<=3 x generating "
        "sets against state-vector entropy and GF(2) rank, graphs, solver emitter budget and one emission per photon.",
 "C04": "Deductive: the three DAG edits the moves use on symbolic graph fragments (insert_at / remove_op / replace_op) and their wire-view "
        "meaning; SEMANTIC contracts of the seven mutation moves and both position helpers by symbolic execution of the real bodies on an "
        "abstract circuit (only effects are insert_at / replace_op / remove_op; two-qubit ops emitter controlled with registers read from "
        "the chosen edges; photon gates only after the emission; Fixed / Input / Output never removed; inserted pairs not incompatible); "
        "the EmitInv induction step as a lemma over the wire view; the time-reversed solver's circuit-side helpers (Fixed label before "
        "insertion); static text checks kept as a second opinion. Bounded: the emission invariant after every move in exhaustive short and "
        "long random move histories (also on registers >= 10), initialisation, hybrid populations, solver outputs.",
 "C05": "Deductive: row_sum (loop invariant, spec function), g_function + L3 table, tab_row_swap, tab_row_sum, pauli finders (filter theory), "
        "insert_qubit, StabilizerTableau.__eq__, canonical_form frame, inner_product/fidelity/Stabilizer.__eq__ dispatch traces. Bounded: "
        "all ordered pairs of states n<=2 in all presentations, sampled n<=8, against state-vector overlaps.",
 "C06": "Deductive: CompilerBase.compile for both compilers with noise on/off by trace induction: switchability (noise off or NoNoise -> exactly "
        "the noiseless call), placement before/after for one-qubit and all four controlled combinations incl. the noise carried at call "
        "time, replacement noise, op.noise restored; depolarizing weight lemma; apply() of every noise class per representation (mixtures: "
        "exactly [(p_i f_k, Pauli_k on a copy of tableau i)], sign flips iff the row anticommutes - bit-wise for symbolic tableaux; "
        "density matrices: Kraus / unitary lists as operator tokens + exact one-qubit matrices), MixedStabilizer.reduce, "
        "_apply_additional_noise index rule. Bounded: per-channel oracles, PSD/trace, backend agreement, "
        "zero strength / empty map / switched off.",
 "C07": "Deductive: every function of linalg.py and transformation.py, clifford.py z_measurement_gate (relational contract, sequence-loop "
        "invariants, sum lemma), reset_x/y/z, swap_gate, insert_qubit, add_qubit, create_n_ket0/ket1, remove_qubit (measure then discard: "
        "loop invariant over the filtered destabilizer list), tensor, partial_trace (n<=3, callers checked against remove_qubit's "
        "contract), Stabilizer.remove_qubit, for symbolic sizes/indices "
        "(per-row rule, frame, object identity); Valid => Valid for all gates and the measurement update (sum lemmas by induction, abstract "
        "Aaronson-Gottesman step); L3 conjugation tables (exact). Bounded: all 11,520 two-qubit tableaux x operations, walks to n=200.",
 "C08": "Deductive: graph -> stabilizer constructions (X=I, Z=adjacency, signs 0), stabilizer_to_density dispatch, convert_representation "
        "dispatch table over the 9 ordered pairs (right converter, right payload, right wrapper class); _graph_finder (argument frame, H / "
        "P_dag bookkeeping), state_to_graph (_phase_correction on every path, gate order), _phase_correction, hadamard_transform, "
        "row_reduction, _position_finder exactly for n<=3. Bounded: all graphs n<=4/5 through "
        "all conversions, state_to_graph gate lists applied by an independent simulator.",
 "C09": "Deductive: local_comp_graph (adj' = adj xor neighbour pairs, involution; matrix products by a sum-support lemma), "
        "Graph.local_complementation, _is_valid_clifford, _coeff_maker, _R_matrix incl. its argument frame for int and float inputs, "
        "local_clifford_ops table (exact), lc_check / converter_gate_list / state_converter_circuit gate-list assembly (reversed inverse "
        "of the reduction list, symbolic length), row_reduction. Bounded: all ordered pairs n<=4 "
        "(n<=5 thorough) against a BFS orbit oracle, returned Cliffords and complementation sequences applied and compared.",
 "C10": "Deductive: the default setting is dispatched (static), the de-duplication region of solve() for an arbitrary equivalence relation "
        "(sizes <=4/5): one representative per class, none lost, order kept; get_relabel_map (the map is an isomorphism from g1 to g2), "
        "the result-assembly region and the lc_method dispatch of solve(). Bounded: every result entry over all connected graphs n<=4 x "
        "lc methods x settings judged by state vector over all measurement outcomes and a BFS orbit oracle.",
 "C11": "Deductive: run_circuit (every gate name, reverse handling, general list by trace induction), inverse_circuit clause (a) trace "
        "consistency in all seven blocks (lockstep loop rule), group preservation of every write to the working tableau, the first "
        "Hadamard block's pivot choice and per-step contracts of the later blocks, exact run over all 1146 states n<=3, "
        "clifford_from_stabilizer dispatch. Clause (b) (result is |0..0>) is known "
        "FALSE for some states n>=5 (known finding) and is bounded-only. Bounded: all states n<=3 x generating sets, sampled up to n=30.",
 "C12": "Deductive: add / insert_at / remove_op / replace_op / _add_reg_if_absent executed on symbolic graph fragments for every operation arity and "
        "register-type mix (edge multiset, node set, node_dict/edge_dict, register counts, id counter); wire lemmas: splice/unsplice keep "
        "every wire a single path in order, append/remove keep the graph acyclic. Bounded: exhaustive edit histories <=3 and long random "
        "histories recomputing the invariant from scratch.",
 "C13": "Deductive: frame obligations from the interpreter's write log for every metric evaluate, compile's op.noise restoration, "
        "_noisy_gates/assign_noise (fresh ops, originals untouched) by induction over an abstract sequence, solver constructors; "
        "remove_identity, unwrap_nodes, group_one_qubit_gates on symbolic graph fragments (per-wire application order unchanged; whole "
        "function for small counts + induction-step tasks). Bounded: "
        "rewrites preserve the compiled state, frames around every call and call histories <=3.",
 "C14": "Deductive: every *_info usage statement for symbolic registers (token strings), wrapper definitions evaluated exactly with openQASM 2 "
        "semantics, to_json / from_json round trip per operation kind x register mix, to_openqasm emission loop by induction, JSON name "
        "tables (exact). The regex text parser from_openqasm is bounded-only. Bounded: textual round trips incl. multi-digit registers, an "
        "independent openQASM-2 reader, determinism across processes.",
 "C15": "Deductive: one step of direct()'s register-by-register walk on symbolic graph fragments for every pair of next operations (continues "
        "only if class, registers and types agree; follows the wire in both circuits), finite class table for the node test (exact), "
        "structural shape (static, three-valued); the walk as a loop invariant with havoc'd carried state, add_control_target_to_dag on "
        "fragments with stale tags, remove_redundant_circuits / CircuitStorage / compare_circuits over an uninterpreted verdict, matcher "
        "callbacks exactly (refuted classes = known findings). Bounded: all pairs of circuits <=2 ops and order-sensitive families for all comparison "
        "methods judged by compiled states on every outcome branch, compare-edit-compare histories, redundancy filters.",
 "C16": "Deductive: _perm2matrix (loop invariant), relabel proved literally as result[p(u),p(v)] = A[u,v] (sum-support lemma by induction), "
        "_equal_graphs, check_isomorphism, get_relabel_map identity branch. Bounded: all graphs n<=5 x all permutations, iso_finder option "
        "grid, every orbit explorer against a BFS orbit oracle.",
 "C17": "Deductive: partial_trace subscript strings for every ndim<=8 and every kept subset (exact), Infidelity / TraceDistance dispatch over "
        "all representation pairs (right function, copy converted, value 1-F). Spectral float code (Uhlmann branch, trace distance, "
        "sqrtm) is outside deduction: bounded against independent oracles incl. complex and mixed states.",
 "C18": "Deductive: constructors define every attribute evaluate reads (all 12 metric classes, default arguments), evaluate of the five counting "
        "metrics as effect traces (value = penalty(definition), logging, frame), unitary label list (exact over 2^8 patterns); _max_depth "
        "(one unfolding of the recursion, purity, query-edit-query histories), calculate_reg_depth, reg_gate_history, the three "
        "emitter-depth metrics for 1-3 emitters. Bounded: "
        "every metric vs an independent definition on enumerated and random circuits.",
 "C19": "Deductive: update_hof over real-valued scores for hall-of-fame sizes <=3 (length, entries are copies, population untouched; the "
        "sortedness / best-not-worse clauses are REFUTED within the isclose tolerance - known finding), tournament_selection, "
        "population_initialization (every member is its own copy: lockstep of appended items and copy()/initialization() calls). Seed "
        "reproducibility is a 2-safety property: bounded only (same process, across hash seeds).",
 "C20": "Deductive: the finite group facts by exact arithmetic over Q(i,sqrt2) on graphiq's own matrices (24 elements, inequivalent, closed, "
        "G192 invariant => unbounded words, lookup on all 192 matrices, rejection of non-Cliffords, gap lemma), unwrap order and "
        "local_clifford_to_matrix_map loop by pyvc, wrapper export order. Bounded: words up to length 5/7, 24 wrappers x both backends.",
}
for _pid, _txt in _D.items():
    _p(_pid, "other", _TECH, _txt, _NOTE, f"DESIGN.md §5 {_pid}", _EXPL, rule=_RULE)
