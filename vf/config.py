"""Per-property registration: claimed level, technique, trusted base summary.  MANIFEST.json is generated from
this table by tools/gen_manifest.py so that the manifest, the evidence level and the checks cannot drift apart.

level "proof"  : every obligation on the property's contract chain is [P]/[F] (DESIGN tags) on the current tree.
level "other"  : a mix - the deductive obligations listed in the evidence are discharged for all inputs, the remaining
                 clauses are decided only by labelled bounded stand-ins ([B]) and are never counted as proved.
A property not listed in BUILT is reported under MANIFEST.not_applicable with its reason.
"""

COMMON_ASSUME = [
    "S1 Python int = SMT Int (exact); numpy int64 tableau entries are proved to stay bits, other int64 counts assumed < 2^63",
    "S2 float64 arrays that hold small integers (np.zeros/np.eye results) are modelled as integers (exact below 2^53)",
    "S3 machine reals/complex treated as mathematical reals/complex wherever a dm-backend clause is stated 'exactly'",
    "numpy/scipy/networkx API contracts (npapi) are assumed; each is differentially tested against the real library by the run",
    "extraction drops: docstrings, comments, type annotations, print/warnings/logging calls, matplotlib drawing code",
]

PROPS = {}


def _p(pid, level, technique, text, note, design_ref, explanation, rule="", nac=None, built=True, reason=""):
    PROPS[pid] = dict(
        level=level,
        technique=technique,
        text=text,
        level_note=note,
        design_ref=design_ref,
        explanation=explanation,
        rule=rule,
        not_applicable_clauses=nac or [],
        assumptions=COMMON_ASSUME,
        built=built,
        reason=reason,
    )


_TECH = "contract-based deductive verification: sidecar contracts on the real functions, VCs generated from /repo's AST on every run (pyvc), discharged by z3 (cvc5 second opinion) / exact finite-domain evaluation; bounded run-time contract monitors as labelled stand-ins"

for _i in range(1, 21):
    _p(f"C{_i:02d}", "other", _TECH, "", "", f"DESIGN.md §5 C{_i:02d}", "", built=False,
       reason="check not built yet in this round (see DESIGN.md §2.7 build order)")


# ---------------------------------------------------------------------------------------------------------------
_p("C07", "other", _TECH,
   "Deductive: every function of linalg.py and transformation.py (and the clifford.py functions listed in the evidence) is "
   "verified against a strongest-postcondition sidecar contract for symbolic sizes/indices (per-row rule, frame, object "
   "identity), loops by inductive invariants, callers against callee contracts; the per-row rules are proved equal to "
   "conjugation by the textbook matrices on the complete Pauli domain (L3, exact). Bounded (never counted as proved): "
   "run-time contract monitors over the 11,520 two-qubit tableaux and random walks up to n=200.",
   "Trusted: T-stab, T-meas (DESIGN 4.3); assumed numpy API contracts (npapi, listed per run); Python ints = SMT Int; "
   "functions of clifford.py not yet under contract are covered only by the bounded stand-in (listed in the evidence).",
   "DESIGN.md §5 C07",
   "Mixed level: per-function obligations listed in obligation_table are discharged for all inputs (unbounded n); clauses "
   "without a discharged obligation are decided only by the labelled bounded stand-ins in coverage.bounded.",
   rule="bounded part: see coverage.bounded[*].bound; a case is non-trivial when the tableau/operation is not the identity case")


_p("C01", "other", _TECH,
   "Deductive: for every accepted operation class x register-type mix x measurement setting, the per-operation dispatch of "
   "BOTH compilers is proved (symbolic register numbers) to perform exactly the textbook effect trace on the state "
   "representation (photons indexed before emitters, X iff outcome 1, reset after measure-CNOT-reset, outcome written to the "
   "classical register); Stabilizer wrapper methods -> tableau functions -> per-row rules -> textbook matrices (L3) are "
   "proved for all sizes. Bounded: exhaustive short circuits and random long circuits against an independent state-vector "
   "semantics, both backends, all outcome branches.",
   "Trusted: T-stab, T-meas, T-commute; dm matrix builders and DensityMatrix methods are abstract tokens in the proof and "
   "are decided by the bounded stand-in only; the compile loop itself is covered by the bounded stand-in only; S3 floats.",
   "DESIGN.md §5 C01",
   "Mixed level: dispatch/wrapper/tableau obligations discharged for all inputs; dm operator algebra and the compile loop "
   "are bounded-only (labelled).",
   rule="bounded part: see coverage.bounded[*].bound")
