"""Bounded stand-ins: run-time contract monitors on the real functions, driven over a stated
finite / sampled domain.  NEVER counted as proved (DESIGN tag [B]).

A property's bounded module (bounded/Cxx.py) builds a Suite:

    S = Suite("C07")

    @S.item("swap_gate.semantics", site="graphiq.backends.stabilizer.functions.clifford:swap_gate",
            bound="all 11520 two-qubit Clifford tableaux x (q1,q2) in {0,1}^2")
    def swap_case(inp):            # inp is JSON-able; return None if the contract holds, else a symptom string
        ...

    def run(tier, seed):           # enumerates the domain
        S.map("swap_gate.semantics", inputs)      # or S.check(name, inp) one at a time
        return S

Every failure is stored with its JSON input so that `./check Cxx --replay file` re-runs exactly
that case through the same checker on the current /repo tree.
"""
from __future__ import annotations

import hashlib
import json
import multiprocessing as mp
import os
import time
import traceback
from dataclasses import dataclass, field


def jkey(obj) -> str:
    return json.dumps(obj, sort_keys=True, separators=(",", ":"), default=str)


@dataclass
class Item:
    name: str
    site: str
    bound: str
    fn: object
    exhaustive: bool = False
    evaluations: int = 0
    nontrivial_keys: set = field(default_factory=set)
    failures: list = field(default_factory=list)
    samples: list = field(default_factory=list)
    errors: int = 0
    wall_s: float = 0.0
    clause: str = ""


# Every single evaluation of a monitor must RETURN: a real function that does not come back is a failure of the contract "returns
# normally", not something to wait for.  The limit is generous (typical evaluations take milliseconds to a few seconds; the limit is
# 300 s per single input, VERIF_INPUT_TIMEOUT overrides it) so that a loaded machine cannot trip it; after 3 such failures in one run
# the remaining inputs of the suite are skipped (recorded, not counted as evaluated) so that the check itself terminates.
INPUT_TIMEOUT_S = int(os.environ.get("VERIF_INPUT_TIMEOUT", "300"))
_TIMEOUTS = mp.Value("i", 0)
SKIPPED = "__SKIPPED_AFTER_REPEATED_TIMEOUTS__"


class _InputTimeout(BaseException):
    pass


def _alarm(signum, frame):
    raise _InputTimeout()


def _call(args):
    import signal

    fn, inp = args
    if _TIMEOUTS.value >= 3:
        return SKIPPED
    use_alarm = False
    try:
        signal.signal(signal.SIGALRM, _alarm)
        signal.alarm(INPUT_TIMEOUT_S)
        use_alarm = True
    except Exception:  # noqa: BLE001  (not in a main thread: no limit)
        pass
    try:
        return _call_inner(fn, inp)
    except _InputTimeout:
        with _TIMEOUTS.get_lock():
            _TIMEOUTS.value += 1
        return (f"TIMEOUT: no result within {INPUT_TIMEOUT_S} s of wall-clock time for this single input (the monitored call did not "
                f"return; on the unchanged tree evaluations of this item take seconds at most)")
    finally:
        if use_alarm:
            signal.alarm(0)


def _call_inner(fn, inp):
    try:
        r = fn(inp)
        if r is None or r is True:
            return None
        return str(r)
    except AssertionError as e:  # a contract monitor may use assert
        tb = traceback.format_exc(limit=4)
        return f"AssertionError: {e} | {tb[-600:]}"
    except Exception as e:  # noqa: BLE001 - the checker itself must decide what exceptions mean;
        # an escaping exception is a failure of the contract "returns normally" unless the checker caught it
        tb = traceback.format_exc(limit=6)
        return f"EXC {type(e).__name__}: {e} | {tb[-900:]}"


_WORK_FN = None


def _pool_call(inp):
    return _call((_WORK_FN, inp))


class Suite:
    def __init__(self, prop: str):
        self.prop = prop
        self.items: dict[str, Item] = {}
        self.max_failures_per_item = 5000  # every failure is matched against KNOWN_FINDINGS; only the replay files are capped
        self.notes: list[str] = []

    # -- registration -----------------------------------------------------------------
    def item(self, name, site, bound, exhaustive=False, clause=""):
        def deco(fn):
            self.items[name] = Item(name=name, site=site, bound=bound, fn=fn, exhaustive=exhaustive, clause=clause)
            return fn

        return deco

    # -- running ----------------------------------------------------------------------
    def _record(self, it: Item, inp, res, nontrivial=True):
        if res == SKIPPED:
            it.skipped = getattr(it, "skipped", 0) + 1
            return
        it.evaluations += 1
        if nontrivial:
            it.nontrivial_keys.add(hashlib.sha1(jkey(inp).encode()).hexdigest()[:16])
        if len(it.samples) < 3:
            it.samples.append(inp)
        if res is not None:
            if len(it.failures) < self.max_failures_per_item:
                it.failures.append({"item": it.name, "site": it.site, "input": inp, "symptom": res})
            else:
                it.errors += 1

    def check(self, name, inp, nontrivial=True):
        it = self.items[name]
        t0 = time.time()
        res = _call((it.fn, inp))
        it.wall_s += time.time() - t0
        self._record(it, inp, res, nontrivial)
        return res is None

    def map(self, name, inputs, nontrivial=None, procs=None, chunksize=None):
        """Run the checker over `inputs` (an iterable of JSON-able inputs) on a fork pool."""
        global _WORK_FN
        it = self.items[name]
        inputs = list(inputs)
        t0 = time.time()
        procs = procs or int(os.environ.get("VERIF_PROCS", "16"))
        if len(inputs) < 32 or procs <= 1:
            results = [_call((it.fn, i)) for i in inputs]
        else:
            _WORK_FN = it.fn
            ctx = mp.get_context("fork")
            with ctx.Pool(procs) as pool:
                results = pool.map(_pool_call, inputs, chunksize or max(1, len(inputs) // (procs * 8)))
            _WORK_FN = None
        it.wall_s += time.time() - t0
        for inp, res in zip(inputs, results):
            nt = True if nontrivial is None else bool(nontrivial(inp))
            self._record(it, inp, res, nt)
        return all(r is None for r in results)

    def replay(self, name, inp):
        it = self.items[name]
        return _call((it.fn, inp))

    def note(self, text):
        self.notes.append(text)

    # -- summary ----------------------------------------------------------------------
    def summary(self):
        out = []
        for it in self.items.values():
            out.append(
                {
                    "item": it.name,
                    "site": it.site,
                    "clause": it.clause,
                    "status": "B",
                    "bound": it.bound,
                    "exhaustive_over_stated_bound": it.exhaustive,
                    "evaluations": it.evaluations,
                    "distinct_nontrivial": len(it.nontrivial_keys),
                    "failures": len(it.failures) + it.errors,
                    "skipped_after_repeated_timeouts": getattr(it, "skipped", 0),
                    "wall_s": round(it.wall_s, 2),
                }
            )
        return out
