"""Shared result types, paths, verdict policy (DESIGN §2.6) and evidence writer."""
from __future__ import annotations

import hashlib
import json
import os
import sys
import time
from dataclasses import dataclass, field, asdict

ROOT = os.path.dirname(os.path.dirname(os.path.abspath(__file__)))
REPO = os.environ.get("VERIF_REPO", "/repo")
# VERIF_EVID_DIR: development-time override (trials against scratch worktrees must not overwrite the evidence of /repo)
_OUT = os.environ.get("VERIF_EVID_DIR")
EVID = os.path.join(_OUT, "evidence") if _OUT else os.path.join(ROOT, "evidence")
REPLAYS = os.path.join(_OUT, "replays") if _OUT else os.path.join(ROOT, "replays")


@dataclass
class Obl:
    """One proof obligation generated from the real source + a sidecar contract."""

    name: str
    function: str  # "module:qualname" in /repo
    status: str  # discharged | refuted | undecided
    kind: str = "P"  # P (SMT, unbounded) | F (complete finite domain, exact)
    backend: str = "z3"
    ms: float = 0.0
    detail: str = ""
    witness: object = None  # JSON-able concrete counterexample, if one was extracted
    replayed: bool = False  # the witness reproduced the contract failure on the real code
    clause: str = ""


@dataclass
class Deductive:
    obligations: list = field(default_factory=list)  # list[Obl]
    functions: dict = field(default_factory=dict)  # qualname -> {sha256, status, obligations, discharged, ms}
    trusted_base: list = field(default_factory=list)
    assumptions: list = field(default_factory=list)
    dropped: list = field(default_factory=list)
    canaries: list = field(default_factory=list)  # [{name, refuted: bool, replayed: bool}]
    inlined: list = field(default_factory=list)
    notes: list = field(default_factory=list)
    not_applicable_clauses: list = field(default_factory=list)
    errors: list = field(default_factory=list)  # internal errors (exit 3)


def sha(s: str) -> str:
    return hashlib.sha256(s.encode()).hexdigest()


def jdump(obj, path):
    os.makedirs(os.path.dirname(path), exist_ok=True)
    tmp = path + ".tmp"
    with open(tmp, "w") as f:
        json.dump(obj, f, indent=1, sort_keys=False, default=_default)
        f.write("\n")
    os.replace(tmp, path)


def _default(o):
    try:
        import numpy as np

        if isinstance(o, np.integer):
            return int(o)
        if isinstance(o, np.floating):
            return float(o)
        if isinstance(o, np.ndarray):
            return o.tolist()
        if isinstance(o, complex):
            return [o.real, o.imag]
    except Exception:
        pass
    if isinstance(o, (set, frozenset)):
        return sorted(o)
    return str(o)


# -------------------------------------------------------------------------------------------
# known findings
# -------------------------------------------------------------------------------------------

def load_known(prop):
    p = os.path.join(ROOT, "KNOWN_FINDINGS.json")
    if not os.path.exists(p):
        return []
    data = json.load(open(p))
    out = [e for e in data.get("entries", []) if e.get("property") == prop and e.get("kind") == "finding"]
    for e in out:  # index for fast exact matching
        m = e.get("match", {})
        inputs = list(m.get("inputs", []))
        if "input" in m:
            inputs.append(m["input"])
        e["_index"] = {json.dumps(_norm(x), sort_keys=True) for x in inputs}
        obs = list(m.get("obligations", []))
        if "obligation" in m:
            obs.append(m["obligation"])
        e["_obls"] = set(obs)
    return out


def _norm(x):
    return json.loads(json.dumps(x, sort_keys=True, default=_default))


def match_known(known, *, item=None, inp=None, obligation=None):
    """A failure is a known finding only if it is the *listed* input of the listed item (or a listed obligation name of a
    deductive obligation).  Anything else of the same property still alarms."""
    key = json.dumps(_norm(inp), sort_keys=True) if item is not None else None
    for e in known:
        m = e.get("match", {})
        if obligation is not None and obligation in e["_obls"]:
            return e
        if item is not None and m.get("item") == item and key in e["_index"]:
            return e
    return None
