"""L2 lemma SUM_SUPPORT2 ("sum collapse for rows/columns with at most two non-zero entries"), proved once per run by
explicit induction in z3, and the reading of the matrix product it justifies.

SUM_SUPPORT2.  Let F(0)=0, F(m+1)=F(m)+f(m) for m>=0 (f arbitrary, p, q arbitrary integers).  Then for every N>=0:
        (forall j, 0<=j<N, j!=p, j!=q:  f(j)=0)   ==>   F(N) = [0<=p<N] f(p) + [q!=p][0<=q<N] f(q).
   base:  N=0: both sides are 0
   step:  for N>=0:  [ (forall j<N, j not in {p,q}: f(j)=0) -> F(N)=C(N) ]  and  (forall j<N+1, j not in {p,q}: f(j)=0)
          ->  F(N+1)=C(N+1)                                 (C = the closed form on the right)
f, F, p, q are uninterpreted, so the result holds for all of them; p=q gives the single-entry case, and a support point
outside [0,N) contributes nothing (so "at most two" covers "exactly one" and "none").

Use (pyvc.models.matmul): (A@B)[i,k] = sum_{j<N} A[i,j]*B[j,k] is the [A] reading of numpy's matrix product (S2: exact
arithmetic on integer-valued entries).  With f(j) = A[i,j]*B[j,k] the premise is *proved* at a skolem (i,k,j) as an
obligation of the calling task (`...:matmul.support#n`); the product is then represented by the closed form.  The support
points come from the contract author (hook `matmul_support`) - they are hints only: a wrong hint fails the obligation.
"""
from __future__ import annotations

import time

import z3

from vf.core import Obl


def closed_form(f, pts, N):
    """[0<=p<N] f(p) + [q!=p][0<=q<N] f(q)  for pts = [p] or [p, q] (terms); [] gives 0"""
    out = z3.IntVal(0)
    seen = []
    for p in pts:
        c = z3.And(p >= 0, p < N, *[p != s for s in seen])
        out = out + z3.If(c, f(p), z3.IntVal(0))
        seen.append(p)
    return out


def prove_sum_support2():
    out = []
    Int = z3.IntSort()
    f = z3.Function("f", Int, Int)
    F = z3.Function("F", Int, Int)
    m, j, N, p, q = z3.Ints("m j N p q")
    defs = [F(0) == 0, z3.ForAll([m], z3.Implies(m >= 0, F(m + 1) == F(m) + f(m)))]

    def prem(n):
        return z3.ForAll([j], z3.Implies(z3.And(j >= 0, j < n, j != p, j != q), f(j) == 0))

    def C(n):
        return closed_form(f, [p, q], n)

    for name, goal in [
        ("base", F(0) == C(z3.IntVal(0))),
        ("step", z3.Implies(z3.And(N >= 0, z3.Implies(prem(N), F(N) == C(N)), prem(N + 1)), F(N + 1) == C(N + 1))),
    ]:
        s = z3.Solver()
        s.set("timeout", 10000)
        s.add(*defs)
        s.add(z3.Not(goal))
        t0 = time.time()
        r = s.check()
        out.append(Obl(name=f"L2.sum_support2.{name}", function="lemma:sum-collapse-two-point-support", kind="P", backend="z3",
                       status="discharged" if r == z3.unsat else ("refuted" if r == z3.sat else "undecided"),
                       ms=(time.time() - t0) * 1000, detail="" if r == z3.unsat else str(r),
                       clause="induction " + name + " of SUM_SUPPORT2 (a sum whose terms vanish off {p,q} equals the terms at p and q): "
                              "justifies the closed form of matrix products with permutation / single-entry matrices"))
    return out


def canary():
    """the same induction with a WRONG closed form (the term at q dropped) must NOT go through"""
    Int = z3.IntSort()
    f, F = z3.Function("f", Int, Int), z3.Function("F", Int, Int)
    m, j, N, p, q = z3.Ints("m j N p q")
    defs = [F(0) == 0, z3.ForAll([m], z3.Implies(m >= 0, F(m + 1) == F(m) + f(m)))]

    def prem(n):
        return z3.ForAll([j], z3.Implies(z3.And(j >= 0, j < n, j != p, j != q), f(j) == 0))

    def C(n):
        return closed_form(f, [p], n)

    s = z3.Solver()
    s.set("timeout", 5000)
    s.add(*defs)
    s.add(z3.Not(z3.Implies(z3.And(N >= 0, z3.Implies(prem(N), F(N) == C(N)), prem(N + 1)), F(N + 1) == C(N + 1))))
    r = s.check()
    return {"name": "canary.L2.sum_support2.term-at-q-dropped", "function": "lemma:sum-collapse-two-point-support",
            "refuted": r != z3.unsat, "replayed": r == z3.sat}


if __name__ == "__main__":
    print(canary())
    for o in prove_sum_support2():
        print(o.name, o.status, round(o.ms, 1))
