"""Differential self-test of the [A] list models of pyvc/gateseq.py against Python's own list semantics: concatenation, reversal,
letter-wise map, inverse circuit, constant-name image of a position list, append / extend / reverse in place - evaluated on concrete
random gate lists (closed z3 terms, simplified) and compared element by element.  A disagreement is a checker error."""
from __future__ import annotations

import numpy as np
import z3

from pyvc import gateseq as GS


def _concrete(s: GS.GateSeq):
    n = z3.simplify(s.length).as_long()
    return [(GS.NAMES[z3.simplify(s.name(z3.IntVal(k))).as_long()], z3.simplify(s.qubit(z3.IntVal(k))).as_long()) for k in range(n)]


def run(seed=0, cases=60):
    rng = np.random.default_rng(seed)
    fails = []

    def rnd():
        return [(GS.NAMES[int(rng.integers(0, 6))], int(rng.integers(0, 5))) for _ in range(int(rng.integers(0, 5)))]

    for _ in range(cases):
        a, b = rnd(), rnd()
        A, B = GS.from_items(a), GS.from_items(b)
        checks = [
            ("from_items", _concrete(A), a),
            ("concat", _concrete(GS.concat(A, B)), a + b),
            ("concat(list, seq)", _concrete(GS.concat(a, B)), a + b),
            ("reverse", _concrete(GS.reverse(A)), a[::-1]),
            ("map inverse", _concrete(GS.map_names(A, GS.INVERSE)), [(GS.INVERSE[n], q) for n, q in a]),
            ("inverse_of", _concrete(GS.inverse_of(A)), [(GS.INVERSE[n], q) for n, q in reversed(a)]),
            ("a + b + inverse(b)", _concrete(GS.concat(GS.concat(A, B), GS.inverse_of(B))), a + b + [(GS.INVERSE[n], q) for n, q in reversed(b)]),
        ]
        ps = GS.PosSeq(z3.IntVal(len(a)), lambda k, _a=a: GS.from_items(_a).qubit(k), "p")
        checks.append(("const_over", _concrete(GS.const_over("P_dag", ps)), [("P_dag", q) for _n, q in a]))
        C = A.copy()
        for meth, arg, want in (("append", ("Z", 7), a + [("Z", 7)]), ("extend", b, a + [("Z", 7)] + b), ("reverse", None, (a + [("Z", 7)] + b)[::-1])):
            f = GS.getattr_hook(None, C, meth).fn
            f(None, arg) if arg is not None else f(None)
            checks.append((f"in-place {meth}", _concrete(C), want))
        checks.append(("copy unaffected by in-place ops", _concrete(A), a))
        for name, got, want in checks:
            if got != want:
                fails.append(f"{name}: model {got} != python {want}")
    # np.diag model (contracts/graph_finder.py) and the list facts used by contracts/row_reduction.py, against numpy / Python
    from pyvc.schema import const_nd
    from contracts import graph_finder as GFM

    for _ in range(20):
        m = rng.integers(-2, 3, size=(3, 3))
        d = GFM._np_diag(None, const_nd(m))
        got = [z3.simplify(d.get(z3.IntVal(k))).as_long() for k in range(3)]
        if got != np.diag(m).tolist():
            fails.append(f"np.diag: model {got} != numpy {np.diag(m).tolist()}")
        l = [int(x) for x in rng.integers(0, 3, size=int(rng.integers(1, 5)))]
        l2 = list(l)
        l2.remove(l2[0])
        if l2 != l[1:]:
            fails.append(f"l.remove(l[0]) != l[1:] for {l}")
        lo, hi = int(rng.integers(0, 3)), int(rng.integers(2, 6))
        col = [int(x) for x in rng.integers(0, 2, size=6)]
        hits = [i for i in range(lo, hi) if col[i] == 1]
        if hits != sorted(hits) or any(not (lo <= h < hi and col[h] == 1) for h in hits) or len(set(hits)) != len(hits):
            fails.append("filtered range is not the increasing enumeration of the hits")
    return cases * 12 + 60, fails


def attach(d, seed=0):
    try:
        n, fails = run(seed)
    except Exception as e:  # noqa: BLE001
        d.errors.append(f"gate-list [A]-model self-test crashed: {type(e).__name__}: {e}")
        return
    if fails:
        d.errors.append("gate-list [A]-model self-test disagrees with Python list semantics: " + "; ".join(fails[:4]))
    else:
        d.notes.append(f"gate-list [A]-model differential self-test (lemmas/gateseq_checks.py): {n} concrete comparisons agree with Python lists")
