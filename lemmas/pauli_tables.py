"""L3 bridging lemmas [F]: the bit-level rules used in the contracts equal the textbook matrix facts.

Complete finite domains, exact arithmetic: all matrices involved have entries in Z[i] after scaling H by sqrt(2)
(H' = sqrt(2) H has integer entries and U P U^dagger = H' P H' / 2), so numpy complex arrays holding small Gaussian
integers are exact.  The matrices are written here from the textbook definitions - not taken from graphiq - and are ALSO
compared with graphiq's own dm matrices (dmf.hadamard() etc.), which ties the two backends to the same unitaries.
"""
from __future__ import annotations

import itertools
import time

import numpy as np
import z3

from vf.core import Obl

I2 = np.eye(2, dtype=complex)
X = np.array([[0, 1], [1, 0]], dtype=complex)
Y = np.array([[0, -1j], [1j, 0]], dtype=complex)
Z = np.array([[1, 0], [0, -1]], dtype=complex)
Hs = np.array([[1, 1], [1, -1]], dtype=complex)  # sqrt(2) * H
P = np.array([[1, 0], [0, 1j]], dtype=complex)
SIG = {(0, 0): I2, (1, 0): X, (1, 1): Y, (0, 1): Z}
# (unitary numerator U', scale s) with U = U'/sqrt(s):  U P U^dag = U' P U'^dag / s
GATE1 = {
    "hadamard_gate": (Hs, 2), "phase_gate": (P, 1), "phase_dagger_gate": (P.conj().T, 1),
    "x_gate": (X, 1), "y_gate": (Y, 1), "z_gate": (Z, 1),
}
CX = np.zeros((4, 4), dtype=complex)
CX[0, 0] = CX[1, 1] = CX[2, 3] = CX[3, 2] = 1
CZm = np.diag([1, 1, 1, -1]).astype(complex)
GATE2 = {"cnot_gate": CX, "control_z_gate": CZm}


def _ival(t):
    v = z3.simplify(t) if isinstance(t, z3.ExprRef) else t
    if isinstance(v, z3.ExprRef):
        assert z3.is_int_value(v), v
        return v.as_long()
    return int(v)


def obligations():
    from contracts import stab_gates as G

    out = []

    def add(name, fn, ok, detail="", t0=None, clause=""):
        out.append(Obl(name=name, function=fn, status="discharged" if ok else "refuted", kind="F", backend="exact",
                       ms=(time.time() - t0) * 1000 if t0 else 0.0, detail=detail, clause=clause,
                       witness=None if ok else {"detail": detail}, replayed=not ok))

    # ---- one-qubit rules: all 4 Paulis x both signs
    for name, rule in G.RULES1.items():
        t0 = time.time()
        U, s = GATE1[name]
        bad = []
        for (x, z), r in itertools.product(SIG, (0, 1)):
            x2, z2, r2 = (_ival(v) for v in rule(z3.IntVal(x), z3.IntVal(z), z3.IntVal(r)))
            lhs = U @ ((-1) ** r * SIG[(x, z)]) @ U.conj().T / s
            rhs = (-1) ** r2 * SIG[(x2, z2)]
            if not np.array_equal(lhs, rhs):
                bad.append(((x, z, r), (x2, z2, r2)))
        add(f"L3.conj.{name}", f"graphiq.backends.stabilizer.functions.transformation:{name}", not bad,
            f"rule disagrees with U P U^dagger for {bad}" if bad else "", t0,
            "contract rule == conjugation by the textbook matrix on all 8 signed one-qubit Paulis")
    # ---- two-qubit rules: all 16 Paulis x both signs; qubit order (control, target)
    for name, rule in G.RULES2.items():
        t0 = time.time()
        U = GATE2[name]
        bad = []
        for xc, zc, xt, zt, r in itertools.product((0, 1), repeat=5):
            res = rule(*(z3.IntVal(v) for v in (xc, zc, xt, zt, r)))
            xc2, zc2, xt2, zt2, r2 = (_ival(v) for v in res)
            lhs = U @ ((-1) ** r * np.kron(SIG[(xc, zc)], SIG[(xt, zt)])) @ U.conj().T
            rhs = (-1) ** r2 * np.kron(SIG[(xc2, zc2)], SIG[(xt2, zt2)])
            if not np.array_equal(lhs, rhs):
                bad.append((xc, zc, xt, zt, r))
        add(f"L3.conj.{name}", f"graphiq.backends.stabilizer.functions.transformation:{name}", not bad,
            f"rule disagrees with U P U^dagger for {bad}" if bad else "", t0,
            "contract rule == conjugation by the textbook 4x4 matrix on all 32 signed two-qubit Paulis")
    # ---- g function: sigma1 * sigma2 = i^g * sigma(x1^x2, z1^z2)
    t0 = time.time()
    bad = []
    for x1, z1, x2, z2 in itertools.product((0, 1), repeat=4):
        g = _ival(G.g_term(z3.IntVal(x1), z3.IntVal(z1), z3.IntVal(x2), z3.IntVal(z2)))
        lhs = SIG[(x1, z1)] @ SIG[(x2, z2)]
        # Y-convention: sigma(1,1) = Y = i X Z; in the AG tableau a row denotes i^{x.z} X^x Z^z, product phases add
        rhs = (1j) ** g * SIG[(x1 ^ x2, z1 ^ z2)]
        if not np.allclose(lhs, rhs):
            bad.append((x1, z1, x2, z2, g))
    add("L3.g.table", "graphiq.backends.stabilizer.functions.linalg:g_function", not bad,
        f"g disagrees with the Pauli product for {bad}" if bad else "", t0,
        "sigma(x1,z1) sigma(x2,z2) = i^g sigma(x1^x2, z1^z2) on all 16 pairs")
    # ---- graphiq's density-matrix gate matrices are the textbook ones (ties both backends to the same unitaries)
    t0 = time.time()
    try:
        import graphiq.backends.density_matrix.functions as dmf

        pairs = {"hadamard": Hs / np.sqrt(2), "phase": P, "phase_dag": P.conj().T, "sigmax": X, "sigmay": Y, "sigmaz": Z,
                 "identity": I2}
        bad = [k for k, M in pairs.items() if not np.allclose(getattr(dmf, k)(), M, atol=1e-15)]
        add("L3.dm.matrices", "graphiq.backends.density_matrix.functions:hadamard", not bad,
            f"dm matrices differ from the textbook: {bad}" if bad else "", t0,
            "dmf.hadamard/phase/phase_dag/sigmax/sigmay/sigmaz/identity are the textbook 2x2 matrices (float64, 1e-15)")
    except Exception as e:  # noqa: BLE001
        out.append(Obl(name="L3.dm.matrices", function="graphiq.backends.density_matrix.functions:hadamard",
                       status="undecided", kind="F", backend="exact", detail=f"{type(e).__name__}: {e}"))
    return out
