"""C07 invariant: Valid(T) ==> Valid(T') for every gate contract (unbounded n), as a lemma over the contracts.

Valid(T):  all entries are bits, and for all rows a, b:  SP(a,b) = [ |a-b| = n ]  with
           SP(a,b) = sum_{j<n} ( x_aj z_bj + z_aj x_bj )  (mod 2).
The gate contracts (contracts/stab_gates.py RULES1 / RULES2) give every new entry as a function of the old entries of the
SAME row.  For two arbitrary rows a, b (uninterpreted bit functions of the column) we prove:
   one-qubit rule at column q :  term'(j) == term(j) (mod 2) for every j            (pointwise, QF)
   two-qubit rule at c != t   :  term'(j) == term(j) for j not in {c,t}  and  term'(c)+term'(t) == term(c)+term(t) (mod 2)
and, once and for all by explicit induction over the number of summed columns (f, g, F, G uninterpreted):
   SUM_CONG2:  (forall j<N: f(j) == g(j) mod 2)                                              ==>  F(N) == G(N) mod 2
   SUM_PAIR2:  c != t in [0,N), f = g off {c,t}, f(c)+f(t) == g(c)+g(t) mod 2                ==>  F(N) == G(N) mod 2
Hence SP'(a,b) = SP(a,b) for all a, b; rows are not permuted by gates, so the pairing relation and Valid are preserved.
(The harness applies the two sum lemmas by modus ponens: premises are the QF obligations above.)
Bits: every rule maps bits to bits (QF obligation per rule).
"""
from __future__ import annotations

import time

import z3

from vf.core import Obl

Int = z3.IntSort()


def _ob(name, fn, assumptions, goal, clause, timeout=10000):
    s = z3.Solver()
    s.set("timeout", timeout)
    for a in assumptions:
        s.add(a)
    s.add(z3.Not(goal))
    t0 = time.time()
    r = s.check()
    ms = (time.time() - t0) * 1000
    st = "discharged" if r == z3.unsat else ("refuted" if r == z3.sat else "undecided")
    return Obl(name=name, function=fn, status=st, kind="P", backend="z3", ms=ms,
               detail="" if r == z3.unsat else (str(s.model())[:800] if r == z3.sat else s.reason_unknown()), clause=clause)


def prove_sum_lemmas():
    out = []
    f, g = z3.Function("f", Int, Int), z3.Function("g", Int, Int)
    F, G = z3.Function("F", Int, Int), z3.Function("G", Int, Int)
    m, j, N, c, t = z3.Ints("m j N c t")
    defs = [F(0) == 0, G(0) == 0,
            z3.ForAll([m], z3.Implies(m >= 0, z3.And(F(m + 1) == F(m) + f(m), G(m + 1) == G(m) + g(m))))]
    fn = "lemma:finite-sums-mod-2"
    # SUM_CONG2 by induction on N
    prem = lambda n: z3.ForAll([j], z3.Implies(z3.And(j >= 0, j < n), (f(j) - g(j)) % 2 == 0))
    out.append(_ob("L2.sum_cong2.base", fn, defs, (F(0) - G(0)) % 2 == 0, "SUM_CONG2 base"))
    out.append(_ob("L2.sum_cong2.step", fn, defs + [N >= 0, z3.Implies(prem(N), (F(N) - G(N)) % 2 == 0), prem(N + 1)],
                   (F(N + 1) - G(N + 1)) % 2 == 0, "SUM_CONG2 induction step"))
    # SUM_PAIR2 through the invariant  D(m) == [c<m](f(c)-g(c)) + [t<m](f(t)-g(t))  (mod 2)
    dc = lambda k: z3.If(c < k, f(c) - g(c), 0) + z3.If(t < k, f(t) - g(t), 0)
    off = z3.ForAll([j], z3.Implies(z3.And(j >= 0, j != c, j != t), f(j) == g(j)))
    base_asm = defs + [c >= 0, t >= 0, c != t, off]
    out.append(_ob("L2.sum_pair2.base", fn, base_asm, (F(0) - G(0) - dc(0)) % 2 == 0, "SUM_PAIR2 invariant base"))
    # explicit unfolding (DESIGN 2.3): the instances of the defining equations and of the `off` premise at m = j = N
    inst = [F(N + 1) == F(N) + f(N), G(N + 1) == G(N) + g(N), z3.Implies(z3.And(N != c, N != t), f(N) == g(N)),
            c >= 0, t >= 0, c != t]
    out.append(_ob("L2.sum_pair2.step", fn, inst + [N >= 0, (F(N) - G(N) - dc(N)) % 2 == 0],
                   (F(N + 1) - G(N + 1) - dc(N + 1)) % 2 == 0, "SUM_PAIR2 invariant induction step (instances supplied explicitly)"))
    out.append(_ob("L2.sum_pair2.use", fn, base_asm + [c < N, t < N, (F(N) - G(N) - dc(N)) % 2 == 0,
                                                       (f(c) + f(t) - g(c) - g(t)) % 2 == 0],
                   (F(N) - G(N)) % 2 == 0, "SUM_PAIR2: invariant at N gives the conclusion"))
    return out


def _bitfun(name):
    B = z3.Function(name, Int, z3.BoolSort())
    return lambda j: z3.If(B(j), z3.IntVal(1), z3.IntVal(0))


def prove_gate_invariance():
    """per gate rule: bits -> bits, and the symplectic term congruences for two arbitrary rows a, b"""
    from contracts import stab_gates as G

    out = []
    xa, za, xb, zb = _bitfun("xa"), _bitfun("za"), _bitfun("xb"), _bitfun("zb")
    ra, rb = z3.Int("ra"), z3.Int("rb")
    j, q, c, t = z3.Ints("j q c t")
    bit = lambda v: z3.And(v >= 0, v <= 1)
    TR = "graphiq.backends.stabilizer.functions.transformation"
    term = lambda j_: xa(j_) * zb(j_) + za(j_) * xb(j_)
    for name, rule in G.RULES1.items():
        fn = f"{TR}:{name}"

        def new(xf, zf, r):
            x2, z2, r2 = rule(xf(q), zf(q), r)
            return (lambda j_: z3.If(j_ == q, x2, xf(j_))), (lambda j_: z3.If(j_ == q, z2, zf(j_))), r2

        xa2, za2, ra2 = new(xa, za, ra)
        xb2, zb2, rb2 = new(xb, zb, rb)
        out.append(_ob(f"L2.valid.{name}.bits", fn, [bit(ra)], z3.And(bit(xa2(j)), bit(za2(j)), bit(ra2)),
                       "gate rule maps bit entries (and the sign bit) to bits"))
        term2 = xa2(j) * zb2(j) + za2(j) * xb2(j)
        out.append(_ob(f"L2.valid.{name}.symplectic-term", fn, [], (term2 - term(j)) % 2 == 0,
                       "every column's contribution to the symplectic product of two arbitrary rows is unchanged mod 2 "
                       "(with SUM_CONG2: SP'(a,b) = SP(a,b) for all rows, all n)"))
    for name, rule in G.RULES2.items():
        fn = f"{TR}:{name}"

        def new2(xf, zf, r):
            xc, zc, xt, zt, r2 = rule(xf(c), zf(c), xf(t), zf(t), r)
            return (lambda j_: z3.If(j_ == c, xc, z3.If(j_ == t, xt, xf(j_)))), \
                   (lambda j_: z3.If(j_ == c, zc, z3.If(j_ == t, zt, zf(j_)))), r2

        xa2, za2, ra2 = new2(xa, za, ra)
        xb2, zb2, rb2 = new2(xb, zb, rb)
        term2 = lambda j_: xa2(j_) * zb2(j_) + za2(j_) * xb2(j_)
        out.append(_ob(f"L2.valid.{name}.bits", fn, [bit(ra), c != t], z3.And(bit(xa2(j)), bit(za2(j)), bit(ra2)),
                       "gate rule maps bit entries (and the sign bit) to bits"))
        out.append(_ob(f"L2.valid.{name}.symplectic-off-columns", fn, [c != t, j != c, j != t], term2(j) == term(j),
                       "columns other than control/target contribute unchanged terms"))
        out.append(_ob(f"L2.valid.{name}.symplectic-pair", fn, [c != t],
                       (term2(c) + term2(t) - term(c) - term(t)) % 2 == 0,
                       "the control and target columns' joint contribution is unchanged mod 2 (with SUM_PAIR2: SP' = SP)"))
    return out


def obligations():
    return prove_sum_lemmas() + prove_gate_invariance()


# ------------------------------------------------------------------------------------------------------------------
# measurement: Valid(T) ==> Valid(T') for the random-outcome branch of the z_measurement_gate contract
# ------------------------------------------------------------------------------------------------------------------

def prove_measurement_invariance():
    """Abstract Aaronson-Gottesman step.  Rows are elements of an abstract GF(2) vector space with a symmetric bilinear form
    SP (its concrete definition is the column sum; bilinearity and SP(row, Z_q) = x_q are the L2 obligations below).
    Old tableau: R(i), 0 <= i < 2n, SP(R(a),R(b)) = [|a-b| = n].  h(i) := SP(R(i), Z) (= x[i,q]).  Pivot p in [n,2n), h(p)=1.
    New tableau (the contract of z_measurement_gate):  R'(p) = Z,  R'(p-n) = R(p),  R'(i) = R(i)+R(p) if h(i)=1 and i != p,
    else R(i).  Claim: SP(R'(a),R'(b)) = [|a-b| = n] for all a, b in [0,2n)."""
    out = []
    Row = z3.DeclareSort("Row")
    SP = z3.Function("SP", Row, Row, z3.BoolSort())
    add = z3.Function("radd", Row, Row, Row)
    R = z3.Function("R", Int, Row)
    Z = z3.Const("Zq", Row)
    u, v, w = z3.Consts("u v w", Row)
    n, p, a, b = z3.Ints("n p a b")
    ax = [
        z3.ForAll([u, v], SP(u, v) == SP(v, u)),
        z3.ForAll([u, v, w], SP(add(u, v), w) == z3.Xor(SP(u, w), SP(v, w))),
        z3.Not(SP(Z, Z)),
        z3.ForAll([u], z3.Not(SP(u, u))),  # the symplectic form is alternating
    ]
    i, k = z3.Ints("i k")
    valid_old = z3.ForAll([i, k], z3.Implies(z3.And(i >= 0, i < 2 * n, k >= 0, k < 2 * n),
                                            SP(R(i), R(k)) == z3.Or(i - k == n, k - i == n)))
    h = lambda t: SP(R(t), Z)
    newrow = lambda t: z3.If(t == p, Z, z3.If(t == p - n, R(p), z3.If(z3.And(h(t), t != p), add(R(t), R(p)), R(t))))
    asm = ax + [valid_old, n >= 1, p >= n, p < 2 * n, h(p), a >= 0, a < 2 * n, b >= 0, b < 2 * n]
    goal = SP(newrow(a), newrow(b)) == z3.Or(a - b == n, b - a == n)
    out.append(_ob("L2.valid.z_measurement_gate.abstract-AG-step", "graphiq.backends.stabilizer.functions.clifford:z_measurement_gate",
                   asm, goal, "post-measurement rows of the contract satisfy the pairing relation for all a, b (abstract "
                              "symmetric alternating bilinear form; unbounded n)", timeout=30000))
    # vacuity guard: the same claim with the (p-n) row update dropped must NOT be provable (else the axioms are inconsistent)
    bad_row = lambda t: z3.If(t == p, Z, z3.If(z3.And(h(t), t != p), add(R(t), R(p)), R(t)))
    c_ = _ob("canary", "x", asm, SP(bad_row(a), bad_row(b)) == z3.Or(a - b == n, b - a == n), "", timeout=3000)
    out.append(Obl(name="L2.valid.z_measurement_gate.abstract-AG-step.canary-not-provable",
                   function="graphiq.backends.stabilizer.functions.clifford:z_measurement_gate", kind="P", backend="z3",
                   status="discharged" if c_.status != "discharged" else "refuted", ms=c_.ms,
                   detail="" if c_.status != "discharged" else "the wrong update rule is provable too: axioms inconsistent",
                   clause="vacuity guard of the abstract AG step"))
    # concrete facts behind the abstraction: bilinearity term-wise and SP(row, Z_q) = x_q (single-entry sum collapse)
    xa, za, xb, zb, xc, zc = (_bitfun(nm) for nm in ("xa", "za", "xb", "zb", "xc", "zc"))
    j, q, N, m = z3.Ints("j q N m")
    lhs = ((xa(j) + xb(j)) % 2) * zc(j) + ((za(j) + zb(j)) % 2) * xc(j)
    rhs = (xa(j) * zc(j) + za(j) * xc(j)) + (xb(j) * zc(j) + zb(j) * xc(j))
    out.append(_ob("L2.symplectic.bilinear-term", "lemma:symplectic-form", [], (lhs - rhs) % 2 == 0,
                   "column term of SP(row_a (+) row_b, row_c) == term(a,c) + term(b,c) mod 2 (with SUM_CONG2: bilinearity)"))
    out.append(_ob("L2.symplectic.alternating-term", "lemma:symplectic-form", [], (xa(j) * za(j) + za(j) * xa(j)) % 2 == 0,
                   "column term of SP(row, row) is even: the form is alternating"))
    # SUM_SINGLE: g vanishes off q  ==>  G(N) = g(q) for q < N  (invariant G(m) = If(q < m, g(q), 0))
    g_, G_ = z3.Function("g", Int, Int), z3.Function("G", Int, Int)
    inst = [G_(N + 1) == G_(N) + g_(N), z3.Implies(N != q, g_(N) == 0), q >= 0, N >= 0]
    inv = lambda k_: G_(k_) == z3.If(q < k_, g_(q), 0)
    out.append(_ob("L2.sum_single.base", "lemma:finite-sums-mod-2", [G_(0) == 0, q >= 0], inv(z3.IntVal(0)), "SUM_SINGLE base"))
    out.append(_ob("L2.sum_single.step", "lemma:finite-sums-mod-2", inst + [inv(N)], inv(N + 1), "SUM_SINGLE induction step"))
    # term of SP(row_a, Z_q) vanishes off column q and equals x_a(q) there
    zq = lambda j_: z3.If(j_ == q, z3.IntVal(1), z3.IntVal(0))
    t_ = xa(j) * zq(j) + za(j) * 0
    out.append(_ob("L2.symplectic.row-vs-Zq", "lemma:symplectic-form", [], t_ == z3.If(j == q, xa(q), 0),
                   "column term of SP(row, Z_q) is x_q at column q and 0 elsewhere (with SUM_SINGLE: SP(row, Z_q) = x[row,q])"))
    return out


def obligations():
    return prove_sum_lemmas() + prove_gate_invariance() + prove_measurement_invariance()
