"""Reference semantics of openQASM 2.0 gate DEFINITIONS for the subset graphiq emits, in exact arithmetic (Q(i, sqrt2)).

Written from the openQASM 2.0 specification (arXiv:1707.03429), independent of graphiq:
  * `gate name(params) q1, q2 { stmt; stmt; ... }` - the body's statements are applied TOP TO BOTTOM (the first statement acts
    first), i.e. the gate's matrix is  S_k ... S_2 S_1;
  * built-ins  U(theta, phi, lambda) q = [[cos(t/2), -e^{i lambda} sin(t/2)], [e^{i phi} sin(t/2), e^{i(phi+lambda)} cos(t/2)]]
    and CX c, t;  a statement `g q;` applies the previously defined gate g.
Angles must be rational multiples of pi whose half-angles are multiples of pi/4 (true for every definition graphiq emits for
Clifford gates); anything else raises `Unsupported` (the caller reports the clause undecided, never a verdict).
"""
from __future__ import annotations

import ast
import re
from fractions import Fraction as Fr

import numpy as np

from . import q8
from .q8 import Q8, ZERO, ONE, OMEGA


class Unsupported(Exception):
    pass


def angle(expr):
    """expression in pi -> Fraction coefficient c with angle = c*pi"""
    try:
        tree = ast.parse(expr.strip(), mode="eval").body
    except SyntaxError:
        raise Unsupported(f"angle {expr!r}")

    def ev(n):  # -> ("pi", coeff) | ("num", value)
        if isinstance(n, ast.Name) and n.id == "pi":
            return ("pi", Fr(1))
        if isinstance(n, ast.Constant) and isinstance(n.value, (int, float)):
            return ("num", Fr(n.value))
        if isinstance(n, ast.UnaryOp) and isinstance(n.op, (ast.USub, ast.UAdd)):
            k, v = ev(n.operand)
            return (k, -v if isinstance(n.op, ast.USub) else v)
        if isinstance(n, ast.BinOp):
            (ka, a), (kb, b) = ev(n.left), ev(n.right)
            if isinstance(n.op, ast.Div) and kb == "num" and b != 0:
                return (ka, a / b)
            if isinstance(n.op, ast.Mult):
                if ka == "pi" and kb == "pi":
                    raise Unsupported("pi*pi")
                return ("pi" if "pi" in (ka, kb) else "num", a * b)
            if isinstance(n.op, (ast.Add, ast.Sub)):
                if ka != kb and not (a == 0 or b == 0):
                    raise Unsupported("pi + number")
                return (ka if a != 0 else kb, a + b if isinstance(n.op, ast.Add) else a - b)
        raise Unsupported(f"angle {expr!r}")

    k, v = ev(tree)
    if k == "num" and v != 0:
        raise Unsupported(f"angle {expr!r} is not a multiple of pi")
    return v


def _omega_pow(k):
    k %= 8
    z = ONE
    for _ in range(k):
        z = z * OMEGA
    return z


def expi(c):
    """e^{i c pi} for c a multiple of 1/4"""
    k = c * 4
    if k.denominator != 1:
        raise Unsupported(f"angle {c}*pi is not a multiple of pi/4")
    return _omega_pow(int(k))


def u_gate(theta, phi, lam):
    half = theta / 2
    e = expi(half)  # cos(theta/2) + i sin(theta/2)
    c = Q8(e.a, e.b)
    s = Q8(e.c, e.d)
    return q8.mat([[c, -(expi(lam) * s)], [expi(phi) * s, expi(phi + lam) * c]])


I2 = q8.mat([[1, 0], [0, 1]])
CX4 = q8.mat([[1, 0, 0, 0], [0, 1, 0, 0], [0, 0, 0, 1], [0, 0, 1, 0]])  # first qubit (most significant) controls


def kron(A, B):
    n, m = A.shape[0], B.shape[0]
    out = np.empty((n * m, n * m), dtype=object)
    for i in range(n):
        for j in range(n):
            for k in range(m):
                for l in range(m):
                    out[i * m + k, j * m + l] = A[i, j] * B[k, l]
    return out


SWAP4 = q8.mat([[1, 0, 0, 0], [0, 0, 1, 0], [0, 1, 0, 0], [0, 0, 0, 1]])

GATE_RE = re.compile(r"gate\s+(\w+)\s*(?:\(([^)]*)\))?\s*([\w\s,]+?)\s*\{([^}]*)\}", re.S)


class Defs:
    """gate definitions accumulated in file order"""

    def __init__(self):
        self.gates = {}  # name -> (formals, [statements])
        self.order = []

    def add_text(self, text):
        found = 0
        for m in GATE_RE.finditer(text):
            name, params, formals, body = m.group(1), m.group(2), m.group(3), m.group(4)
            formals = [f.strip() for f in formals.split(",") if f.strip()]
            stmts = [s.strip() for s in body.split(";") if s.strip()]
            self.gates[name] = (formals, stmts, params)
            self.order.append(name)
            found += 1
        return found

    def body_calls(self, name):
        """names applied by the body, top to bottom (U / CX included)"""
        return [re.match(r"(\w+)", s).group(1) for s in self.gates[name][1]]

    def matrix(self, name, depth=0):
        if depth > 20:
            raise Unsupported("recursive gate definition")
        if name not in self.gates:
            raise Unsupported(f"gate {name} is not defined")
        formals, stmts, params = self.gates[name]
        if params:
            raise Unsupported(f"parameterised gate {name}")
        n = len(formals)
        if n not in (1, 2):
            raise Unsupported(f"{n}-qubit gate")
        M = I2 if n == 1 else kron(I2, I2)
        for s in stmts:
            m = re.fullmatch(r"U\s*\((.*)\)\s*(\w+)", s, re.S)
            if m:
                args = [a for a in m.group(1).split(",")]
                if len(args) != 3:
                    raise Unsupported(f"U with {len(args)} arguments")
                g1 = u_gate(*(angle(a) for a in args))
                S = self._lift1(g1, formals, m.group(2))
            else:
                m = re.fullmatch(r"CX\s+(\w+)\s*,\s*(\w+)", s)
                if m:
                    if n != 2 or {m.group(1), m.group(2)} != set(formals):
                        raise Unsupported(f"CX operands {s!r}")
                    S = CX4 if m.group(1) == formals[0] else q8.mm(q8.mm(SWAP4, CX4), SWAP4)
                else:
                    m = re.fullmatch(r"(\w+)\s+(\w+)", s)
                    if not m:
                        raise Unsupported(f"statement {s!r}")
                    g1 = self.matrix(m.group(1), depth + 1)
                    if g1.shape != (2, 2):
                        raise Unsupported("call of a two-qubit gate inside a body")
                    S = self._lift1(g1, formals, m.group(2))
            M = q8.mm(S, M)  # later statements act later: multiply on the left
        return M

    @staticmethod
    def _lift1(g, formals, q):
        if q not in formals:
            raise Unsupported(f"unknown qubit {q}")
        if len(formals) == 1:
            return g
        return kron(g, I2) if formals.index(q) == 0 else kron(I2, g)


def equivalent(A, B):
    """A = lambda B, |lambda| = 1, exactly (any size; A, B unitary)"""
    if A.shape != B.shape:
        return False
    W = q8.mm(A, q8.dagger(B))
    n = A.shape[0]
    s = W[0, 0]
    for i in range(n):
        for j in range(n):
            if (i == j and W[i, j] != s) or (i != j and W[i, j] != ZERO):
                return False
    return s.abs2() == ONE
