"""L2 lemmas about finite sums, proved once per run by explicit induction in z3, and their application points.

SUM_EXT.  Let F(0)=0, F(m+1)=F(m)+f(m) and G(0)=0, G(m+1)=G(m)+g(m) for m>=0 (f, g arbitrary).  Then for every N>=0:
          (forall j, 0<=j<N: f(j)=g(j))  ==>  F(N)=G(N).
Proof obligations (f,g,F,G uninterpreted, so the result holds for all of them):
   base:  F(0)=G(0)
   step:  for N>=0:  [ (forall j<N: f=g) -> F(N)=G(N) ]  and  (forall j<N+1: f(j)=g(j))  ->  F(N+1)=G(N+1)
Application (modus ponens done by the harness, outside the solver): the premise is *proved* for a skolem j as an
obligation of the calling task, then the conclusion F(N)=G(N) is assumed.
"""
from __future__ import annotations

import time

import z3

from vf.core import Obl


def prove_sum_ext():
    out = []
    Int = z3.IntSort()
    f, g = z3.Function("f", Int, Int), z3.Function("g", Int, Int)
    F, G = z3.Function("F", Int, Int), z3.Function("G", Int, Int)
    m, j, N = z3.Ints("m j N")
    defs = [F(0) == 0, G(0) == 0,
            z3.ForAll([m], z3.Implies(m >= 0, z3.And(F(m + 1) == F(m) + f(m), G(m + 1) == G(m) + g(m))))]
    for name, goal in [
        ("base", F(0) == G(0)),
        ("step", z3.Implies(z3.And(N >= 0,
                                   z3.Implies(z3.ForAll([j], z3.Implies(z3.And(j >= 0, j < N), f(j) == g(j))), F(N) == G(N)),
                                   z3.ForAll([j], z3.Implies(z3.And(j >= 0, j < N + 1), f(j) == g(j)))),
                            F(N + 1) == G(N + 1))),
    ]:
        s = z3.Solver()
        s.set("timeout", 10000)
        s.add(*defs)
        s.add(z3.Not(goal))
        t0 = time.time()
        r = s.check()
        out.append(Obl(name=f"L2.sum_ext.{name}", function="lemma:sum-extensionality", kind="P", backend="z3",
                       status="discharged" if r == z3.unsat else ("refuted" if r == z3.sat else "undecided"),
                       ms=(time.time() - t0) * 1000, detail="" if r == z3.unsat else str(r),
                       clause="induction " + name + " of SUM_EXT (used to link a callee's running-sum spec function with the caller's)"))
    return out


def apply_sum_ext(I, label, F_at_N, G_at_N, f, g, N):
    """premise proved at a skolem index (obligation `label`), conclusion assumed"""
    j = I.path.fresh("sj")
    I.path.oblige(label, f(j) == g(j), extra=[j >= 0, j < N])
    I.path.assume(F_at_N == G_at_N)
