"""L2 lemmas about filtered enumerations and counts, proved once per run by explicit induction in z3.

FILTER.  Let p be any predicate on the naturals and let CNT, SEL satisfy the defining equations
             CNT(0) = 0,   CNT(k+1) = CNT(k) + [p(k)],      p(k) -> SEL(CNT(k)) = k          (k >= 0)          (D)
         (pyvc/symlist.py explains why (D) is a conservative extension).  Then for every N >= 0, INV(N):
             (a) 0 <= CNT(N) <= N
             (b) forall m in [0,CNT(N)):  0 <= SEL(m) < N  and  p(SEL(m))
             (c) forall m1 < m2 in [0,CNT(N)):  SEL(m1) < SEL(m2)
             (d) forall i in [0,N) with p(i):  0 <= CNT(i) < CNT(N)  and  SEL(CNT(i)) = i
             (e) forall i in [0,N]:  0 <= CNT(i) <= CNT(N)
         i.e. (CNT(N), SEL) is exactly the increasing enumeration of {k in [0,N): p(k)}.
Proof obligations (p, CNT, SEL uninterpreted, so the result holds for all of them):
   base:  INV(0)                                           from CNT(0) = 0
   step:  N >= 0, INV(N), the two (D) instances at k = N   |-  each conjunct of INV(N+1)
Application: a loop invariant proves that the real loop builds the list (CNT(N), SEL) from instances of (D); INV(N) is
then assumed wherever the list is used (pyvc.symlist.filtered_range).

COUNT_EXT.  Two counts over the same range whose predicates agree pointwise are equal (instance of SUM_EXT, lemmas/sums.py).
"""
from __future__ import annotations

import time

import z3

from vf.core import Obl


def prove_filter():
    from pyvc.symlist import filter_facts, filter_defs

    Int, Bool = z3.IntSort(), z3.BoolSort()
    P = z3.Function("flt_p", Int, Bool)
    CNT, SEL = z3.Function("flt_CNT", Int, Int), z3.Function("flt_SEL", Int, Int)
    N = z3.Int("flt_N")

    def p(k):
        return P(k)

    out = []

    def run(name, hyps, goal, clause):
        s = z3.Solver()
        s.set("timeout", 20000)
        for h in hyps:
            s.add(h)
        s.add(z3.Not(goal))
        t0 = time.time()
        r = s.check()
        out.append(Obl(name=f"L2.filter.{name}", function="lemma:filter-enumeration", kind="P", backend="z3",
                       status="discharged" if r == z3.unsat else ("refuted" if r == z3.sat else "undecided"),
                       ms=(time.time() - t0) * 1000, detail="" if r == z3.unsat else str(r), clause=clause))

    base_h = filter_defs(CNT, SEL, p, None)
    for k, f in enumerate(filter_facts(CNT, SEL, p, z3.IntVal(0), "b")):
        run(f"base.{'abcde'[k]}", base_h, f, "INV(0) of FILTER")
    ih = filter_facts(CNT, SEL, p, N, "h")
    step_h = [N >= 0] + base_h + filter_defs(CNT, SEL, p, N) + ih
    for k, f in enumerate(filter_facts(CNT, SEL, p, N + 1, "g")):
        run(f"step.{'abcde'[k]}", step_h, f,
            "induction step of FILTER: the list built by `for i in range(lo,hi): if p(i): l.append(i)` is the increasing "
            "enumeration of the hits")
    return out
