"""Exact arithmetic in Q(i, sqrt2) = Q(zeta_8) for the finite-domain lemmas of C20 (no floating point anywhere).

An element is a + b*sqrt2 + i*(c + d*sqrt2) with a, b, c, d in Q (fractions.Fraction).  `Q8` implements the field
operations, complex conjugation, the squared modulus (an element of Q(sqrt2)) and an exact sign test for real elements
p + q*sqrt2, so that "|x - y| >= delta" can be decided exactly.

`Q8` also implements the numpy object-array protocol bits that graphiq's own code needs (`__matmul__` of object arrays calls
`*` and `+`; `np.conjugate` calls `.conjugate()`), so graphiq's REAL functions (`local_clifford_to_matrix_map`, ...) can be
executed on exact matrices: python floats/complex that occur as the other operand are converted exactly (every binary float
is a dyadic rational), so nothing is rounded.
"""
from __future__ import annotations

from fractions import Fraction as Fr

import numpy as np


def _fr(x):
    if isinstance(x, Fr):
        return x
    if isinstance(x, (int, np.integer)):
        return Fr(int(x))
    if isinstance(x, (float, np.floating)):
        return Fr(float(x))  # exact: a finite binary float IS a rational number
    raise TypeError(type(x))


class Q8:
    __slots__ = ("a", "b", "c", "d")
    __array_priority__ = 1000

    def __init__(self, a=0, b=0, c=0, d=0):
        self.a, self.b, self.c, self.d = _fr(a), _fr(b), _fr(c), _fr(d)

    # ---- conversions
    @staticmethod
    def of(x):
        if isinstance(x, Q8):
            return x
        if isinstance(x, (complex, np.complexfloating)):
            return Q8(_fr(x.real), 0, _fr(x.imag), 0)
        return Q8(_fr(x))

    def tup(self):
        return (self.a, self.b, self.c, self.d)

    def __complex__(self):
        s = 2 ** 0.5
        return complex(float(self.a) + float(self.b) * s, float(self.c) + float(self.d) * s)

    def __repr__(self):
        return f"Q8({self.a},{self.b},{self.c},{self.d})"

    # ---- field operations
    def __add__(self, o):
        o = Q8.of(o)
        return Q8(self.a + o.a, self.b + o.b, self.c + o.c, self.d + o.d)

    __radd__ = __add__

    def __neg__(self):
        return Q8(-self.a, -self.b, -self.c, -self.d)

    def __sub__(self, o):
        return self + (-Q8.of(o))

    def __rsub__(self, o):
        return Q8.of(o) + (-self)

    def __mul__(self, o):
        o = Q8.of(o)
        # (x1 + i y1)(x2 + i y2), x = a + b r, y = c + d r, r^2 = 2
        def m(p, q, s, t):  # (p + q r)(s + t r)
            return p * s + 2 * q * t, p * t + q * s

        xx = m(self.a, self.b, o.a, o.b)
        yy = m(self.c, self.d, o.c, o.d)
        xy = m(self.a, self.b, o.c, o.d)
        yx = m(self.c, self.d, o.a, o.b)
        return Q8(xx[0] - yy[0], xx[1] - yy[1], xy[0] + yx[0], xy[1] + yx[1])

    __rmul__ = __mul__

    def conjugate(self):
        return Q8(self.a, self.b, -self.c, -self.d)

    def abs2(self):
        """|z|^2 as a real element p + q*sqrt2 (returned as Q8 with zero imaginary part)"""
        return self * self.conjugate()

    def inverse(self):
        n = self.abs2()  # p + q r, real, > 0 unless self == 0
        den = n.a * n.a - 2 * n.b * n.b  # rational norm; nonzero for n != 0 (sqrt2 irrational)
        if den == 0:
            raise ZeroDivisionError("Q8 inverse of zero")
        ninv = Q8(n.a / den, -n.b / den)
        return self.conjugate() * ninv

    def __truediv__(self, o):
        return self * Q8.of(o).inverse()

    def __rtruediv__(self, o):
        return Q8.of(o) * self.inverse()

    # ---- comparisons
    def __eq__(self, o):
        try:
            o = Q8.of(o)
        except TypeError:
            return NotImplemented
        return self.tup() == o.tup()

    def __ne__(self, o):
        r = self.__eq__(o)
        return r if r is NotImplemented else not r

    def __hash__(self):
        return hash(self.tup())

    def __bool__(self):
        return any(x != 0 for x in self.tup())

    def is_real(self):
        return self.c == 0 and self.d == 0

    def sign(self):
        """exact sign of a real element p + q*sqrt2"""
        assert self.is_real()
        p, q = self.a, self.b
        if q == 0:
            return (p > 0) - (p < 0)
        if p == 0:
            return (q > 0) - (q < 0)
        if (p > 0) == (q > 0):
            return 1 if p > 0 else -1
        # opposite signs: compare p^2 with 2 q^2
        big_p = p * p > 2 * q * q
        return ((p > 0) - (p < 0)) if big_p else ((q > 0) - (q < 0))

    def real_ge(self, rational):
        """self (real) >= rational, exactly"""
        return (self - Q8(rational)).sign() >= 0


ZERO, ONE = Q8(0), Q8(1)
I_UNIT = Q8(0, 0, 1, 0)
INV_SQRT2 = Q8(0, Fr(1, 2))  # sqrt2 / 2
OMEGA = Q8(0, Fr(1, 2), 0, Fr(1, 2))  # e^{i pi/4} = (1 + i)/sqrt2

CANDIDATES = {}
for _re in (ZERO, ONE, -ONE, INV_SQRT2, -INV_SQRT2, Q8(Fr(1, 2)), Q8(Fr(-1, 2))):
    for _im in (ZERO, ONE, -ONE, INV_SQRT2, -INV_SQRT2, Q8(Fr(1, 2)), Q8(Fr(-1, 2))):
        _z = _re + I_UNIT * _im
        CANDIDATES[_z] = complex(_z)


def lift_entry(z, tol=4e-16):
    """the unique element of the candidate grid {0, +-1, +-1/2, +-1/sqrt2}^2 within `tol` of the float/complex z
    (the grid points are >= 0.2 apart, so the lift is unique); None if there is none"""
    z = complex(z)
    hits = [q for q, c in CANDIDATES.items() if abs(c - z) <= tol]
    return hits[0] if len(hits) == 1 else None


def lift(M, tol=4e-16):
    """float matrix -> exact object matrix (None if some entry is not within tol of a grid point)"""
    M = np.asarray(M)
    out = np.empty(M.shape, dtype=object)
    for idx in np.ndindex(M.shape):
        q = lift_entry(M[idx], tol)
        if q is None:
            return None
        out[idx] = q
    return out


def mat(rows):
    out = np.empty((len(rows), len(rows[0])), dtype=object)
    for i, r in enumerate(rows):
        for j, v in enumerate(r):
            out[i, j] = Q8.of(v)
    return out


def mm(A, B):
    n, k, m = A.shape[0], A.shape[1], B.shape[1]
    out = np.empty((n, m), dtype=object)
    for i in range(n):
        for j in range(m):
            s = ZERO
            for t in range(k):
                s = s + A[i, t] * B[t, j]
            out[i, j] = s
    return out


def scale(z, A):
    out = np.empty(A.shape, dtype=object)
    for idx in np.ndindex(A.shape):
        out[idx] = z * A[idx]
    return out


def dagger(A):
    out = np.empty((A.shape[1], A.shape[0]), dtype=object)
    for i in range(A.shape[0]):
        for j in range(A.shape[1]):
            out[j, i] = A[i, j].conjugate()
    return out


def key(A):
    return tuple(A[idx].tup() for idx in np.ndindex(A.shape))


def eq(A, B):
    return A.shape == B.shape and key(A) == key(B)


def to_complex(A):
    out = np.empty(A.shape, dtype=complex)
    for idx in np.ndindex(A.shape):
        out[idx] = complex(A[idx])
    return out


def max_abs2_diff(A, B):
    """max over entries of |A-B|^2 (a real element of Q(sqrt2)), exact"""
    best = ZERO
    for idx in np.ndindex(A.shape):
        d = (A[idx] - B[idx]).abs2()
        if (d - best).sign() > 0:
            best = d
    return best
